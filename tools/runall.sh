#!/bin/bash
# usage: tools/runall.sh <tier> <outdir> C01 C02 ...   (runs sequentially in groups of 4)
tier=$1; out=$2; shift 2
mkdir -p $out
printf '%s\n' "$@" | xargs -P ${PAR:-4} -I{} sh -c "cd /verif && /venv/bin/python -m pvm.run {} --tier $tier > $out/{}.out 2>&1; echo \"{} exit=\$?\" >> $out/{}.out"
for p in "$@"; do echo "$p: $(grep -E '^\[C' $out/$p.out | tail -1) $(grep -c '^VIOLATION' $out/$p.out) viol, $(grep -c '^KNOWN-FINDING' $out/$p.out) known; $(grep 'exit=' $out/$p.out)"; done
