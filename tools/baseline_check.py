#!/venv/bin/python
"""Runs the repository baseline command (guard off) and compares with BASELINE.json stable_pass."""
import json, subprocess, sys, os, xml.etree.ElementTree as ET, time
out = sys.argv[1] if len(sys.argv) > 1 else "/tmp/pvm_baseline.junit.xml"
b = json.load(open("/root/.vp/BASELINE.json"))
cmd = b["cmd"].replace("<file>", out)
t = time.time()
subprocess.run(cmd, shell=True, stdout=subprocess.DEVNULL, stderr=subprocess.DEVNULL)
passed = set()
for tc in ET.parse(out).getroot().iter("testcase"):
    if not any(ch.tag in ("failure", "error", "skipped") for ch in tc):
        passed.add(f"{tc.get('classname')}::{tc.get('name')}")
stable = set(b["stable_pass"])
missing = sorted(stable - passed)
print(f"baseline: {len(stable)} stable, {len(stable & passed)} pass now, {len(missing)} regressed, {time.time()-t:.0f}s")
for m in missing[:40]:
    print("  REGRESSED", m)
sys.exit(1 if missing else 0)
