#!/opt/veriftools/pyvenv/bin/python
"""Validates MANIFEST.json and every evidence file against the published schemas; checks that every
property is either claimed or listed under not_applicable and that MANIFEST levels match the evidence."""
import json, os, sys, jsonschema
H = os.path.dirname(os.path.dirname(os.path.abspath(__file__)))
m = json.load(open(os.path.join(H, "MANIFEST.json")))
jsonschema.validate(m, json.load(open("/root/.vp/MANIFEST.schema.json")))
es = json.load(open("/root/.vp/EVIDENCE.schema.json"))
props = [json.loads(l)["id"] for l in open(os.path.join(H, "properties.jsonl"))]
claimed = {c["property_id"]: c for c in m["checks"]}
na = {x["property_id"] for x in m.get("not_applicable", [])}
bad = 0
for p in props:
    if (p in claimed) == (p in na):
        print("PROPERTY", p, "claimed and n/a inconsistent"); bad += 1
for p, c in claimed.items():
    f = c["evidence_file"]
    try:
        e = json.load(open(f)); jsonschema.validate(e, es)
        if e["level"] != c["level_claimed"]["category"]:
            print(p, "level mismatch", e["level"], c["level_claimed"]["category"]); bad += 1
        cov = e["coverage"]
        print(f"{p} ok tier={e['tier']} evals={cov['evaluations']} distinct={cov['distinct_nontrivial']} samples={len(cov['samples'])} violations={e.get('violations')} pandera={cov.get('pandera_path')}")
    except Exception as ex:
        print(p, "INVALID", str(ex)[:200]); bad += 1
print("manifest + evidence:", "OK" if not bad else f"{bad} problem(s)")
sys.exit(1 if bad else 0)
