#!/venv/bin/python
"""Lead's own confirmation of a seeded mutation: scratch git worktree of /repo, apply patch,
demo must pass on the clean tree and fail with the patch, related baseline tests must not regress.
Writes confirmed_by_lead into seeded/<id>/meta.json.   usage: tools/confirm_seed.py <id> [test paths...]"""
import json, os, subprocess, sys, shutil
H = os.path.dirname(os.path.dirname(os.path.abspath(__file__)))
sid = sys.argv[1]
tests = sys.argv[2:] or ["tests/core/test_schemas.py", "tests/core/test_schema_components.py", "tests/core/test_checks.py",
                         "tests/core/test_errors.py", "tests/core/test_config.py", "tests/core/test_validation_depth.py",
                         "tests/core/test_parsers.py", "tests/core/test_dtypes.py", "tests/polars"]
d = os.path.join(H, "seeded", sid)
wt = f"/tmp/seedc_{sid}"
subprocess.run(["git", "-C", "/repo", "worktree", "remove", "--force", wt], capture_output=True)
subprocess.run(["git", "-C", "/repo", "worktree", "add", "-q", "--detach", wt, "HEAD"], check=True)
try:
    head = subprocess.run(["git", "-C", "/repo", "log", "--format=%h", "-1"], capture_output=True, text=True).stdout.strip()
    r = subprocess.run(["git", "-C", wt, "apply", os.path.join(d, "patch.diff")], capture_output=True, text=True)
    if r.returncode:
        r = subprocess.run(["patch", "-p1", "-d", wt, "-i", os.path.join(d, "patch.diff")], capture_output=True, text=True)
        if r.returncode:
            print("PATCH FAILED", r.stdout[-400:], r.stderr[-400:]); sys.exit(3)
    demo = os.path.join(d, "demo.py")
    clean = subprocess.run(["/venv/bin/python", demo], cwd="/repo", capture_output=True, text=True, timeout=1800,
                           env=dict(os.environ, PYTHONPATH="/repo", PYTHONDONTWRITEBYTECODE="1"))
    mut = subprocess.run(["/venv/bin/python", demo], cwd=wt, capture_output=True, text=True, timeout=1800,
                         env=dict(os.environ, PYTHONPATH=wt, PYTHONDONTWRITEBYTECODE="1"))
    imp = subprocess.run(["/venv/bin/python", "-c", "import pandera, pandera.polars, pandera.io; print(pandera.__file__)"], cwd=wt,
                         capture_output=True, text=True, env=dict(os.environ, PYTHONPATH=wt))
    bc = subprocess.run([os.path.join(H, "tools", "bcheck.py"), *tests], capture_output=True, text=True,
                        env=dict(os.environ, PVM_REPO=wt))
    line = [l for l in bc.stdout.splitlines() if l.startswith("bcheck:")]
    # known id instability of the test-suite itself (parametrised over a set: the float16
    # xfail of index_strategy and the pyspark Timedelta case move between ids from run to run)
    import re
    FLAKY = re.compile(r"test_check_nullable_field_strategy\[(True|False)-index_strategy-data_type\d+\]"
                       r"|test_schemas_on_pyspark_pandas::test_nullable\[dtype\d+\]")
    regressed = [l for l in bc.stdout.splitlines() if "REGRESSED" in l]
    real = [l for l in regressed if not FLAKY.search(l)]
    tests_ok = bc.returncode == 0 or (regressed and not real)
    ok = clean.returncode == 0 and mut.returncode != 0 and tests_ok and wt in imp.stdout
    rec = {"repo_head": head, "scratch_worktree": wt + " (removed afterwards)",
           "imports_with_patch": imp.stdout.strip()[-80:],
           "demo": f"clean exit={clean.returncode}, mutated exit={mut.returncode}",
           "tests_with_patch": (line or [bc.stdout[-300:]])[0] + " on " + " ".join(tests)
           + ("; the regressed ids are only the known id-unstable xfail/flaky parametrisations" if regressed and not real else ""),
           "confirmed": ok}
    m = json.load(open(os.path.join(d, "meta.json")))
    m["confirmed_by_lead"] = rec
    json.dump(m, open(os.path.join(d, "meta.json"), "w"), indent=1)
    print(sid, "CONFIRMED" if ok else "NOT CONFIRMED", rec["demo"], rec["tests_with_patch"][:120])
    if not ok:
        print(mut.stdout[-300:], mut.stderr[-300:], clean.stderr[-300:])
finally:
    subprocess.run(["git", "-C", "/repo", "worktree", "remove", "--force", wt], capture_output=True)
    shutil.rmtree(wt, ignore_errors=True)
