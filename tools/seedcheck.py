#!/venv/bin/python
"""Run checks against a seeded mutation on a scratch copy of /repo.
usage: seedcheck.py <patch.diff> <Cxx>[,Cyy...] [--tier quick|thorough] [--demo demo.py]"""
import os, subprocess, sys, shutil, tempfile, argparse
ap = argparse.ArgumentParser(); ap.add_argument("patch"); ap.add_argument("props"); ap.add_argument("--tier", default="quick"); ap.add_argument("--demo")
a = ap.parse_args()
d = tempfile.mkdtemp(prefix="pvm_seed_", dir="/tmp")
try:
    subprocess.run(["rsync", "-a", "--exclude", ".git", "--exclude", "__pycache__", "--exclude", "/tests", "--exclude", "/docs", "/repo/", d + "/"], check=True)
    r = subprocess.run(["patch", "-p1", "-d", d, "-i", os.path.abspath(a.patch)], capture_output=True, text=True)
    if r.returncode != 0:
        print("PATCH FAILED", r.stdout[-500:], r.stderr[-300:]); sys.exit(3)
    if a.demo:
        a.demo = os.path.abspath(a.demo)
        r0 = subprocess.run(["/venv/bin/python", a.demo], env=dict(os.environ, PYTHONPATH="/repo"), capture_output=True, text=True, cwd="/tmp")
        r1 = subprocess.run(["/venv/bin/python", a.demo], env=dict(os.environ, PYTHONPATH=d), capture_output=True, text=True, cwd="/tmp")
        print(f"demo: clean exit={r0.returncode} mutated exit={r1.returncode}")
    for pid in a.props.split(","):
        env = dict(os.environ, PVM_REPO=d, PYTHONDONTWRITEBYTECODE="1", PVM_EVIDENCE_DIR=os.path.join(d, "_ev"), VERIF_TIER=a.tier)
        r = subprocess.run(["/venv/bin/python", "-m", "pvm.run", pid, "--tier", a.tier], cwd="/verif", env=env, capture_output=True, text=True)
        mech = sorted({l.split("mechanism=")[1].strip() for l in r.stdout.splitlines() if "mechanism=" in l})
        print(f"{pid}: exit={r.returncode} {'CAUGHT' if r.returncode == 1 else 'MISSED'} {mech[:5]}")
        print("   ", [l for l in r.stdout.splitlines() if l.startswith('[')][-1:])
finally:
    shutil.rmtree(d, ignore_errors=True)
