#!/venv/bin/python
"""Append / update an entry of known_findings.json.
usage: tools/kf.py PROP KEY open|fixed COMMIT|- "what fails"
"""
import json, os, sys
H = os.path.dirname(os.path.dirname(os.path.abspath(__file__)))
P = os.path.join(H, "known_findings.json")
prop, key, status, commit, what = sys.argv[1:6]
d = json.load(open(P))
fs = d["findings"]
e = next((f for f in fs if f["property"] == prop and f["key"] == key), None)
if e is None:
    e = {"property": prop, "key": key}
    fs.append(e)
e["status"] = status
if commit != "-":
    e["commit"] = commit
else:
    e.pop("commit", None)
e["what"] = what
e["line"] = (f"fixed: property={prop} {commit} {what}" if status == "fixed"
             else f"KNOWN-FINDING: property={prop} {key}: {what}")
json.dump(d, open(P, "w"), indent=1)
print("ok", prop, key, status)
