#!/bin/bash
# Runs the quick tier of the owning property against every seeded mutation (scratch copy of /repo), writes seeded/RESULTS.md
# usage: tools/seed_sweep.sh [parallelism]
cd /verif
P=${1:-4}
tmp=$(mktemp -d /tmp/pvm_sweep_XXXX)
ls -d seeded/C*-mut*/ | xargs -P $P -I{} sh -c 'id=$(basename {}); p=${id%%-*}; /venv/bin/python tools/seedcheck.py {}patch.diff $p > '$tmp'/$id.txt 2>&1'
out=seeded/RESULTS.md
echo "| mutation | property | quick tier | mechanisms reported |" > $out
echo "|---|---|---|---|" >> $out
for d in seeded/C*-mut*/; do
  id=$(basename $d); p=${id%%-*}
  if grep -q neutralised_by $d/meta.json; then echo "| $id | $p | (neutralised by a later repair, see meta.json) |  |" >> $out; continue; fi
  r=$(grep "^$p:" $tmp/$id.txt)
  [ -z "$r" ] && r="$p: $(grep -m1 'PATCH FAILED' $tmp/$id.txt || echo 'no result')"
  echo "| $id | $p | $(echo $r | grep -o 'CAUGHT\|MISSED\|PATCH FAILED') | $(echo $r | sed 's/.*\[\(.*\)\]/\1/' | cut -c1-160) |" >> $out
done
rm -rf $tmp
grep -c CAUGHT $out; grep -v CAUGHT $out | tail -n +3
