#!/bin/bash
# Runs the quick tier of the owning property against every seeded mutation (scratch copy of /repo), writes seeded/RESULTS.md
cd /verif
out=seeded/RESULTS.md
echo "| mutation | property | quick tier | mechanisms reported |" > $out
echo "|---|---|---|---|" >> $out
for d in seeded/C*-mut*/; do
  id=$(basename $d); p=${id%%-*}
  r=$(/venv/bin/python tools/seedcheck.py $d/patch.diff $p 2>&1 | grep "^$p:")
  echo "| $id | $p | $(echo $r | grep -o 'CAUGHT\|MISSED') | $(echo $r | sed 's/.*\[\(.*\)\]/\1/' | cut -c1-160) |" >> $out
  echo "$id $r"
done
