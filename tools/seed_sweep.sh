#!/bin/bash
# Runs the quick tier of the owning property against every seeded mutation (scratch copy of /repo), writes seeded/RESULTS.md
# usage: [ONLY="C02 C05"] tools/seed_sweep.sh [parallelism]
#   ONLY restricts the re-run to the listed properties; the rows of the others are kept from the existing RESULTS.md
cd /verif
P=${1:-4}
tmp=$(mktemp -d /tmp/pvm_sweep_XXXX)
out=seeded/RESULTS.md
cp $out $tmp/old.md 2>/dev/null
sel() { [ -z "$ONLY" ] || echo " $ONLY " | grep -q " $1 "; }
for d in seeded/C*-mut*/; do id=$(basename $d); p=${id%%-*}; sel $p && echo $d; done | xargs -P $P -I{} sh -c 'id=$(basename {}); p=${id%%-*}; /venv/bin/python tools/seedcheck.py {}patch.diff $p > '$tmp'/$id.txt 2>&1'
echo "| mutation | property | quick tier | mechanisms reported |" > $out
echo "|---|---|---|---|" >> $out
for d in seeded/C*-mut*/; do
  id=$(basename $d); p=${id%%-*}
  if grep -q neutralised_by $d/meta.json; then echo "| $id | $p | (neutralised by a later repair, see meta.json) |  |" >> $out; continue; fi
  if grep -q not_judged_by_design $d/meta.json; then echo "| $id | $p | (outside what the check judges, see meta.json) |  |" >> $out; continue; fi
  if ! sel $p; then grep "^| $id |" $tmp/old.md >> $out || echo "| $id | $p | no result |  |" >> $out; continue; fi
  r=$(grep "^$p:" $tmp/$id.txt)
  [ -z "$r" ] && r="$p: $(grep -m1 'PATCH FAILED' $tmp/$id.txt || echo 'no result')"
  echo "| $id | $p | $(echo $r | grep -o 'CAUGHT\|MISSED\|PATCH FAILED') | $(echo $r | sed 's/.*\[\(.*\)\]/\1/' | cut -c1-160) |" >> $out
done
rm -rf $tmp
grep -c CAUGHT $out; grep -v CAUGHT $out | tail -n +3
