#!/venv/bin/python
"""Creates a scratch worktree /tmp/seed/wt_<P> and the prompt file /tmp/seed/prompt_<P>.txt for a
seeded-mutation sub-agent (which sees only the property text).  usage: tools/mk_seed_prompt.py C15 ..."""
import json, os, subprocess, sys
H = os.path.dirname(os.path.dirname(os.path.abspath(__file__)))
for p in sys.argv[1:]:
    wt = f"/tmp/seed/wt_{p}"
    os.makedirs(f"/tmp/seed/out_{p}", exist_ok=True)
    subprocess.run(["git", "-C", "/repo", "worktree", "remove", "--force", wt], capture_output=True)
    subprocess.run(["git", "-C", "/repo", "worktree", "add", "-q", "--detach", wt, "HEAD"], check=True)
    prop = [json.loads(l) for l in open(os.path.join(H, "properties.jsonl")) if json.loads(l)["id"] == p][0]
    txt = f"""You are testing how well a verification suite (which you cannot see) detects regressions in the open-source Python library pandera (dataframe schema validation). You get ONLY the text of one semantic property. Produce THREE independent, realistic code changes to pandera, each of which breaks the property while the package still imports and the existing test-suite still passes.

Property ({p}) — {prop['title']}
Statement: {prop['statement']}
Quantifier: {prop['quantifier']['text']}

Your workspace: a scratch git worktree of the repository at {wt} (python: /venv/bin/python; run things with `cd {wt} && /venv/bin/python ...` so that this checkout's pandera is imported — verify with `python -c "import pandera; print(pandera.__file__)"`). Do not touch /repo or /verif and do not read anything under /verif. Output directory: /tmp/seed/out_{p}/mut1, mut2, mut3.

Requirements for each change (mutation):
* It looks like something a developer could plausibly commit (a refactor, a performance shortcut, a 'simplification', an off-by-one, a forgotten restore/cleanup, a cache added, a lock dropped) — 1 to 15 changed lines in pandera/ (not in tests/).
* It needs something SPECIFIC to manifest — a particular interleaving, a fault at a particular point, a multi-step sequence of operations, an unusual input class, or two cooperating sites that each look fine alone. Ordinary use must NOT expose it at once. The three mutations must use different mechanisms / code sites.
* The existing tests most related to the code you touched must give the same pass/fail set as on the clean tree (the clean tree has pre-existing failures in this sandbox, e.g. 49 in tests/core/test_model.py and 18 in tests/core/test_decorators.py because of numpy 2.5 — compare against the clean tree, do not try to fix them). Run at least: tests/core/test_schemas.py tests/core/test_schema_components.py tests/core/test_checks.py tests/core/test_errors.py tests/polars plus the modules specific to your change (tests/io, tests/strategies, tests/core/test_dtypes.py, tests/core/test_pandas_engine.py, tests/core/test_schema_inference.py, tests/core/test_model.py, tests/core/test_decorators.py ... as applicable).
* A demonstration `demo.py`: a stand-alone program using only pandera's public API (plus pandas/polars/hypothesis/threading as needed) that exits 0 on the clean tree and exits non-zero (printing what went wrong) with your change applied. It must be deterministic. It must start with `import sys, os; sys.path.insert(0, os.getcwd())` so that it imports the pandera of the directory it is started from.
* NEVER use `git stash` (the stash is shared between worktrees of other agents). To switch between clean and changed tree use `git diff > /tmp/seed/out_{p}/cur.diff; git checkout -- .; ...; git apply /tmp/seed/out_{p}/cur.diff`.
* Work on one mutation at a time: make the change, verify, write `/tmp/seed/out_{p}/mutN/patch.diff` (`git diff` against HEAD, applies with `git apply` at the worktree root), `/tmp/seed/out_{p}/mutN/demo.py` and `/tmp/seed/out_{p}/mutN/meta.json` with keys: property, title, what_it_breaks, needs_to_manifest, tests_run (exact command and result line, with and without the change), files_touched. Then `git checkout -- .` before starting the next one.

Finish with a short report: for each mutation one paragraph (what, why the tests miss it, what it needs to manifest). Leave the worktree clean (no uncommitted changes)."""
    open(f"/tmp/seed/prompt_{p}.txt", "w").write(txt)
    print("ok", p)
