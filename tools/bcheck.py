#!/venv/bin/python
"""Runs selected repository test paths and reports stable-pass tests of BASELINE.json
(restricted to the test modules that ran) which no longer pass.

usage: tools/bcheck.py tests/core/test_schemas.py tests/io ...
"""
import json, subprocess, sys, os, tempfile, time, xml.etree.ElementTree as ET
paths = sys.argv[1:] or ["tests/core"]
repo = os.environ.get("PVM_REPO", "/repo")
out = tempfile.mktemp(suffix=".junit.xml", prefix="bcheck_")
t = time.time()
subprocess.run(["/venv/bin/python", "-m", "pytest", "-q", "-p", "no:cacheprovider", "--timeout=900",
                "--continue-on-collection-errors", f"--junitxml={out}", *paths],
               cwd=repo, stdout=subprocess.DEVNULL, stderr=subprocess.DEVNULL)
passed, ran_mod, ran = set(), set(), set()
for tc in ET.parse(out).getroot().iter("testcase"):
    cn = tc.get("classname")
    mod = ".".join(p for p in cn.split(".") if not p[:1].isupper())
    ran_mod.add(mod)
    ran.add(f"{cn}::{tc.get('name')}")
    if not any(ch.tag in ("failure", "error", "skipped") for ch in tc):
        passed.add(f"{cn}::{tc.get('name')}")
os.unlink(out)
b = json.load(open("/root/.vp/BASELINE.json"))
stable = {s for s in b["stable_pass"]
          if ".".join(p for p in s.split("::")[0].split(".") if not p[:1].isupper()) in ran_mod}
missing = sorted((stable & ran) - passed)
absent = stable - ran
print(f"bcheck: modules={len(ran_mod)} stable={len(stable)} pass_now={len(stable & passed)} regressed={len(missing)} not_collected={len(absent)} {time.time()-t:.0f}s")
for m in missing[:40]:
    print("  REGRESSED", m)
sys.exit(1 if missing else 0)
