"""usage: python tools/dbg.py <replay.json>  -> prints the pandas objects and re-runs validate"""
import sys, json; sys.path.insert(0,'/verif')
from pvm import env; env.pin_repo()
import warnings; warnings.filterwarnings("ignore")
from pvm.gen import build as B, parse as P
from pvm import harness as H, snap as S
d=json.load(open(sys.argv[1])); w=d['witness']; spec=w['spec']; table=w['table']
backend=w.get('backend','pandas')
print(d['mechanism'], {k:v for k,v in w.items() if k not in('spec','table')})
if backend=='pandas':
    data=B.pandas_table(spec,table); mk=lambda s: B.pandas_schema(s)
else:
    data=B.polars_table(table, lazy=backend.endswith('lazy')); mk=lambda s: B.polars_schema(s)
lazy=bool(spec.get('drop_invalid_rows'))
print(mk(spec)); print(data if not hasattr(data,'collect') else data.collect()); 
o=H.run_validate(mk(spec),data,lazy=lazy); print('first:',o.kind, o.reasons(), repr(o.exc)[:300] if o.exc else '')
if o.accepted:
    r=o.result; print(r if not hasattr(r,'collect') else r.collect()); print(getattr(r,'dtypes',None))
    o2=H.run_validate(mk(P.strip(spec)),r,lazy=True); print('stripped:',o2.kind,[(e.reason,e.column,e.cells,e.scalar) for e in o2.errors], repr(o2.exc)[:300] if o2.kind=='exc' else '')
    o3=H.run_validate(mk(spec),r,lazy=lazy); print('again:',o3.kind,o3.reasons())
    if o3.accepted:
        r3=o3.result; print(r3 if not hasattr(r3,'collect') else r3.collect()); print(S.diff(S.snap(r),S.snap(r3)))
