import json,glob,sys
pid=sys.argv[1]; base=sys.argv[2] if len(sys.argv)>2 else '/verif/replays'
for f in sorted(glob.glob(f'{base}/{pid}/*.json')):
    d=json.load(open(f))
    w=d['witness']
    print('=====',d['mechanism'], {k:w[k] for k in w if k not in('spec','table')})
    sp=w.get('spec')
    if not sp: continue
    if sp['kind']=='frame':
        for c in sp['columns']: print('  col',repr(c['name']),c['dtype'],'null' if c['nullable'] else '', 'uniq:'+c['report_duplicates'] if c['unique'] else '', 'req' if c['required'] else 'opt', 'regex' if c['regex'] else '', 'coerce' if c.get('coerce') else '', 'default=%r'%c['default'] if c.get('default') is not None else '', [ (k['kind'],k['args'],k['ignore_na']) for k in c['checks']])
        print('  opts', {k:sp[k] for k in sp if k not in ('columns','kind','index') and sp[k] not in (False,None,"all")})
    else: print('  series',sp['field'])
    if sp['index']:
        for l in sp['index']: print('  ilevel',{k:v for k,v in l.items() if v not in (False,None,"all",[])})
    for c in w['table']['columns']: print('  T',c)
    if w['table']['index']: print('  I', w['table']['index'])
