#!/venv/bin/python
"""Regenerates MANIFEST.json from the table below (keeps it valid at all times)."""
import json, os, sys
HERE = os.path.dirname(os.path.dirname(os.path.abspath(__file__)))
PY = "/venv/bin/python"

CHECKS = {
 "C01": dict(cat="exploration", tech="reference-model oracle over generated (schema, frame) pairs; runtime monitor on validate",
   text="Every generated (schema, pandas frame/series) pair is validated by the real code and the verdict is compared with a pure-Python reference model of the documented semantics; accepted results are compared bit-for-bit with the input. Held-on-observed-executions, not a proof.",
   note="Trusts pvm/model.py (documented semantics), pandas/numpy as containers; regions the docs leave open (two nulls under unique, str dtype on empty/all-null foreign columns, joint uniqueness over repeated labels) are generated but not judged.",
   ref="4/C01"),
 "C02": dict(cat="exploration", tech="differential eager/lazy runs of the real validate + reference-model oracle for the failure-case report",
   text="Each generated (schema, data) pair is validated eagerly and lazily by the real code: raise-equivalence, eager-error-in-lazy-errors and error_counts are checked on every rejected case; the lazy failure cases are compared cell-exactly (column, row position, value) with the reference model's violating cells on pandas and by (column, row position) on polars.",
   note="Cell-exact comparison needs unique non-null row labels, no repeated column labels and well-typed columns (elsewhere only the meta-relations are asserted). Trusts pvm/model.py.",
   ref="4/C02"),
 "C03": dict(cat="exploration", tech="metamorphic re-validation monitor on every returned object (stripped schema + fixpoint), real code on generated parse workloads",
   text="Every object returned by the real validate under a random combination of coerce/default/add_missing_columns/strict='filter'/drop_invalid_rows/idempotent parsers is re-submitted to (a) the same schema with all parsing options off and (b) the same schema again, and must be accepted and returned bit-identical. pandas DataFrameSchema/SeriesSchema(+index) and polars DataFrame/LazyFrame.",
   note="Custom parsers are idempotent by construction; drop_invalid_rows is judged only for unique non-null row labels (documented limitation); >=2 nulls under unique not judged; a LazyFrame result that fails on collect is not judged.",
   ref="4/C03"),
 "C04": dict(cat="exploration", tech="boundary monitor: deep bit-level snapshot of the argument (and of the frame it is a view of) before/after every real validate call; result container kind",
   text="On every outermost validate(inplace=False) of generated workloads (all parsing options x pass / eager fail / lazy fail x DataFrameSchema, SeriesSchema, Column, Index, MultiIndex, polars DataFrameSchema and Column on DataFrame and LazyFrame) the argument is snapshotted bit-for-bit before and after, including when it is a column-subset view, row-slice view or a Series taken from a frame; the result's container kind must equal the argument's.",
   note="Snapshot covers labels, order, dtypes, raw value bytes / typed cell reprs, index values/dtype/names, Series name; polars by schema + cell values. pandas attrs/flags are not compared.",
   ref="4/C04"),
 "C05": dict(cat="exploration", tech="history monitor: structural fingerprint + equality + probe-frame verdict vector of one schema object after every operation of a generated history of public operations",
   text="For generated schemas (pandas DataFrameSchema/SeriesSchema/Column, model-backed cached schemas, polars schemas and models) a generated history of 4-12 non-transforming public operations (validate pass / eager fail / lazy fail / subsampled, coerce, to_yaml/json/script, statistics, strategy/example, str/repr/==, deepcopy/pickle, transforming methods watched on the receiver) is executed on ONE schema object; after every operation the structural fingerprint and == against a snapshot are compared, and periodically the verdict vector on probe frames is compared with a pristine twin.",
   note="Fingerprint walks __dict__ of every pandera object reachable from the schema (pvm/fingerprint.py); module-global state only seen through verdicts; histories <= 12 ops; model index fields unreachable in this sandbox.",
   ref="4/C05"),
 "C06": dict(cat="fault_enumeration", tech="error-channel boundary monitor on every real validate call + enumeration of an injected exception at every k-th invocation of every user callback, with schema fingerprint / config / input snapshot compared before and after",
   text="Part A runs the real pandas and polars validate on ~7 k (quick) / ~200 k (thorough) generated hostile schema/data/option combinations and requires every outcome to be a return, SchemaError/SchemaErrors, SchemaDefinitionError/SchemaInitError, or TypeError/BackendNotFoundError for a non-dataframe argument. Part B counts the invocations of every user callback of callback-dense schemas (vectorised, element-wise, groupby and frame checks, groupby functions, parsers, custom DataType.check/coerce) and re-runs the call with an exception injected at each k-th invocation (all k when N <= 64; ~3.4 k fault points in quick); a raising check must be reported as CHECK_ERROR, and schema fingerprint, config context and input snapshot afterwards must equal those before.",
   note="pandas and polars backends; frames <= 6x7; injected exceptions derive from Exception. Not judged: BackendNotFoundError vs TypeError for non-dataframe arguments; the deliberate, test-pinned IndexError for a regex name that does not fit the column levels; polars SCHEMA_ONLY lazy-cast failures at materialisation (documented lazy semantics); sample= larger than the remaining population; what a raising check does under drop_invalid_rows when a frame is returned. State after a non-failing call belongs to C04/C05.",
   ref="4/C06"),
 "C07": dict(cat="exploration", tech="deterministic thread scheduler on sys.monitoring LINE events (token hand-over between pandera statements) + per-thread outcome oracle vs solo run + config/schema fingerprints after join",
   text="2-3 threads run real validate calls (shared pandas schema with coerce / frame dtype / regex columns, different schemas, polars DataFrame and LazyFrame, polars validate beside a user config_context, first use of a DataFrameModel, first use of the backend registry) under a scheduler that preempts only between two Python statements of pandera code: systematic single preemption in both directions, a grid of double preemptions and seeded random switching; every thread's outcome must equal its solo outcome bit-for-bit and config context, CONFIG and every schema fingerprint after join must equal those before. The evidence lists distinct executed interleavings and yield points.",
   note="Preemption points are a subset of real GIL switch points (no impossible interleaving); races inside a single pandas/polars call are not explored; 2-3 threads, frames <= 5 rows.",
   ref="4/C07"),
 "C12": dict(cat="exploration", tech="round-trip monitor: the real to_yaml/from_yaml, to_json/from_json and to_script+exec of generated schemas compared with a pristine twin (pandera ==, projection on the serialisable attributes, second-generation text, verdict vectors); witnesses minimised by re-execution",
   text="Every case builds a DataFrameSchema from a spec and runs the real to_yaml/from_yaml, to_json/from_json and to_script+exec. Cases come from a deterministic catalogue with one adversarial serialisable attribute at a time (every frame/column/index attribute, every built-in check x value family x option subset, every dtype alias, duplicated check kinds) plus seeded combinations of 1-4 such features. Each re-read schema is compared with an untouched twin by pandera's ==, by a projection on the attributes the statement lists, by the second-generation text and by verdicts on 6 boundary probe frames; failures are minimised by re-executing the writers with one feature removed at a time and classified by call site.",
   note="Not judged: JSON route for non-string column labels, int-vs-float and +-0.0-only differences, ge/le pairs the writer refuses as contradictory. Not generated: custom/registered checks, Check title/description/error/groupby, Column default/metadata/parsers, MultiIndex options, tz names other than UTC in statistics. Trusted: pvm fingerprint/snap/harness, pandas/yaml/black.",
   ref="4/C12"),
 "C14": dict(cat="exploration", tech="round-trip acceptance monitor on real infer_schema executions with exact-arithmetic comparison of every inferred bound against the data",
   text="Generated pandas frames and series go through the real infer_schema -> validate -> to_yaml/from_yaml -> validate. Workload: a deterministic catalogue of every column class x {plain, some nulls, all null, empty} and every index shape, then seeded random frames (ints to the width limits and beyond 2**53, floats with inf/-0.0/subnormals, bool, str, mixed object, categorical, datetime incl. sub-second / tz-aware, timedelta, nullable extension dtypes, period, interval, Index and MultiIndex). The monitor checks acceptance, value-equality of the returned object, equality of every inferred bound with the data's min/max recomputed on Python ints / Fractions / Timestamps, and an equal verdict after the YAML round trip; failures are re-run one component at a time and keyed by stage plus data-derived flags.",
   note="Not judged: dtype/representation changes with equal values (coerce=True is part of every inferred schema); tightness for bool, timedelta, complex; SeriesSchema serialisation (no YAML writer); JSON / to_script. Not generated: duplicate column labels, MultiIndex columns, Decimal / datetime.time / bytes / Period object columns. Trusted: pandas construction of the frames, Python int/Fraction/Timestamp comparison.",
   ref="4/C14"),
 "C15": dict(cat="exploration", tech="program-level metamorphic monitor: schema and an accepted frame transformed in lock-step by the real methods; receiver fingerprint, untouched-attribute fingerprints, accept(op(S),op(D)), inverse laws",
   text="Generated pandas and polars DataFrameSchemas with rich attributes are driven through programs of up to 5 transforming requests (add, remove, select, rename, update_column(s), set_index, reset_index, update_checks, set_checks) plus interleaved invalid requests; each request is mirrored on a real accepted frame. Monitors at every step: receiver fingerprint unchanged; every attribute not named by the request fingerprint-equal (incl. Index<->Column carry-over and MultiIndex options); accept(op(S), op(D)); a bad value in an untouched column stays rejected; the four inverse laws give a schema == and fingerprint-equal to S; invalid requests raise SchemaInitError/ValueError and return nothing.",
   note="set_index/reset_index judged for pandas only (polars frames have no index); where reset_index inserts former levels is judged only through the mirror on ordered=True schemas (open finding); coerce folded into the level left by a dissolved MultiIndex(coerce=True) not judged; updates are neutral, relaxing or data-satisfying only. Trusted: pvm.fingerprint, pvm.harness, pandas/polars as frame libraries.",
   ref="4/C15"),
 "C09": dict(cat="exploration", tech="exhaustive enumeration of the live dtype registries of every engine, driven through the real Engine.dtype / == / hash / str / DataType.check with equivalence, round-trip and recognition oracles",
   text="For the numpy, pandas(+pyarrow), polars and pyspark dtype engines the check reads the live registries and drives the real Engine.dtype, ==, hash, str and DataType.check over every equivalents key, every registered class, every dispatch-registered native class, hand-transcribed families of documented-equivalent spellings, all numpy aliases and seeded parameterisations (time zones, units, categories, decimal precision/scale, nested Arrow/polars/pyspark types). Asserted: every spelling resolves; resolution is idempotent; equivalent spellings resolve to equal, equally hashed objects; the printed name of a primitive type resolves back to it (numpy, pandas, pyspark); every resolved type recognises itself; t1.check(t2) over all ordered pairs of physical types implies equal (kind, signedness, width); a spelling resolves to the same object before and after the rest of the run. The registry part is complete (exhaustive: true); parameters are sampled.",
   note="Native (kind, sign, width) taken from numpy/pandas/pyarrow/polars/pyspark themselves; the documented-equivalence table is transcribed by hand from the docs (pvm/c09_engines.py). Not judged (counted undecided): round trip of Decimal, parameterised Category, Period/Sparse/Interval/pydantic/python-generic types, Arrow nested/binary/decimal/dictionary types and names pandas cannot parse; datetime units other than ns in the pandas engine (documented unsupported). Only the pyspark dtype engine is covered, not pyspark.sql validation.",
   ref="4/C09"),
 "C10": dict(cat="exploration", tech="icontract post-conditions on the real try_coerce of every registered DataType class + element-wise coercion oracle over generated containers",
   text="The real try_coerce of every DataType class registered with the pandas (+pyarrow), numpy and polars engines is run on generated Series / Index / DataFrame / ndarray / polars columns (width limits, 2**53+-1, NaN/inf, numeric and non-numeric strings, timestamps, Decimal, nested values, nulls, masked / arrow / categorical storage). It is observed by icontract post-conditions on every class (same length and labels, result passes the type's own check) and by an element-wise oracle: exact values preserved, nulls kept, coercing twice equals once, and on failure a ParserError whose failure cases equal the elements whose individual conversion fails. The schema-level paths (Column / SeriesSchema / Index / frame dtype=, pandas and polars) must surface the same failure cases under DATATYPE_COERCION and must not reject successfully coerced data with a dtype error.",
   note="'Exact' conversion is decided by pvm/c10_gen.exact; lossy numeric coercion is not judged. Individual convertibility = the type's own coerce_value (pandas/numpy), the one-row slice (polars). Not judged: nulls among the failure cases of nullable pandas types; null rows of polars dtype pairs with no cast at all; coerce_value's return value when numpy answers in another unit; dtype objects pandas cannot hash; PydanticModel row failure cases; containers that fail as a whole although every element converts. Trusted: pandas/numpy/polars/pyarrow casts as the reference for values, icontract.",
   ref="4/C10"),
 "C11": dict(cat="exploration", tech="reference-model oracle over row identities of the real validate(lazy=True) output; docs examples executed",
   text="Rows carry a hidden identity (unique int / string / MultiIndex labels; content+order on polars); after the real validate with drop_invalid_rows=True the surviving identities and values are compared with the rows on which the reference model finds every row-level constraint satisfied, in order; cases with a non-row violation must raise SchemaErrors (never return, never TypeError). The four examples of docs/source/drop_invalid_rows.md run as fixed cases.",
   note="Unique non-null index labels (documented limitation); exact coercion only (int/float/datetime retyping); SeriesSchema with a failing index schema not judged; trusts pvm/model.py.",
   ref="4/C11"),
 "C20": dict(cat="exploration", tech="differential monitor: real validate with head/tail/sample vs real validate of the explicitly selected rows (by position)",
   text="For generated schemas and frames with duplicate rows and repeated index labels, the outcome of the real validate(head,tail,sample,random_state) is compared (verdict, reasons, failing cells where labels identify rows) with the real validate of the frame made of the selected positions; also that the result has all rows, that a fixed random_state is deterministic, and that head=len(D) equals no option. pandas and polars.",
   note="Sampled positions are taken from a position column sampled with the same seed by the same library; index-level failure cases compared by value.",
   ref="4/C20"),
 "C08": dict(cat="exploration", tech="differential monitor: the same backend-neutral schema/table built for pandas and polars, both real backends run lazily; third opinion from the reference model",
   text="Each backend-neutral (spec, table) is built for pandas and for polars and validated lazily by both real backends: verdicts, frame-level errors, dtype/coercion error columns, failing cells (column, row position) and the parsed output (columns, order, logical dtype, values up to the null representation) must agree; without parsing options the verdict is also compared with the reference model so that a bug shared by both backends is seen.",
   note="Excluded as engine-representation artefacts (generated, counted, not judged): nulls in numpy int/bool columns, casts from text to datetime/bool, empty/all-null columns of a foreign physical type, >=2 nulls under unique, joint uniqueness over nulls; features the polars docs declare unsupported.",
   ref="4/C08"),
 "C17": dict(cat="exploration", tech="reference-wrapper oracle + metamorphic variants over generated decorated programs with instrumented bodies (did the body run, what did it receive)",
   text="Runs the real check_input / check_output / check_io / check_types on 2 000 (quick) / 60 000 (thorough) generated programs: 13 signature templates (defaults, *args, **kwargs, keyword-only, positional-only), pandas and polars schemas or plain-annotation models, valid / coercible / invalid / invalid-only-outside-head-tail frames, head/tail/sample/lazy/inplace, bodies that return the input, a new frame, a container, or raise. Each program runs in 6-10 equivalent variants (designation none/int/str x function/method/classmethod/staticmethod x positional/keyword call x sync/async); an instrumented body records whether it ran and what it received. Each variant is compared with a reference wrapper written from the statement (validate the designated inputs with the decorator's options via schema.validate; run the body iff all accepted, with the parsed objects; validate outputs; otherwise the same return/exception and caller-frame state) and the variants of one scenario with each other.",
   note="Trusted: schema.validate (C01-C03) and the reference wrapper pvm/c17_gen.py:reference. Counted, not judged: a frame whose accessor carries an equal schema but was modified afterwards; async check_output returning the unparsed object; which Union member parses; which error is reported when several inputs are invalid. Not exercised: with_pydantic, Series[...]/Index[...] annotations (numpy 2.5 sandbox limit), polars LazyFrame annotations, from_format/to_format, pyspark/modin/dask frames.",
   ref="4/C17"),
 "C18": dict(cat="exploration", tech="stack-model monitor of config_context programs, fresh-interpreter env-var matrix, metamorphic depth relations on real validate",
   text="Every config_context nesting of depth <= 2 over all option settings x exception shapes (exhaustive), plus sampled depth 3-4 programs with real validate calls, is compared step by step with a pure-Python save-stack model; the PANDERA_* environment matrix (108 settings; quick 16) is observed in fresh interpreters; for generated null-free (schema, data) the verdicts under SCHEMA_ONLY / DATA_ONLY / full are compared with the documentation-restricted schema at full depth on pandas, polars DataFrame and LazyFrame, including the polars defaults and 'disabled returns the argument'.",
   note="Schema-level vs data-level taken from docs/source/configuration.md, error_report.md, polars.md; nullability, coercion and defaults under depth not judged; documented env spellings only; single-threaded (C07 covers threads).",
   ref="4/C18"),
 "C19": dict(cat="exploration", tech="metamorphic option variants of one generated predicate with instrumented check functions on the real Check/validate",
   text="One generated predicate (comparison, modular, string, raising-on-null) is run through the real schema.validate as each option variant (element_wise vs vectorised map, ignore_na True/False, n_failure_cases, raise_warning, groupby/groups, aliases) at Column, Series, DataFrame level and on polars; verdicts, failure cases, SchemaWarnings and the arguments actually shown to the function are compared with each other and with a scalar reading of the predicate.",
   note="The scalar reading in pvm/c19_gen.py is the meaning of the function; null handling as documented in docs/source/checks.md; three polars items (groupby, ignore_na=False visibility, truncation) not judged; frames <= 8 rows.",
   ref="4/C19"),
}
NOT_YET = {}

def main():
    props = [json.loads(l)["id"] for l in open(os.path.join(HERE, "properties.jsonl"))]
    checks = []
    for pid in props:
        if pid not in CHECKS:
            continue
        c = CHECKS[pid]
        checks.append({
            "property_id": pid,
            "quick_cmd": f"{PY} -m pvm.run {pid} --tier quick",
            "thorough_cmd": f"{PY} -m pvm.run {pid} --tier thorough",
            "evidence_file": f"/verif/evidence/{pid}.json",
            "replay_cmd_template": f"{PY} -m pvm.run {pid} --replay {{path}}",
            "engine": "pvm",
            "level_claimed": {"category": c["cat"], "text": c["text"], "design_ref": c["ref"]},
            "level_note": c["note"],
            "technique": c["tech"],
        })
    na = [{"property_id": p, "reason": NOT_YET.get(p, "check not built yet in this session; will be claimed once its monitor exists and is silent on the unchanged tree")}
          for p in props if p not in CHECKS]
    m = {
        "version": 1,
        "setup_cmd": f"{PY} -m pvm.setup",
        "hooks": {"guard": "PANDERA_VERIF", "enable": "no source hooks: monitors wrap public entry points and use sys.monitoring from the harness; PANDERA_VERIF is reserved and unused",
                  "baseline_off_cmd": "cd /repo && /venv/bin/python -m pytest -ra -q -p no:cacheprovider --timeout=900 --continue-on-collection-errors",
                  "source_commits": [], "add_only": True},
        "engines": [{"name": "pvm", "path": "/verif/pvm", "serves_properties": [c["property_id"] for c in checks],
                     "kind_free_text": "runtime monitors (reference-model oracle, boundary snapshots, schema fingerprints, icontract contracts, fault injection, sys.monitoring scheduler) over generated workloads executed by the real pandera code"}],
        "checks": checks,
        "not_applicable": na,
        "notes": "All checks: exit 0 held / 1 + VIOLATION line / 2 inconclusive (coverage floor missed or watchdog). Known findings: /verif/known_findings.json (keyed by mechanism).",
    }
    with open(os.path.join(HERE, "MANIFEST.json"), "w") as f:
        json.dump(m, f, indent=1)
    print("checks:", [c["property_id"] for c in checks], "n/a:", [x["property_id"] for x in na])

if __name__ == "__main__":
    main()
