#!/venv/bin/python
"""Regenerates the generated tables of DESIGN.md (between <!-- X:BEGIN --> / <!-- X:END --> markers)
from known_findings.json, seeded/RESULTS.md and selftest/last_result.json."""
import json, os, re
H = os.path.dirname(os.path.dirname(os.path.abspath(__file__)))
d = json.load(open(os.path.join(H, "known_findings.json")))["findings"]

def findings():
    out = ["| property | mechanism key | status | commit | what fails |", "|---|---|---|---|---|"]
    for f in sorted(d, key=lambda f: (f["status"] != "open", f["property"], f["key"])):
        out.append(f"| {f['property']} | `{f['key']}` | {f['status']} | {f.get('commit','')} | {f['what'][:400].replace('|','/')} |")
    return "\n".join(out)

def seeded():
    p = os.path.join(H, "seeded", "RESULTS.md")
    return open(p).read().strip() if os.path.exists(p) else "(not yet generated)"

def selftest():
    p = os.path.join(H, "selftest", "last_result.json")
    if not os.path.exists(p):
        return "(not yet run)"
    rows = ["| deliberate break | verdict | checks run (exit code, mechanisms) |", "|---|---|---|"]
    for r in json.load(open(p)):
        rows.append(f"| {r['break']} | {r['verdict']} | {json.dumps(r['runs'])[:200]} |")
    return "\n".join(rows)

s = open(os.path.join(H, "DESIGN.md")).read()
for name, fn in (("FINDINGS", findings), ("SEEDED", seeded), ("SELFTEST", selftest)):
    b, e = f"<!-- {name}:BEGIN -->", f"<!-- {name}:END -->"
    if b in s:
        s = s[:s.index(b) + len(b)] + "\n" + fn() + "\n" + s[s.index(e):]
open(os.path.join(H, "DESIGN.md"), "w").write(s)
print("ok")
