"""Deliberate breaks for the checks integrated in session 3 (same format as breaks.py).
Several of them re-introduce a defect that was repaired with a `fix:` commit."""
BREAKS = [
 # ---- C05: hidden state
 ("c05_setstate_shares_dict", ["C05"], "pandera/api/base/schema.py",
  "self.__dict__ = dict(state)", "self.__dict__ = state"),
 ("c05_parse_checks_mutates_statistics", ["C05"], "pandera/schema_statistics/pandas.py",
  "{} if check.statistics is None else dict(check.statistics)", "{} if check.statistics is None else check.statistics"),
 ("c05_datetime_check_mutates_dtype", ["C05"], "pandera/engines/pandas_engine.py",
  "resolved = copy.copy(self)", "resolved = self"),
 ("c05_regex_name_not_restored", ["C05", "C06"], "pandera/backends/pandas/components.py",
  "copy(schema).set_name(column_name)", "schema.set_name(column_name)"),
 ("c05_component_renamed_to_key", ["C05"], "pandera/backends/pandas/container.py",
  "                    col = copy.copy(col)\n                    col.name = col_name", "                    col.name = col_name"),
 ("c05_dispatcher_deepcopied_with_schema", ["C05"], "pandera/api/function_dispatch.py",
  "    def __deepcopy__(self, memo):", "    def _unused_deepcopy(self, memo):"),
 # ---- C07: interleavings
 ("c07_config_not_thread_local", ["C07"], "pandera/config.py",
  "class _ContextConfig(threading.local):", "class _ContextConfig:"),
 ("c07_components_not_copied", ["C07"], "pandera/backends/pandas/container.py",
  "            schema_component = copy.copy(schema_component)\n", ""),
 ("c07_model_class_dict_iterated_live", ["C07"], "pandera/api/dataframe/model.py",
  "list(vars(base).items())", "vars(base).items()"),
 # ---- C18: configuration
 ("c18_reset_restores_global_config", ["C18"], "pandera/config.py",
  "_CONTEXT_CONFIG.config = copy(conf or CONFIG)", "_CONTEXT_CONFIG.config = copy(CONFIG)"),
 ("c18_data_scope_compares_wrong_member", ["C18"], "pandera/validation_depth.py",
  "                if config.validation_depth == ValidationDepth.SCHEMA_ONLY:",
  "                if config.validation_depth == ValidationDepth.DATA_ONLY:"),
 ("c18_env_cache_dataframe_inverted", ["C18"], "pandera/config.py",
  'os.environ.get("PANDERA_CACHE_DATAFRAME", None) == "True" or False',
  'os.environ.get("PANDERA_CACHE_DATAFRAME", None) != "False" or False'),
 # ---- C19: check options
 ("c19_raise_warning_reports_failure", ["C19"], "pandera/backends/pandas/base.py",
  "                return CoreCheckResult(\n                    passed=True,\n                    check=check,\n                    reason_code=SchemaErrorReason.DATAFRAME_CHECK,\n                )",
  "                return CoreCheckResult(\n                    passed=False,\n                    check=check,\n                    reason_code=SchemaErrorReason.DATAFRAME_CHECK,\n                )"),
 ("c19_n_failure_cases_off_by_one", ["C19"], "pandera/backends/pandas/checks.py",
  "                failure_cases = failure_cases.head(\n                    self.check.n_failure_cases\n                )",
  "                failure_cases = failure_cases.head(\n                    self.check.n_failure_cases + 1\n                )"),
 ("c19_ignore_na_false_still_drops", ["C19"], "pandera/backends/pandas/checks.py",
  "        if self.check.ignore_na and check_obj.hasnans:", "        if check_obj.hasnans:"),
]
