#!/venv/bin/python
"""Sensitivity check of the monitors: apply one deliberate break to a scratch
copy of /repo (outside /repo and /verif), run the quick tier of the property it
should violate with PVM_REPO pointing at the copy, require exit 1, delete the copy.

usage: selftest/run.py [break_id ...]   (default: all)"""
import os, subprocess, sys, shutil, tempfile, json
from concurrent.futures import ThreadPoolExecutor
HERE = os.path.dirname(os.path.abspath(__file__))
sys.path.insert(0, HERE)
from breaks import BREAKS
try:
    from breaks_agents import BREAKS as B2
    BREAKS = BREAKS + B2
except ImportError:
    pass

def one(b):
    bid, props, rel, old, new = b
    d = tempfile.mkdtemp(prefix="pvm_st_", dir="/tmp")
    try:
        subprocess.run(["rsync", "-a", "--exclude", ".git", "--exclude", "__pycache__", "--exclude", "/tests", "--exclude", "/docs", "/repo/", d + "/"], check=True)
        p = os.path.join(d, rel)
        s = open(p).read()
        if old not in s:
            return bid, "PATCH-DOES-NOT-APPLY", {}
        open(p, "w").write(s.replace(old, new, 1))
        res = {}
        for pid in props:
            env = dict(os.environ, PVM_REPO=d, PYTHONDONTWRITEBYTECODE="1", PVM_EVIDENCE_DIR=os.path.join(d, "_ev"))
            r = subprocess.run(["/venv/bin/python", "-m", "pvm.run", pid, "--tier", "quick"], cwd="/verif",
                               env=env, capture_output=True, text=True, timeout=1800)
            mech = sorted({l.split("mechanism=")[1].split()[0] for l in r.stdout.splitlines() if "mechanism=" in l})
            res[pid] = (r.returncode, mech[:4])
        caught = any(rc == 1 for rc, _ in res.values())
        return bid, "CAUGHT" if caught else "MISSED", res
    finally:
        shutil.rmtree(d, ignore_errors=True)

if __name__ == "__main__":
    sel = [b for b in BREAKS if not sys.argv[1:] or b[0] in sys.argv[1:]]
    with ThreadPoolExecutor(max_workers=4) as ex:
        out = list(ex.map(one, sel))
    for bid, verdict, res in out:
        print(f"{verdict:22s} {bid:40s} {res}")
    # merge into the stored table (a partial run only replaces its own rows)
    path = os.path.join(HERE, "last_result.json")
    try:
        prev = {r["break"]: r for r in json.load(open(path))}
    except (OSError, ValueError):
        prev = {}
    for b, v, r in out:
        prev[b] = {"break": b, "verdict": v, "runs": r}
    known = [b[0] for b in BREAKS]
    json.dump([prev[b] for b in known if b in prev], open(path, "w"), indent=1)
    sys.exit(0 if all(v == "CAUGHT" for _, v, _ in out) else 1)
