"""Known findings: committed file, keyed by mechanism, never written at run time."""
from __future__ import annotations

import json
import os

from . import env

PATH = os.path.join(env.VERIF, "known_findings.json")


def load_known():
    """Entries: {property, key, status: open|fixed, what, commit?}.

    Only ``open`` entries suppress (the check prints KNOWN-FINDING and exits 0);
    ``fixed`` entries are a record and suppress nothing.
    """
    try:
        with open(PATH) as f:
            known = json.load(f)["findings"]
    except FileNotFoundError:
        known = []
    # development aid only (triage of a check that is not registered yet):
    # an extra findings file; never set by a registered command
    extra = os.environ.get("PVM_KNOWN_EXTRA")
    if extra and os.path.exists(extra):
        with open(extra) as f:
            known = known + json.load(f)["findings"]
    return known
