"""C09 helpers: one adapter per dtype engine.

Everything here is *oracle side*: it only uses numpy / pandas / pyarrow /
polars / pyspark themselves (trusted) to say what a spelling means, never
pandera.  An adapter provides

* ``native_class(t)``   (kind, signed, bits) of the native dtype boxed by a
                        resolved pandera type, or None when the type is not a
                        physical numeric / bool / temporal type;
* ``families()``        documented-equivalent spellings (transcribed from
                        docs/source/dtype_validation.md, docs/source/polars.md,
                        docs/source/pyspark_sql.md, reference/dtypes.rst and the
                        alias families "int64" ~ np.int64 ~ pa.Int64 ~ pa.Int64());
* ``dispatch_samples``  instances for every class registered in the engine's
                        singledispatch table (parameterised natives);
* ``class_params``      instances for registered classes that cannot be built
                        without arguments;
* ``param_family(rng)`` one sampled parameterisation with all its spellings;
* ``primitive(t)``      is the print/resolve round trip promised for t.
"""
from __future__ import annotations

import datetime
import decimal
import re

import numpy as np
import pandas as pd

_ADDR = re.compile(r" at 0x[0-9a-fA-F]+")


class Make:
    """A spelling that is *built by pandera* (a pandera data type constructed
    with parameters).  Building it is part of the observed execution: the
    monitor builds it inside ``safe`` and a constructor that rejects a valid
    parameterisation is a spelling that does not resolve - never a harness
    crash.  ``text`` is the address-free source text of the call."""

    def __init__(self, text, fn):
        self.text, self.fn, self._r = text, fn, None

    def get(self):
        if self._r is None:
            try:
                self._r = (True, self.fn())
            except Exception as e:  # noqa
                self._r = (False, e)
        return self._r


class ConstructionRaised(Exception):
    """constructing a pandera data type with valid parameters raised"""


def unwrap(k):
    """(ok, spelling object | ConstructionRaised)."""
    if not isinstance(k, Make):
        return True, k
    ok, o = k.get()
    if ok:
        return True, o
    return False, ConstructionRaised(
        f"{k.text} raised {type(o).__name__}: {str(o)[:120]}")


def _inst(cls):
    """``cls()`` of a pandera class, built under observation."""
    return Make(f"{cls.__module__}.{cls.__qualname__}()", cls)


def desc(k) -> str:
    """Stable, address-free description of a spelling."""
    if isinstance(k, Make):
        ok, o = k.get()
        return desc(o) if ok else f"build:{k.text}"
    if isinstance(k, str):
        return f"str:{k!r}"
    if isinstance(k, type):
        return f"class:{k.__module__}.{k.__qualname__}"
    if callable(k) and hasattr(k, "__name__") and not hasattr(k, "dtype"):
        mod = getattr(k, "__module__", None) or "?"
        return f"callable:{mod}.{getattr(k, '__qualname__', k.__name__)}"
    r = _ADDR.sub("", repr(k))
    return f"{type(k).__module__}.{type(k).__name__}:{r}"[:240]


def tdesc(t) -> str:
    return f"{type(t).__module__.split('.')[-1]}.{type(t).__name__}({_ADDR.sub('', str(_safe_str(t)))})"


def _safe_str(t):
    try:
        return str(t)
    except Exception as e:  # noqa
        return f"<str raised {type(e).__name__}>"


TZ_POOL = ["UTC", "Europe/Berlin", "America/New_York", "Asia/Tokyo",
           "Asia/Kolkata", "Australia/Lord_Howe", "America/St_Johns",
           "Africa/Abidjan", "Pacific/Kiritimati", "Etc/GMT+5",
           "US/Pacific", "Asia/Kathmandu", "Europe/London"]
FIXED_OFFSETS = [datetime.timezone.utc,
                 datetime.timezone(datetime.timedelta(hours=5, minutes=30)),
                 datetime.timezone(datetime.timedelta(hours=-8)),
                 datetime.timezone(datetime.timedelta(hours=1))]
CAT_POOLS = [["a", "b"], ["x"], [], ["b", "a", "c"], [1, 2, 3], [3, 1],
             ["a", "A", " "], ["é", "ü"], [1.5, 2.5], [True, False],
             ["a", "b", "c", "d", "e"], ["0", "1"], ["low", "mid", "high"],
             [0, 1], [0], [""], ["", "a"], [False], [-1, 0, 1], [0.0, 1.0]]


def cat_variant(rng):
    """(categories, ordered, how): a pool, a subset of it, or a permutation of
    the *whole* pool (the same set of categories in another order is a
    different type; an unordered pandas CategoricalDtype compares and hashes
    equal to its permutations, so anything keyed on the native dtype mixes
    them up)."""
    pool = list(rng.choice(CAT_POOLS))
    how = rng.choice(["as-listed", "subset", "permuted", "permuted", "reversed",
                      "no-categories"])
    if how == "no-categories":
        return None, rng.random() < 0.5, how
    if how == "subset":
        cats = rng.sample(pool, rng.randint(0, len(pool)))
    elif how == "permuted":
        cats = rng.sample(pool, len(pool))
    elif how == "reversed":
        cats = pool[::-1]
    else:
        cats = pool
    return cats, rng.random() < 0.4, how


def decimal_variant(rng, pmax=38):
    """(precision, scale, classes) with 1 <= precision <= pmax and
    0 <= scale <= precision - the domain every decimal implementation used
    here (python decimal, pyarrow.decimal128, polars.Decimal, pyspark
    DecimalType) accepts - with the corners drawn as often as the interior."""
    if rng.random() < 0.45:
        p = rng.choice([1, 2, 3, 9, 10, 18, 19, 28, pmax - 1, pmax])
    else:
        p = rng.randint(1, pmax)
    if rng.random() < 0.55:
        s = rng.choice([0, 1, p - 1, p])
    else:
        s = rng.randint(0, p)
    s = max(0, min(p, s))
    cl = []
    if s == p:
        cl.append("scale==precision")
    if s == 0:
        cl.append("scale==0")
    if s == p - 1:
        cl.append("scale==precision-1")
    if p == 1:
        cl.append("precision==1")
    if p == pmax:
        cl.append("precision==max")
    if not cl:
        cl.append("interior")
    return p, s, cl


# ---------------------------------------------------------------------------
# tzinfo objects: every implementation pandas accepts as DatetimeTZDtype(tz=)
# ---------------------------------------------------------------------------
def _opt_import(name):
    try:
        return __import__(name, fromlist=["_"])
    except Exception:  # noqa
        return None


_OFFSET_MINUTES = [60, -480, 330, 345, -210, 0, 765, -1]
_STAMPS = ["2021-01-15", "2021-07-15", "1995-03-01", "2038-10-31"]


TZ_GROUPS = [
    # classes that pandas may standardise to one tzinfo object
    ["name", "pytz-zone", "pytz-from-timestamp", "pytz-from-localize",
     "pytz-from-aware-datetime"],
    ["zoneinfo", "zoneinfo-from-timestamp"],
    ["fixed-datetime", "int-seconds", "offset-string"],
]


def tz_variant(rng, name=None, cls=None, mins=None, near=None):
    """(class label, tz argument).  The classes are the *kinds of object* a
    user can pass as ``tz``: a zone name, the canonical pytz zone object, a
    pytz tzinfo taken from a localized timestamp / datetime (a different,
    non-canonical instance that pandas standardises), zoneinfo, dateutil,
    fixed offsets of datetime / pytz / dateutil, an int offset in seconds, an
    offset string, and the UTC singletons of every implementation."""
    pytz = _opt_import("pytz")
    zi = _opt_import("zoneinfo")
    du = _opt_import("dateutil.tz")
    name = name or rng.choice(TZ_POOL)
    classes = ["name", "fixed-datetime", "int-seconds", "offset-string"]
    if pytz is not None:
        classes += ["pytz-zone", "pytz-from-timestamp", "pytz-from-localize",
                    "pytz-from-aware-datetime", "pytz-fixed", "pytz-utc"]
    if zi is not None:
        classes += ["zoneinfo", "zoneinfo-from-timestamp"]
    if du is not None:
        classes += ["dateutil-zone", "dateutil-offset", "dateutil-utc"]
    if cls is None and near is not None and rng.random() < 0.75:
        grp = [c for g in TZ_GROUPS if near in g for c in g if c in classes]
        cls = rng.choice(grp) if grp else None
    cls = cls or rng.choice(classes)
    if mins is None:
        mins = rng.choice(_OFFSET_MINUTES)
    if cls == "name":
        return cls, name
    if cls == "fixed-datetime":
        return cls, datetime.timezone(datetime.timedelta(minutes=mins))
    if cls == "int-seconds":
        return cls, (mins * 60 or 3600)          # pandas rejects a falsy tz
    if cls == "offset-string":
        m = abs(mins)
        return cls, f"{'-' if mins < 0 else '+'}{m // 60:02d}:{m % 60:02d}"
    if cls == "pytz-zone":
        return cls, pytz.timezone(name)
    if cls == "pytz-from-timestamp":
        return cls, pd.Timestamp(rng.choice(_STAMPS), tz=pytz.timezone(name)).tz
    if cls == "pytz-from-localize":
        return cls, pytz.timezone(name).localize(
            datetime.datetime(2021, rng.choice([1, 7]), 15)).tzinfo
    if cls == "pytz-from-aware-datetime":
        return cls, datetime.datetime.fromtimestamp(
            rng.choice([0, 1_600_000_000, 1_610_000_000]),
            pytz.timezone(name)).tzinfo
    if cls == "pytz-fixed":
        return cls, pytz.FixedOffset(mins)
    if cls == "pytz-utc":
        return cls, pytz.utc
    if cls == "zoneinfo":
        return cls, zi.ZoneInfo(name)
    if cls == "zoneinfo-from-timestamp":
        return cls, pd.Timestamp(rng.choice(_STAMPS), tz=zi.ZoneInfo(name)).tz
    if cls == "dateutil-zone":
        return cls, du.gettz(name)
    if cls == "dateutil-offset":
        return cls, du.tzoffset(None, mins * 60)
    return cls, du.tzutc()


def same_native(a, b):
    """Equality of two native dtypes as the native library defines it, made
    order-sensitive for categories (an unordered pandas CategoricalDtype
    equals its permutations) and tzinfo-sensitive for time zones."""
    try:
        if a is None or b is None or not bool(a == b) or not bool(b == a):
            return False
        if isinstance(a, pd.CategoricalDtype):
            ca, cb = a.categories, b.categories
            if (ca is None) != (cb is None):
                return False
            if ca is not None and (list(ca) != list(cb) or ca.dtype != cb.dtype):
                return False
            return a.ordered == b.ordered
        if isinstance(a, pd.DatetimeTZDtype):
            return _same_tzinfo(a.tz, b.tz)
        return True
    except Exception:  # noqa
        return False


def _same_tzinfo(a, b):
    """Same tzinfo object, or equal objects of one implementation."""
    if a is b:
        return True
    try:
        return type(a) is type(b) and bool(a == b)
    except Exception:  # noqa
        return False


def _name_keeps_tzinfo(s, native):
    """Does pandas itself read the printed name back to the same native dtype
    *with the same tzinfo implementation*?  The printed name of a time zone
    holds the zone, not the python object that implements it: pandas reads
    'datetime64[ns, UTC]' as datetime.timezone.utc and calls that equal to
    the pytz / zoneinfo UTC; which implementation a name must resolve to is
    promised nowhere, so such names are not judged."""
    try:
        back = pd.api.types.pandas_dtype(s)
        return back == native and _same_tzinfo(back.tz, native.tz)
    except Exception:  # noqa
        return False


# ---------------------------------------------------------------------------
# native classification (numpy / pandas / pyarrow)
# ---------------------------------------------------------------------------
def np_class(d):
    d = np.dtype(d)
    k = d.kind
    if k == "b":
        return ("bool", None, None)
    if k == "i":
        return ("int", True, d.itemsize * 8)
    if k == "u":
        return ("int", False, d.itemsize * 8)
    if k == "f":
        return ("float", None, d.itemsize * 8)
    if k == "c":
        return ("complex", None, d.itemsize * 8)
    if k == "M":
        return ("datetime", None, None)
    if k == "m":
        return ("timedelta", None, None)
    return None


def arrow_class(pt):
    import pyarrow as pa
    T = pa.types
    if T.is_boolean(pt):
        return ("bool", None, None)
    if T.is_signed_integer(pt):
        return ("int", True, pt.bit_width)
    if T.is_unsigned_integer(pt):
        return ("int", False, pt.bit_width)
    if T.is_floating(pt):
        return ("float", None, pt.bit_width)
    if T.is_timestamp(pt):
        return ("datetime", None, None)
    if T.is_duration(pt):
        return ("timedelta", None, None)
    if T.is_date(pt):
        return ("date", None, None)
    if T.is_time(pt):
        return ("time", None, None)
    return None


def pandas_native_class(nt):
    if nt is None:
        return None
    if isinstance(nt, np.dtype):
        return np_class(nt)
    if isinstance(nt, pd.ArrowDtype):
        return arrow_class(nt.pyarrow_dtype)
    if isinstance(nt, pd.BooleanDtype):
        return ("bool", None, None)
    if isinstance(nt, pd.DatetimeTZDtype):
        return ("datetime", None, None)
    nd = getattr(nt, "numpy_dtype", None)
    if isinstance(nt, pd.api.extensions.ExtensionDtype) and type(nt).__module__ in (
            "pandas.core.arrays.integer", "pandas.core.arrays.floating") and nd is not None:
        return np_class(nd)
    return None


class Adapter:
    name = "?"
    roundtrip = False

    def __init__(self):
        self.E = None

    def native_class(self, t):
        raise NotImplementedError

    def families(self):
        return []

    def dispatch_samples(self):
        return {}

    def class_params(self):
        return {}

    def param_family(self, rng):
        return None

    def primitive(self, t):
        return "undecided:not-listed-as-primitive"

    def alias_probes(self):
        """(alias spelling, expected native class) judged on class only."""
        return []

    def native_spellings(self):
        """[(spelling, numpy dtype, how)]: native numpy spellings that are not
        registry keys (engines built on numpy only)."""
        return []

    def native_group(self, ref):
        return "?"

    def native_policy(self, k, ref):
        """{"judged": is resolving promised, "cls": expected (kind, signed,
        bits) when judged, "kind": numpy kind letter the boxed dtype keeps,
        "box": native dtype the resolved type must box}."""
        return {"judged": False}

    def boxed_native(self, k):
        """The native dtype a resolved type must box (its ``type``) when the
        spelling ``k`` is itself a native dtype *instance*; None otherwise or
        when nothing is promised ("type: native dtype boxed by the data
        type", reference of pandera.engines.*.DataType)."""
        return None

    def registers(self, key):
        """Is ``key`` (e.g. an abstract pandera class) a key of this engine's
        equivalents table, i.e. a spelling the engine declares it accepts?"""
        from pandera.engines import engine as eng
        try:
            return key in eng.Engine._registry[self.E].equivalents
        except Exception:  # noqa  (unhashable key)
            return False


# ---------------------------------------------------------------------------
# numpy
# ---------------------------------------------------------------------------
def _num_families(with_pandas_only=False):
    from pandera import dtypes
    fams = []
    widths = {"int": [8, 16, 32, 64], "uint": [8, 16, 32, 64],
              "float": [16, 32, 64] + ([128] if hasattr(np, "float128") else []),
              "complex": [64, 128] + ([256] if hasattr(np, "complex256") else [])}
    default = {"int": 64, "uint": 64, "float": 64, "complex": 128}
    builtin = {"int": int, "float": float, "complex": complex}
    for kind, ws in widths.items():
        Kind = {"int": "Int", "uint": "UInt", "float": "Float",
                "complex": "Complex"}[kind]
        for w in ws:
            name = f"{kind}{w}"
            fam = [name, getattr(np, name), np.dtype(name),
                   getattr(dtypes, f"{Kind}{w}"), _inst(getattr(dtypes, f"{Kind}{w}"))]
            if w == default[kind]:
                fam += [getattr(dtypes, Kind), _inst(getattr(dtypes, Kind)), kind]
                if kind in builtin:
                    fam.append(builtin[kind])
            fams.append((f"number:{name}", fam))
    fams.append(("bool", ["bool", bool, np.bool_, np.dtype("bool"),
                          dtypes.Bool, _inst(dtypes.Bool)]))
    return fams


def _sctype_aliases():
    out = []
    for a in sorted(k for k in np.sctypeDict if isinstance(k, str)):
        try:
            c = np_class(np.dtype(a))
        except Exception:
            continue
        if c is not None:
            out.append((a, c))
    for ch in "?bBhHiIlLqQefdgFDG":
        out.append((ch, np_class(np.dtype(ch))))
    return out


# ---------------------------------------------------------------------------
# native numpy spellings that are NOT registry keys: everything numpy itself
# reads as a dtype (np.dtype(x) succeeds) - sized / byte-ordered type codes,
# flexible dtypes with an item size, the dtype instance of a real array,
# scalar classes, structured and sub-array dtypes.  These reach the engines'
# fallback path (np.dtype(x).type / pandas_dtype(x)), never the equivalents
# table.
# ---------------------------------------------------------------------------
def _np_try_early(k):
    try:
        return np.dtype(k) is not None
    except Exception:  # noqa
        return False


_BYTE_ORDERS = ["", "<", ">", "=", "|"]
_FLEX_SIZES = [1, 2, 3, 5, 8, 16, 64, 255, 1024]
_WIDE_CODES = [c for c in ("f16", "c32") if _np_try_early(c)]
_NP_UNITS = ["Y", "M", "W", "D", "h", "m", "s", "ms", "us", "ns", "ps", "fs", "as"]


def _np_try(k):
    try:
        return np.dtype(k)
    except Exception:  # noqa  numpy itself does not read it: not a spelling
        return None


def np_group(nd):
    """Input class of a native numpy dtype (by what numpy says it is)."""
    if nd.kind in "US":
        return f"flex-{'sized' if nd.itemsize else 'unsized'}:{nd.kind}"
    if nd.kind == "V":
        if nd.names is not None:
            return "structured"
        if nd.subdtype is not None:
            return "subarray"
        return f"flex-{'sized' if nd.itemsize else 'unsized'}:V"
    if nd.kind in "Mm":
        return "temporal"
    if nd.kind == "O":
        return "object"
    if nd.kind in "biufc":
        return "numeric"
    return f"other-kind:{nd.kind}"          # e.g. 'T' (numpy >= 2 StringDType)


def _np_arrays():
    """dtype instances taken from real arrays (what ``arr.dtype`` hands to a
    user who wants to compare it with a declared type)."""
    a = [np.array(["a", "bcd", "efghi"]), np.array(["x" * 12]), np.array([""]),
         np.array([], dtype=str), np.array(["é", "üü"]),
         np.array([b"ab", b"cde"]), np.array([b""]), np.array(["ab"]).astype("S"),
         np.array(["abc"]).astype(">U3"), np.char.upper(np.array(["ab", "c"])),
         np.array([1, 2]), np.array([1.5]), np.array([True]), np.array([1 + 2j]),
         np.array([1], dtype=">i4"), np.array([1.0], dtype=">f8"),
         np.arange(3, dtype="u1"), np.array([None]), np.array([{}, []], dtype=object),
         np.array(["2020-01-01"], dtype="M8[D]"),
         np.array([np.timedelta64(1, "s")]), np.array([np.datetime64("2020", "Y")]),
         np.zeros(2, dtype=[("a", "i4"), ("b", "U3")]),
         np.zeros(1, dtype="V4"), np.array([(1, 2.0)], dtype="i4,f8")]
    return [x.dtype for x in a]


def np_native_catalog():
    """[(spelling, np.dtype, how)]: deterministic, finite; ``how`` says in
    which form the spelling is given (code string / dtype instance / array
    dtype / scalar class / dtype class)."""
    out, seen = [], set()

    def add(k, how):
        nd = _np_try(k)
        if nd is None:
            return
        d = (desc(k), how)
        if d in seen:
            return
        seen.add(d)
        out.append((k, nd, how))

    def both(code):
        add(code, "code")
        nd = _np_try(code)
        if nd is not None:
            add(nd, "instance")

    for kind in "USV":
        for bo in _BYTE_ORDERS:
            both(f"{bo}{kind}")
            both(f"{bo}{kind}0")
            for n in _FLEX_SIZES:
                both(f"{bo}{kind}{n}")
    both("c")                                  # 'c' is S1
    for kind, cls in (("U", np.str_), ("S", np.bytes_), ("V", np.void)):
        for n in (1, 7):
            nd = _np_try((cls, n))
            if nd is not None:
                add(nd, "instance")
    for nd in _np_arrays():
        add(nd, "array-dtype")
    for bo in _BYTE_ORDERS:
        for code in ["b1", "?", "i1", "i2", "i4", "i8", "u1", "u2", "u4", "u8",
                     "f2", "f4", "f8", "f16", "c8", "c16", "c32", "O"]:
            both(bo + code)        # f16 / c32: skipped where numpy has none
        for k in ("M8", "m8"):
            both(bo + k)
            for u in _NP_UNITS:
                both(f"{bo}{k}[{u}]")
            for mult in ("2D", "25s", "10ns", "3M"):
                both(f"{bo}{k}[{mult}]")
    for k in ("datetime64", "timedelta64"):
        for u in _NP_UNITS:
            both(f"{k}[{u}]")
    # scalar classes (np.int32, np.longlong, np.str_ ...) and their dtypes
    classes = sorted({v for v in np.sctypeDict.values() if isinstance(v, type)},
                     key=lambda c: c.__name__)
    for c in classes:
        add(c, "scalar-class")
        nd = _np_try(c)
        if nd is not None:
            add(nd, "instance")
    # dtype classes (numpy >= 1.25: np.dtypes.Int64DType ...), instantiated
    # by numpy when it accepts them without arguments
    dts = getattr(np, "dtypes", None)
    for n in sorted(dir(dts)) if dts is not None else ():
        c = getattr(dts, n)
        if isinstance(c, type) and issubclass(c, np.dtype):
            try:
                add(c(), "dtype-class-instance")
            except Exception:  # noqa
                pass
    # structured / sub-array dtypes
    for k in ["i4,f8", "U3,i8", "(2,3)f8", "(2,)i4", "3i4", "i4,(2,)f4,S5",
              np.dtype([("a", "i4"), ("b", "f8")]),
              np.dtype([("name", "U10"), ("age", "u1")]),
              np.dtype([("x", "f4", (2, 2))]),
              np.dtype({"names": ["a", "b"], "formats": ["i2", "M8[s]"]}),
              np.dtype([("in", [("a", "i1"), ("b", "S2")])]),
              np.dtype(("i4", (2,))), np.dtype(("U4", (3,))),
              np.dtype([("a", "i4"), ("b", "f8")], align=True),
              np.dtype([])]:
        add(k, "code" if isinstance(k, str) else "instance")
    add("T", "code")
    return out


def np_native_sample(rng):
    """One sampled native numpy spelling: (spelling, np.dtype, how)."""
    r = rng.random()
    bo = rng.choice(_BYTE_ORDERS)
    if r < 0.45:
        kind = rng.choice("UUSSV")
        n = rng.choice([rng.randint(1, 40), rng.randint(1, 40),
                        rng.randint(41, 5000), 2 ** rng.randint(0, 16)])
        if rng.random() < 0.3:
            # the dtype of an actual array whose longest element has n chars
            n = min(n, 300)
            el = ["x" * rng.randint(0, n) for _ in range(rng.randint(0, 3))] + ["y" * n]
            arr = np.array(el) if kind != "S" else np.array([e.encode() for e in el])
            if kind == "V":
                arr = np.zeros(1, dtype=f"V{n}")
            return arr.dtype, arr.dtype, "array-dtype"
        code = f"{bo}{kind}{n}"
    elif r < 0.65:
        code = bo + rng.choice(["b1", "i1", "i2", "i4", "i8", "u1", "u2", "u4",
                                "u8", "f2", "f4", "f8", "c8", "c16"] + _WIDE_CODES)
    elif r < 0.8:
        u = rng.choice(_NP_UNITS)
        m = rng.choice(["", "", str(rng.randint(2, 60))])
        code = f"{bo}{rng.choice(['M8', 'm8', 'datetime64', 'timedelta64'])}[{m}{u}]"
        if code[0] in "<>=|" and code[1] in "dt":
            code = code[1:]
    else:
        n = rng.randint(1, 4)
        fields = [(f"f{i}", rng.choice(["i4", "f8", "U5", "S3", "?", "M8[s]", "O",
                                        ">i2", "u1"]))
                  for i in range(n)]
        if rng.random() < 0.3:
            fields[0] = (fields[0][0], fields[0][1], (rng.randint(1, 3),))
        nd = np.dtype(fields, align=rng.random() < 0.3)
        if rng.random() < 0.3 and all(len(f) == 2 for f in fields):
            code = ",".join(f[1] for f in fields)
            return code, np.dtype(code), "code"
        return nd, nd, "instance"
    nd = np.dtype(code)
    if rng.random() < 0.5:
        return nd, nd, "instance"
    return code, nd, "code"


def np_native_policy(nd):
    """What the numpy engine promises for a native numpy spelling.  U / S are
    registered types (String, Bytes) and every numeric / bool / temporal /
    object code names a registered type: the spelling resolves, keeps its
    (kind, signedness, width) and a str / bytes / object dtype stays one.
    Void, structured and sub-array dtypes only get the unregistered fallback
    box ("support is not guaranteed") and 'T' is newer than the engine:
    generated, resolved, not judged on resolving."""
    if nd.kind in "biufcMm":
        return {"judged": True, "cls": np_class(nd)}
    if nd.kind in "USO":
        return {"judged": True, "cls": None, "kind": nd.kind}
    return {"judged": False}


class NumpyAdapter(Adapter):
    name = "numpy"
    roundtrip = True

    def __init__(self):
        from pandera.engines import numpy_engine
        self.mod = numpy_engine
        self.E = numpy_engine.Engine

    def native_class(self, t):
        nt = getattr(t, "type", None)
        return np_class(nt) if isinstance(nt, np.dtype) else None

    def families(self):
        from pandera import dtypes
        fams = _num_families()
        fams += [
            ("object", ["object", "O", object, np.object_, np.dtype(object)]),
            ("str", ["str", str, np.str_]),
            ("bytes", ["bytes", bytes, np.bytes_]),
            ("datetime", [np.datetime64, "datetime64", dtypes.Timestamp,
                          _inst(dtypes.Timestamp), datetime.datetime]),
            ("timedelta", [np.timedelta64, "timedelta64", dtypes.Timedelta,
                           _inst(dtypes.Timedelta), datetime.timedelta]),
        ]
        return fams

    def boxed_native(self, k):
        if isinstance(k, np.dtype) and k.kind not in "Mm":
            return k      # which unit a datetime64[<unit>] keeps: undecided
        return None

    def primitive(self, t):
        if type(t) is self.mod.DataType:
            # fallback box, created with a "support is not guaranteed" warning
            return "undecided:unregistered-fallback-type"
        return "judge"

    def alias_probes(self):
        return _sctype_aliases()

    def native_spellings(self):
        return np_native_catalog()

    def native_group(self, ref):
        return np_group(ref)

    def native_policy(self, k, nd):
        return np_native_policy(nd)

    def param_family(self, rng):
        if rng.random() < 0.6:
            k, nd, how = np_native_sample(rng)
            return {"label": f"np-native[{np_group(nd)}:{how}]", "native": True,
                    "spellings": [k], "nd": nd, "how": how}
        # numpy dtypes with a unit: only the kind is promised
        unit = rng.choice(["ns", "us", "ms", "s", "D", "m", "h"])
        kind = rng.choice(["datetime64", "timedelta64"])
        s = f"{kind}[{unit}]"
        return {"label": f"np-unit:{s}", "class_only": True,
                "spellings": [s, np.dtype(s)],
                "expect_class": np_class(np.dtype(s)), "roundtrip": False}


# ---------------------------------------------------------------------------
# pandas (+ pyarrow)
# ---------------------------------------------------------------------------
ARROW_PRIMS = ["bool_", "int8", "int16", "int32", "int64", "uint8", "uint16",
               "uint32", "uint64", "float16", "float32", "float64", "string",
               "large_string", "binary", "large_binary", "date32", "date64",
               "null"]


def _pandas_parses(s, native):
    """Does pandas itself read the alias back to the same native dtype?"""
    try:
        return pd.api.types.pandas_dtype(s) == native
    except Exception:
        return False


class PandasAdapter(Adapter):
    name = "pandas"
    roundtrip = True

    def __init__(self):
        from pandera.engines import pandas_engine
        self.mod = pandas_engine
        self.E = pandas_engine.Engine

    def native_class(self, t):
        return pandas_native_class(getattr(t, "type", None))

    def families(self):
        import pyarrow
        from pandera import dtypes
        fams = _num_families()
        # the literal list of docs/source/dtype_validation.md
        fams.append(("doc:integer_schema",
                     [int, "int", "int64", np.int64, dtypes.Int, dtypes.Int64]))
        for n in ["Int8", "Int16", "Int32", "Int64", "UInt8", "UInt16",
                  "UInt32", "UInt64", "Float32", "Float64"]:
            cls = getattr(pd, f"{n}Dtype")
            fams.append((f"nullable:{n}", [n, cls, cls()]))
        fams.append(("nullable:boolean", ["boolean", pd.BooleanDtype,
                                          pd.BooleanDtype()]))
        fams += [
            ("object", ["object", "O", object, np.object_, np.dtype(object)]),
            ("str", ["str", str, np.str_, dtypes.String, _inst(dtypes.String)]),
            ("string:python", ["string[python]", pd.StringDtype("python")]),
            ("string:default-storage", ["string", pd.StringDtype, pd.StringDtype(),
                                        self.mod.STRING, _inst(self.mod.STRING)]),
            ("string:pyarrow", ["string[pyarrow]", pd.StringDtype("pyarrow")]),
            ("datetime", ["datetime64[ns]", np.dtype("datetime64[ns]"),
                          "datetime64", np.datetime64, datetime.datetime,
                          pd.Timestamp, dtypes.Timestamp, _inst(dtypes.Timestamp),
                          dtypes.DateTime]),
            ("timedelta", ["timedelta64[ns]", np.dtype("timedelta64[ns]"),
                           "timedelta64", np.timedelta64, datetime.timedelta,
                           pd.Timedelta, dtypes.Timedelta, _inst(dtypes.Timedelta)]),
            ("category", ["category", pd.CategoricalDtype,
                          pd.CategoricalDtype(), dtypes.Category,
                          _inst(dtypes.Category)]),
            ("date", ["date", datetime.date, dtypes.Date, _inst(dtypes.Date)]),
        ]
        # docs/source/dtype_validation.md "Support for the python typing module":
        # the same spelling resolved twice must give equal objects
        from typing import Dict, List, NamedTuple, Tuple, TypedDict

        class _PointDict(TypedDict):
            x: float
            y: float

        class _PointTuple(NamedTuple):
            x: float
            y: float

        for lab, g in [("Dict[str,int]", Dict[str, int]), ("List[float]", List[float]),
                       ("Tuple[int,str,float]", Tuple[int, str, float]),
                       ("TypedDict-subclass", _PointDict),
                       ("NamedTuple-subclass", _PointTuple)]:
            fams.append((f"doc:typing:{lab}", [g, g]))
        # docs/source/dtype_validation.md "Pyarrow data types"
        fams.append(("doc:pyarrow_schema",
                     [pyarrow.float64(), "float64[pyarrow]",
                      pd.ArrowDtype(pyarrow.float64())]))
        for n in ARROW_PRIMS:
            pt = getattr(pyarrow, n)()
            nat = pd.ArrowDtype(pt)
            fam = [pt, nat]
            if _pandas_parses(str(nat), nat):
                fam.append(str(nat))
            fams.append((f"arrow:{n}", fam))
        return fams

    def dispatch_samples(self):
        import pyarrow
        from pandera import dtypes
        return {
            dtypes.Category: [Make("pandera.dtypes.Category(['a', 'b'], ordered=True)",
                                   lambda: dtypes.Category(["a", "b"], ordered=True))],
            pd.CategoricalDtype: [pd.CategoricalDtype(["a", "b"], ordered=True),
                                  pd.CategoricalDtype()],
            pd.StringDtype: [pd.StringDtype("python"), pd.StringDtype("pyarrow")],
            pd.DatetimeTZDtype: [pd.DatetimeTZDtype("ns", "UTC"),
                                 pd.DatetimeTZDtype("ns", "Asia/Tokyo")],
            pd.PeriodDtype: [pd.PeriodDtype("D"), pd.PeriodDtype("M")],
            pd.SparseDtype: [pd.SparseDtype("float64"), pd.SparseDtype("int64", 0)],
            pd.IntervalDtype: [pd.IntervalDtype("int64"), pd.IntervalDtype("float64")],
            pyarrow.Decimal128Type: [pyarrow.decimal128(10, 2)],
            pyarrow.TimestampType: [pyarrow.timestamp("us"),
                                    pyarrow.timestamp("ns", "UTC")],
            pyarrow.DictionaryType: [pyarrow.dictionary(pyarrow.int32(),
                                                       pyarrow.string())],
            pyarrow.ListType: [pyarrow.list_(pyarrow.int64())],
            pyarrow.FixedSizeListType: [pyarrow.list_(pyarrow.int64(), 3)],
            pyarrow.StructType: [pyarrow.struct([("a", pyarrow.int64())])],
            pyarrow.DurationType: [pyarrow.duration("ms")],
            pyarrow.Time32Type: [pyarrow.time32("s")],
            pyarrow.Time64Type: [pyarrow.time64("us")],
            pyarrow.MapType: [pyarrow.map_(pyarrow.string(), pyarrow.int64())],
            pyarrow.FixedSizeBinaryType: [pyarrow.binary(4)],
            # registered as the *base class* of every pyarrow type
            pyarrow.DataType: [pyarrow.binary()],
        }

    def boxed_native(self, k):
        import pyarrow
        if isinstance(k, np.dtype):
            if k.kind in "Mm" and not k.name.endswith("[ns]"):
                return None       # units other than ns: documented unsupported
            return k
        if isinstance(k, pyarrow.DataType):
            return pd.ArrowDtype(k)
        if isinstance(k, pd.DatetimeTZDtype) and k.unit != "ns":
            return None
        if isinstance(k, pd.api.extensions.ExtensionDtype):
            return k
        return None

    def class_params(self):
        import pydantic

        class _Rec(pydantic.BaseModel):
            a: int

        m = self.mod
        return {
            m.Period: [Make("pandas_engine.Period(freq='D')",
                            lambda: m.Period(freq="D"))],
            m.Interval: [Make("pandas_engine.Interval(subtype='int64')",
                              lambda: m.Interval(subtype="int64"))],
            m.PydanticModel: [Make("pandas_engine.PydanticModel(<model>)",
                                   lambda: m.PydanticModel(_Rec))],
        }

    def primitive(self, t):
        m = self.mod
        name = type(t).__name__
        if name.startswith("Arrow"):
            fam = name
            if name in ("ArrowBinary", "ArrowLargeBinary", "ArrowNull",
                        "ArrowList", "ArrowStruct", "ArrowMap",
                        "ArrowDecimal128"):
                return f"undecided:not-listed-as-primitive:{fam}"
            if not _pandas_parses(_safe_str(t), t.type):
                return f"undecided:pandas-cannot-parse-printed-name:{fam}"
            return "judge"
        if isinstance(t, m.Category):
            if t.categories is not None or t.ordered:
                return "undecided:parameterised-category-prints-as-'category'"
            return "judge"
        if isinstance(t, (m.Decimal,)):
            return "undecided:decimal-logical-type"
        if isinstance(t, (m.Period, m.Sparse, m.Interval, m.PydanticModel,
                          m.PythonGenericType)):
            return "undecided:not-listed-as-primitive"
        if isinstance(t, m.DateTime) and t.time_zone_agnostic:
            return "undecided:time-zone-agnostic"
        if isinstance(t, m.DateTime) and isinstance(t.type, pd.DatetimeTZDtype) \
                and not _name_keeps_tzinfo(str(t.type), t.type):
            # decided on the native dtype's own name (pandas), not on what
            # pandera prints
            return ("undecided:printed-name-does-not-keep-tzinfo-"
                    "implementation")
        if type(t) in (m.DataType, self_numpy().DataType):
            return "undecided:unregistered-fallback-type"
        return "judge"

    def alias_probes(self):
        return _sctype_aliases()

    def native_spellings(self):
        # "Pandas-native data types, e.g. pd.StringDtype, pd.BooleanDtype":
        # every extension dtype class pandas exports and builds without
        # arguments, given as class and as instance (registered or not)
        import inspect
        out = np_native_catalog()
        for c in sorted({c for c in vars(pd).values() if inspect.isclass(c)
                         and issubclass(c, pd.api.extensions.ExtensionDtype)},
                        key=lambda c: c.__name__):
            try:
                inst = c()
                str(inst.name)
            except Exception:  # noqa  needs parameters: sampled elsewhere
                continue
            out += [(c, inst, "extension-class"), (inst, inst, "extension-instance")]
        return out

    def native_group(self, ref):
        if isinstance(ref, np.dtype):
            return np_group(ref)
        return "extension:" + type(ref).__name__

    def native_policy(self, k, nd):
        if not isinstance(nd, np.dtype):
            # the class resolves; the instance resolves to a type boxing it.
            # Whether both are *equal* is not judged (an engine type built
            # from defaults may hold a parameter in another form than the
            # one built from the native instance: see "also" above)
            return {"judged": True, "cls": "skip",
                    "box": k if not isinstance(k, type) else None}
        return self._np_policy(k, nd)

    def _np_policy(self, k, nd):
        """Numeric / bool / temporal numpy spellings that pandas itself reads
        as a dtype keep their (kind, signedness, width) ("Numpy data types",
        "any of the string aliases supported by pandas",
        docs/source/dtype_validation.md).  A pandas object never carries a
        flexible (sized str / bytes / void), structured or 'T' numpy dtype -
        pandas stores such data as object - so whether the pandas engine
        reads those spellings is promised nowhere: not judged."""
        if nd.kind in "biufcMm":
            try:
                pd.api.types.pandas_dtype(k)
            except Exception:  # noqa  pandas rejects the spelling
                return {"judged": False}
            return {"judged": True, "cls": np_class(nd)}
        return {"judged": False}

    @staticmethod
    def _alias(nat):
        """The pandas string alias of a native dtype, when pandas itself reads
        it back to that dtype ("any of the string aliases supported by
        pandas", docs/source/dtype_validation.md)."""
        return [str(nat)] if _pandas_parses(str(nat), nat) else []

    # -- sampled parameterisations ---------------------------------------
    def param_family(self, rng):
        import pyarrow
        from pandera import dtypes
        m = self.mod
        if rng.random() < 0.05:
            k, nd, how = np_native_sample(rng)
            return {"label": f"np-native[{np_group(nd)}:{how}]", "native": True,
                    "spellings": [k], "nd": nd, "how": how}
        kind = rng.choice(["tz", "tz", "tz", "tz-agnostic", "cat", "cat",
                           "string", "period", "sparse", "interval", "generic",
                           "decimal", "decimal",
                           "a-ts", "a-ts", "a-dur", "a-t32", "a-t64", "a-dec",
                           "a-dict", "a-list", "a-struct", "a-map", "a-bin"])
        if kind in ("tz", "tz-agnostic"):
            name = rng.choice(TZ_POOL)
            mins = rng.choice(_OFFSET_MINUTES)
            cl, tz = tz_variant(rng, name, mins=mins)
            try:
                nat = pd.DatetimeTZDtype("ns", tz)
            except Exception:  # noqa  pandas itself does not accept it
                return {"label": f"tz-not-accepted-by-pandas[{cl}]",
                        "spellings": [], "classes": [f"undecided:pandas-rejects-tz:{cl}"]}
            if kind == "tz-agnostic":
                # one spelling built twice (the flag is part of the type)
                mk = lambda: Make(  # noqa
                    f"pandas_engine.DateTime(tz={tz!r}, time_zone_agnostic=True)",
                    lambda: m.DateTime(tz=tz, time_zone_agnostic=True))
                return {"label": f"DateTime-tz-agnostic[{cl}:{tz!r}]",
                        "spellings": [mk(), mk()],
                        "expect_class": ("datetime", None, None),
                        "classes": [f"tzclass:{cl}"]}
            sp = [nat,
                  Make(f"pandas_engine.DateTime(tz={tz!r})",
                       lambda: m.DateTime(tz=tz)),
                  Make(f"pandas_engine.DateTime(unit='ns', tz={nat.tz!r})",
                       lambda: m.DateTime(unit="ns", tz=nat.tz))]
            classes = [f"tzclass:{cl}"]
            # a second object for the same zone: when pandas standardises both
            # to the same tzinfo they are one type
            cl2, tz2 = tz_variant(rng, name, mins=mins, near=cl)
            try:
                nat2 = pd.DatetimeTZDtype("ns", tz2)
            except Exception:  # noqa
                nat2 = None
            if nat2 is not None and nat2 == nat and _same_tzinfo(nat2.tz, nat.tz):
                sp += [nat2, Make(f"pandas_engine.DateTime(tz={tz2!r})",
                                  lambda: m.DateTime(tz=tz2))]
                classes += [f"tzclass:{cl2}", "tz-two-objects-one-zone"]
            if _name_keeps_tzinfo(str(nat), nat):
                sp.append(str(nat))
                classes.append("tz-printed-name-in-family")
            else:
                classes.append("undecided:printed-name-does-not-keep-tzinfo-"
                               "implementation")
            return {"label": f"DatetimeTZDtype[ns,{cl}:{tz!r}|{cl2}]",
                    "spellings": sp, "classes": classes,
                    "expect_class": ("datetime", None, None)}
        if kind == "generic":
            # docs/source/dtype_validation.md "Support for the python typing
            # module": the same generic written twice is one type
            import typing
            el = lambda: rng.choice([int, str, float, bool])  # noqa
            which = rng.choice(["List", "Dict", "Tuple"])
            if which == "List":
                a = el()
                mk = lambda: typing.List[a]  # noqa
            elif which == "Dict":
                a, b = el(), el()
                mk = lambda: typing.Dict[a, b]  # noqa
            else:
                args = tuple(el() for _ in range(rng.randint(1, 3)))
                mk = lambda: typing.Tuple[args]  # noqa
            return {"label": f"typing[{mk()}]", "spellings": [mk(), mk()]}
        if kind == "cat":
            cats, o, how = cat_variant(rng)
            sp = [pd.CategoricalDtype(cats, o),
                  Make(f"pandera.dtypes.Category({cats!r}, {o})",
                       lambda: dtypes.Category(cats, o)),
                  Make(f"pandas_engine.Category({cats!r}, {o})",
                       lambda: m.Category(cats, o)),
                  Make(f"pandas_engine.Category({cats!r}, {o}) [tuple]",
                       lambda: m.Category(None if cats is None else tuple(cats), o))]
            return {"label": f"Categorical[{cats},{o}]", "spellings": sp,
                    "classes": [f"cat:{how}", f"cat:ordered={o}",
                                "cat:none" if cats is None else
                                "cat:empty" if not cats else "cat:non-empty"]}
        if kind == "string":
            st = rng.choice(["python", "pyarrow"])
            nat = pd.StringDtype(st)
            return {"label": f"StringDtype[{st}]",
                    "spellings": [nat, Make(f"pandas_engine.STRING({st!r})",
                                            lambda: m.STRING(st)),
                                  f"string[{st}]"]}
        if kind == "period":
            f = rng.choice(["D", "M", "Y", "h", "min", "s", "W", "Q", "B"])
            nat = pd.PeriodDtype(f)
            sp = [nat, Make(f"pandas_engine.Period(freq={nat.freq!r})",
                            lambda: m.Period(freq=nat.freq))]
            # the frequency given as a string is kept as a string: whether
            # that equals the resolution of the native dtype is not documented
            also = [Make(f"pandas_engine.Period(freq={f!r})",
                         lambda: m.Period(freq=f))]
            return {"label": f"Period[{f}]", "spellings": sp + self._alias(nat),
                    "also": also}
        if kind == "sparse":
            d, fv = rng.choice([("float64", np.nan), ("int64", 0), ("bool", False),
                                ("float32", np.nan), ("int8", 1)])
            nat = pd.SparseDtype(d, fv)
            return {"label": f"Sparse[{d},{fv}]",
                    "spellings": [nat, Make(
                        f"pandas_engine.Sparse(dtype={d!r}, fill_value={fv!r})",
                        lambda: m.Sparse(dtype=nat.subtype, fill_value=nat.fill_value))]
                    + self._alias(nat),
                    "also": [Make(f"pandas_engine.Sparse(dtype={d!r}, fill_value={fv!r}) [str]",
                                  lambda: m.Sparse(dtype=d, fill_value=fv))]}
        if kind == "interval":
            s = rng.choice(["int64", "float64", "datetime64[ns]", "int32",
                            "timedelta64[ns]"])
            closed = rng.choice([None, None, "left", "right", "both", "neither"])
            nat = pd.IntervalDtype(s, closed)
            if closed is not None:
                # pandas_engine.Interval has no field for the closed side:
                # only the native spelling (and its alias) can say it
                return {"label": f"Interval[{s},{closed}]",
                        "spellings": [nat] + self._alias(nat),
                        "classes": [f"interval:closed={closed}"]}
            return {"label": f"Interval[{s}]",
                    "spellings": [nat, Make(
                        f"pandas_engine.Interval(subtype={s!r})",
                        lambda: m.Interval(subtype=nat.subtype))]
                    + self._alias(nat),
                    "also": [Make(f"pandas_engine.Interval(subtype={s!r}) [str]",
                                  lambda: m.Interval(subtype=s))]}
        if kind == "decimal":
            # python decimal contexts have no 38-digit limit
            p, s, cl = decimal_variant(rng, rng.choice([38, 38, 60]))
            r = rng.choice([None, decimal.ROUND_HALF_UP, decimal.ROUND_DOWN])
            mk = lambda: Make(f"pandas_engine.Decimal({p}, {s}, {r!r})",  # noqa
                              lambda: m.Decimal(p, s, r))
            sp = [mk(), mk()]
            classes = [f"decimal:{c}" for c in cl]
            if self.registers(dtypes.Decimal):
                # the abstract pandera type is a registered spelling of this
                # engine: an instance carrying parameters is one too
                sp.append(Make(f"pandera.dtypes.Decimal({p}, {s}, {r!r})",
                               lambda: dtypes.Decimal(p, s, r)))
                classes.append("abstract-parameterised-instance")
            return {"label": f"Decimal[{p},{s},{r}]", "spellings": sp,
                    "classes": classes}
        # pyarrow parameterised: bare pyarrow instance, ArrowDtype, alias
        classes = []
        if kind == "a-ts":
            u = rng.choice(["s", "ms", "us", "ns"])
            tz = rng.choice([None, None] + TZ_POOL + ["+05:30", "-08:00"])
            pt = pyarrow.timestamp(u, tz)
            exp = ("datetime", None, None)
            ctor = Make(f"pandas_engine.ArrowTimestamp(unit={u!r}, tz={tz!r})",
                        lambda: m.ArrowTimestamp(unit=u, tz=tz))
        elif kind == "a-dur":
            u = rng.choice(["s", "ms", "us", "ns"])
            pt = pyarrow.duration(u)
            exp = ("timedelta", None, None)
            ctor = Make(f"pandas_engine.ArrowDuration(unit={u!r})",
                        lambda: m.ArrowDuration(unit=u))
        elif kind == "a-t32":
            u = rng.choice(["s", "ms"])
            pt = pyarrow.time32(u)
            exp = ("time", None, None)
            ctor = Make(f"pandas_engine.ArrowTime32(unit={u!r})",
                        lambda: m.ArrowTime32(unit=u))
        elif kind == "a-t64":
            u = rng.choice(["us", "ns"])
            pt = pyarrow.time64(u)
            exp = ("time", None, None)
            ctor = Make(f"pandas_engine.ArrowTime64(unit={u!r})",
                        lambda: m.ArrowTime64(unit=u))
        elif kind == "a-dec":
            p, sc, cl = decimal_variant(rng)
            if rng.random() < 0.1:
                sc, cl = -rng.randint(1, 5), ["negative-scale"]   # pyarrow allows it
            classes = [f"decimal:{c}" for c in cl]
            pt = pyarrow.decimal128(p, sc)
            exp = None
            ctor = Make(f"pandas_engine.ArrowDecimal128({p}, {sc})",
                        lambda: m.ArrowDecimal128(precision=p, scale=sc))
        elif kind == "a-dict":
            it = rng.choice([pyarrow.int8(), pyarrow.int32(), pyarrow.int64()])
            vt = rng.choice([pyarrow.string(), pyarrow.int64(), pyarrow.float64()])
            od = rng.random() < 0.3
            pt = pyarrow.dictionary(it, vt, od)
            exp = None
            ctor = Make(f"pandas_engine.ArrowDictionary({it}, {vt}, {od})",
                        lambda: m.ArrowDictionary(index_type=it, value_type=vt,
                                                  ordered=od))
        elif kind == "a-list":
            v = rng.choice([pyarrow.string(), pyarrow.int64(), pyarrow.float32()])
            n = rng.choice([-1, -1, 0, 1, 2, 3])
            pt = pyarrow.list_(v, n)
            exp = None
            ctor = Make(f"pandas_engine.ArrowList({v}, {n})",
                        lambda: m.ArrowList(value_type=v, list_size=n))
        elif kind == "a-struct":
            n = rng.randint(0, 3)
            fields = tuple(pyarrow.field(f"f{i}", rng.choice(
                [pyarrow.int64(), pyarrow.string(), pyarrow.bool_()]))
                for i in range(n))
            pt = pyarrow.struct(list(fields))
            exp = None
            ctor = Make(f"pandas_engine.ArrowStruct(fields={fields!r})",
                        lambda: m.ArrowStruct(fields=fields))
        elif kind == "a-map":
            kt = rng.choice([pyarrow.string(), pyarrow.int32()])
            vt = rng.choice([pyarrow.int64(), pyarrow.string()])
            ks = rng.random() < 0.3
            pt = pyarrow.map_(kt, vt, ks)
            exp = None
            ctor = Make(f"pandas_engine.ArrowMap({kt}, {vt}, {ks})",
                        lambda: m.ArrowMap(key_type=kt, item_type=vt,
                                           keys_sorted=ks))
        else:
            n = rng.choice([-1, 0, 1, 4, 16])
            pt = pyarrow.binary(n)
            exp = None
            ctor = Make(f"pandas_engine.ArrowBinary({n})",
                        lambda: m.ArrowBinary(length=n))
        nat = pd.ArrowDtype(pt)
        sp = [nat, pt, ctor]
        if _pandas_parses(str(nat), nat):
            sp.append(str(nat))
        return {"label": f"Arrow[{pt}]", "spellings": sp, "expect_class": exp,
                "classes": classes}


def self_numpy():
    from pandera.engines import numpy_engine
    return numpy_engine


# ---------------------------------------------------------------------------
# polars
# ---------------------------------------------------------------------------
class PolarsAdapter(Adapter):
    name = "polars"
    roundtrip = False

    def __init__(self):
        from pandera.engines import polars_engine
        self.mod = polars_engine
        self.E = polars_engine.Engine

    def native_class(self, t):
        import polars as pl
        nt = getattr(t, "type", None)
        if nt is None:
            return None
        try:
            base = nt.base_type() if hasattr(nt, "base_type") else nt
        except Exception:
            return None
        ints = {pl.Int8: 8, pl.Int16: 16, pl.Int32: 32, pl.Int64: 64}
        uints = {pl.UInt8: 8, pl.UInt16: 16, pl.UInt32: 32, pl.UInt64: 64}
        for c, w in ints.items():
            if base == c:
                return ("int", True, w)
        for c, w in uints.items():
            if base == c:
                return ("int", False, w)
        if base == pl.Float32:
            return ("float", None, 32)
        if base == pl.Float64:
            return ("float", None, 64)
        if base == pl.Boolean:
            return ("bool", None, None)
        if base == pl.Datetime:
            return ("datetime", None, None)
        if base == pl.Duration:
            return ("timedelta", None, None)
        if base == pl.Date:
            return ("date", None, None)
        if base == pl.Time:
            return ("time", None, None)
        return None

    def families(self):
        import polars as pl
        from pandera import dtypes
        fams = []
        for n in ["Int8", "Int16", "Int32", "Int64", "UInt8", "UInt16",
                  "UInt32", "UInt64", "Float32", "Float64"]:
            fam = [getattr(pl, n), getattr(pl, n)(), n.lower(),
                   getattr(dtypes, n), _inst(getattr(dtypes, n))]
            fams.append((f"number:{n}", fam))
        # docs/source/polars.md "Supported Data Types"
        fams += [
            ("doc:int", [int, pl.Int64]),
            ("doc:str", [str, pl.Utf8, pl.String]),
            ("doc:float", [float, pl.Float64]),
            ("doc:bool", [bool, pl.Boolean, pl.Boolean(), "bool",
                          dtypes.Bool, _inst(dtypes.Bool)]),
            ("string", ["string", pl.Utf8, pl.Utf8(), dtypes.String,
                        _inst(dtypes.String)]),
            ("date", [datetime.date, pl.Date, pl.Date(), "date", dtypes.Date,
                      _inst(dtypes.Date)]),
            ("time", [datetime.time, pl.Time, pl.Time(), "time"]),
            ("datetime", [datetime.datetime, pl.Datetime, "datetime",
                          dtypes.DateTime, _inst(dtypes.DateTime)]),
            ("timedelta", [datetime.timedelta, pl.Duration, "timedelta",
                           dtypes.Timedelta, _inst(dtypes.Timedelta)]),
            ("binary", [bytes, pl.Binary, pl.Binary(), "binary"]),
            ("null", ["null", pl.Null, pl.Null()]),
            ("object", ["object", object, pl.Object, pl.Object()]),
            ("category", ["category", dtypes.Category, _inst(dtypes.Category)]),
        ]
        return fams

    def boxed_native(self, k):
        import polars as pl
        return k if isinstance(k, pl.DataType) else None

    # "pandera currently supports all of the polars data types"
    # (docs/source/polars.md, Supported Data Types): every data type class
    # polars exports, and the instance polars builds of it without
    # arguments (what ``series.dtype`` / ``frame.schema[name]`` hand to a
    # user), is a spelling - registered or not.
    _NOT_A_TYPE = ("DataType", "BaseExtension", "Extension", "Unknown")

    def native_spellings(self):
        import inspect
        import typing
        import polars as pl
        out = []
        classes = sorted({c for c in vars(pl).values() if inspect.isclass(c)
                          and issubclass(c, pl.DataType)},
                         key=lambda c: c.__name__)
        for c in classes:
            out.append((c, c, "class"))
            try:
                inst = c()
            except Exception:  # noqa  needs parameters: sampled elsewhere
                continue
            out.append((inst, inst, "instance"))
            try:
                sd = pl.Series([], dtype=c).dtype
            except Exception:  # noqa
                continue
            if type(sd) is c:
                out.append((sd, sd, "series-dtype"))
        # python types polars itself reads as a data type
        for py in [int, str, float, bool, bytes, datetime.date, datetime.time,
                   datetime.datetime, datetime.timedelta, decimal.Decimal,
                   list, tuple, type(None), object, typing.List[str],
                   typing.List[int], typing.Tuple[int, ...],
                   typing.List[typing.List[float]]]:
            try:
                ref = pl.Series([], dtype=py).dtype
            except Exception:  # noqa
                continue
            out.append((py, ref, "python-type"))
        return out

    def native_group(self, ref):
        import inspect
        c = ref if inspect.isclass(ref) else type(ref)
        key_registered = False
        for k in (ref, c):
            try:
                key_registered = key_registered or self.registers(k)
            except Exception:  # noqa
                pass
        from pandera.engines import engine as eng
        disp = c in eng.Engine._registry[self.E].dispatch.registry
        return ("registered" if key_registered or disp else "unregistered") \
            + ":" + c.__name__

    def native_policy(self, k, ref):
        import inspect
        import polars as pl
        if not (isinstance(k, pl.DataType) or
                (inspect.isclass(k) and issubclass(k, pl.DataType))):
            # python types: "handled in the same way that polars handles
            # them" is said of the built-in str / int / float / bool (judged
            # in the documented families); for decimal.Decimal, list, tuple,
            # NoneType and generics the parameters polars fills in (decimal
            # precision, List(Null)) are not promised to be pandera's
            return {"judged": False}
        c = k if inspect.isclass(k) else type(k)
        if c.__name__ in self._NOT_A_TYPE:
            return {"judged": False}       # abstract bases / placeholder
        return {"judged": True, "cls": "skip", "box": k}

    def dispatch_samples(self):
        import polars as pl
        return {
            pl.Decimal: [pl.Decimal(10, 2)],
            pl.Datetime: [pl.Datetime("ns", "UTC"), pl.Datetime("ms")],
            pl.Duration: [pl.Duration("ns"), pl.Duration("ms")],
            pl.Array: [pl.Array(pl.Int64, 3)],
            pl.List: [pl.List(pl.Utf8)],
            pl.Struct: [pl.Struct({"a": pl.Int64, "b": pl.Utf8})],
            pl.Categorical: [pl.Categorical()],
            pl.Enum: [pl.Enum(["a", "b"])],
        }

    def param_family(self, rng):
        import polars as pl
        m = self.mod
        kind = rng.choice(["dt", "dt", "dur", "dec", "enum", "enum", "cat",
                           "list", "array", "struct", "category"])
        if kind == "dt":
            u = rng.choice(["ns", "us", "ms"])
            tz = rng.choice([None, None] + TZ_POOL)
            if rng.random() < 0.2:
                mk = lambda: Make(  # noqa
                    f"polars_engine.DateTime(time_zone_agnostic=True, "
                    f"time_zone={tz!r}, time_unit={u!r})",
                    lambda: m.DateTime(time_zone_agnostic=True, time_zone=tz,
                                       time_unit=u))
                return {"label": f"Datetime-tz-agnostic[{u},{tz}]",
                        "spellings": [mk(), mk()],
                        "expect_class": ("datetime", None, None)}
            return {"label": f"Datetime[{u},{tz}]",
                    "spellings": [pl.Datetime(u, tz), Make(
                        f"polars_engine.DateTime(time_zone={tz!r}, time_unit={u!r})",
                        lambda: m.DateTime(time_zone=tz, time_unit=u))],
                    "expect_class": ("datetime", None, None)}
        if kind == "dur":
            u = rng.choice(["ns", "us", "ms"])
            return {"label": f"Duration[{u}]",
                    "spellings": [pl.Duration(u), Make(
                        f"polars_engine.Timedelta(time_unit={u!r})",
                        lambda: m.Timedelta(time_unit=u))],
                    "expect_class": ("timedelta", None, None)}
        if kind == "dec":
            from pandera import dtypes
            p, s, cl = decimal_variant(rng)
            sp = [pl.Decimal(p, s), Make(f"polars_engine.Decimal({p}, {s})",
                                         lambda: m.Decimal(p, s))]
            classes = [f"decimal:{c}" for c in cl]
            if self.registers(dtypes.Decimal):
                sp.append(Make(f"pandera.dtypes.Decimal({p}, {s})",
                               lambda: dtypes.Decimal(p, s)))
                classes.append("abstract-parameterised-instance")
            return {"label": f"Decimal[{p},{s}]", "spellings": sp,
                    "classes": classes}
        if kind == "enum":
            cats = [str(c) for c in rng.choice(CAT_POOLS)]
            cats = list(dict.fromkeys(cats))
            if rng.random() < 0.4:
                cats = rng.sample(cats, len(cats))
            return {"label": f"Enum[{cats}]",
                    "spellings": [pl.Enum(cats),
                                  Make(f"polars_engine.Enum({cats!r})",
                                       lambda: m.Enum(cats)),
                                  Make(f"polars_engine.Enum(pl.Series({cats!r}))",
                                       lambda: m.Enum(pl.Series(cats, dtype=pl.Utf8)))],
                    "classes": ["enum:empty" if not cats else "enum:non-empty"]}
        if kind == "cat":
            return {"label": "Categorical",
                    "spellings": [pl.Categorical(), pl.Categorical]}
        if kind == "category":
            from pandera import dtypes
            cats, _, how = cat_variant(rng)
            cats = None if cats is None else [str(c) for c in cats]
            mk = lambda: Make(f"polars_engine.Category({cats!r})",  # noqa
                              lambda: m.Category(cats))
            sp = [mk(), mk()]
            classes = [f"cat:{how}"]
            if self.registers(dtypes.Category):
                sp.append(Make(f"pandera.dtypes.Category({cats!r})",
                               lambda: dtypes.Category(cats)))
                classes.append("abstract-parameterised-instance")
            return {"label": f"Category[{cats}]", "spellings": sp,
                    "classes": classes}
        inner = rng.choice([pl.Int64, pl.Utf8, pl.Float32, pl.Boolean,
                            pl.Datetime("us"), pl.List(pl.Int64),
                            pl.Array(pl.Float64, 2), pl.Struct({"a": pl.Int8}),
                            pl.Decimal(10, 10)])
        if kind == "list":
            return {"label": f"List[{inner}]",
                    "spellings": [pl.List(inner), Make(
                        f"polars_engine.List({inner})", lambda: m.List(inner))]}
        if kind == "array":
            how = rng.choice(["width", "width", "shape-1d", "shape-2d",
                              "shape-3d"])
            if how == "width":
                w = rng.randint(0, 4)
            else:
                nd = {"shape-1d": 1, "shape-2d": 2, "shape-3d": 3}[how]
                w = tuple(rng.randint(1, 4) for _ in range(nd))
            sp = [pl.Array(inner, w), Make(
                f"polars_engine.Array({inner}, {w})", lambda: m.Array(inner, w))]
            if isinstance(w, int):
                sp.append(Make(f"polars_engine.Array({inner}, width={w})",
                               lambda: m.Array(inner, width=w)))
            return {"label": f"Array[{inner},{w}]", "spellings": sp,
                    "classes": [f"array:{how}"] +
                    (["array:width==0"] if w == 0 else []) +
                    (["array:unequal-dimensions"]
                     if isinstance(w, tuple) and len(set(w)) > 1 else [])}
        n = rng.randint(0, 3)
        fields = {f"f{i}": rng.choice([pl.Int64, pl.Utf8, pl.Float64])
                  for i in range(n)}
        return {"label": f"Struct[{fields}]",
                "spellings": [pl.Struct(fields), Make(
                    f"polars_engine.Struct({fields})", lambda: m.Struct(fields))]}


# ---------------------------------------------------------------------------
# pyspark (dtype engine only; no JVM involved)
# ---------------------------------------------------------------------------
class PysparkAdapter(Adapter):
    name = "pyspark"
    roundtrip = True

    PRIMS = ["BooleanType", "StringType", "IntegerType", "FloatType",
             "LongType", "ShortType", "ByteType", "DoubleType", "DateType",
             "TimestampType", "BinaryType"]

    def __init__(self):
        from pandera.engines import pyspark_engine
        import pyspark.sql.types as pst
        self.mod = pyspark_engine
        self.pst = pst
        self.E = pyspark_engine.Engine

    def native_class(self, t):
        nt = getattr(t, "type", None)
        n = type(nt).__name__ if not isinstance(nt, type) else nt.__name__
        return {
            "ByteType": ("int", True, 8), "ShortType": ("int", True, 16),
            "IntegerType": ("int", True, 32), "LongType": ("int", True, 64),
            "FloatType": ("float", None, 32), "DoubleType": ("float", None, 64),
            "BooleanType": ("bool", None, None),
            "TimestampType": ("datetime", None, None),
            "TimestampNTZType": ("datetime", None, None),
            "DateType": ("date", None, None),
        }.get(n)

    def families(self):
        pst = self.pst
        fams = []
        for n in self.PRIMS + ["DecimalType"]:
            c = getattr(pst, n)
            fams.append((f"native:{n}", [c, c(), n, f"{n}()"]))
        return fams

    def boxed_native(self, k):
        return k if isinstance(k, self.pst.DataType) else None

    def dispatch_samples(self):
        pst = self.pst
        return {
            pst.DecimalType: [pst.DecimalType(20, 5)],
            pst.ArrayType: [pst.ArrayType(pst.IntegerType(), False)],
            pst.MapType: [pst.MapType(pst.StringType(), pst.LongType(), False)],
        }

    def primitive(self, t):
        n = type(getattr(t, "type", None)).__name__
        if n in self.PRIMS and n != "BinaryType":
            return "judge"
        if n == "DecimalType":
            return "undecided:decimal-parameters-not-in-resolvable-name"
        return "undecided:not-listed-as-primitive"

    def param_family(self, rng):
        pst = self.pst
        m = self.mod
        kind = rng.choice(["dec", "dec", "arr", "map"])
        def elem(depth=0):
            r = rng.random()
            if depth < 2 and r < 0.15:
                return pst.ArrayType(elem(depth + 1), rng.random() < 0.5)
            if r < 0.25:
                p, s, _ = decimal_variant(rng)
                return pst.DecimalType(p, s)
            return rng.choice([pst.StringType(), pst.IntegerType(),
                               pst.LongType(), pst.DoubleType(),
                               pst.BooleanType(), pst.DateType(),
                               pst.TimestampType(), pst.ByteType()])
        if kind == "dec":
            p, s, cl = decimal_variant(rng)
            return {"label": f"DecimalType[{p},{s}]",
                    "spellings": [pst.DecimalType(p, s),
                                  Make(f"pyspark_engine.Decimal({p}, {s})",
                                       lambda: m.Decimal(p, s))],
                    "classes": [f"decimal:{c}" for c in cl]}
        if kind == "arr":
            e, c = elem(), rng.random() < 0.5
            return {"label": f"ArrayType[{e},{c}]",
                    "spellings": [pst.ArrayType(e, c), Make(
                        f"pyspark_engine.ArrayType({e}, {c})",
                        lambda: m.ArrayType(e, c))]}
        k, v, c = elem(), elem(), rng.random() < 0.5
        return {"label": f"MapType[{k},{v},{c}]",
                "spellings": [pst.MapType(k, v, c), Make(
                    f"pyspark_engine.MapType({k}, {v}, {c})",
                    lambda: m.MapType(k, v, c))]}


def adapters():
    out = [NumpyAdapter(), PandasAdapter(), PolarsAdapter()]
    try:
        out.append(PysparkAdapter())
    except Exception as e:  # pyspark missing: reported by the check
        out.append(e)
    return out
