"""C09 helpers: one adapter per dtype engine.

Everything here is *oracle side*: it only uses numpy / pandas / pyarrow /
polars / pyspark themselves (trusted) to say what a spelling means, never
pandera.  An adapter provides

* ``native_class(t)``   (kind, signed, bits) of the native dtype boxed by a
                        resolved pandera type, or None when the type is not a
                        physical numeric / bool / temporal type;
* ``families()``        documented-equivalent spellings (transcribed from
                        docs/source/dtype_validation.md, docs/source/polars.md,
                        docs/source/pyspark_sql.md, reference/dtypes.rst and the
                        alias families "int64" ~ np.int64 ~ pa.Int64 ~ pa.Int64());
* ``dispatch_samples``  instances for every class registered in the engine's
                        singledispatch table (parameterised natives);
* ``class_params``      instances for registered classes that cannot be built
                        without arguments;
* ``param_family(rng)`` one sampled parameterisation with all its spellings;
* ``primitive(t)``      is the print/resolve round trip promised for t.
"""
from __future__ import annotations

import datetime
import decimal
import re

import numpy as np
import pandas as pd

_ADDR = re.compile(r" at 0x[0-9a-fA-F]+")


def desc(k) -> str:
    """Stable, address-free description of a spelling."""
    if isinstance(k, str):
        return f"str:{k!r}"
    if isinstance(k, type):
        return f"class:{k.__module__}.{k.__qualname__}"
    if callable(k) and hasattr(k, "__name__") and not hasattr(k, "dtype"):
        mod = getattr(k, "__module__", None) or "?"
        return f"callable:{mod}.{getattr(k, '__qualname__', k.__name__)}"
    r = _ADDR.sub("", repr(k))
    return f"{type(k).__module__}.{type(k).__name__}:{r}"[:240]


def tdesc(t) -> str:
    return f"{type(t).__module__.split('.')[-1]}.{type(t).__name__}({_ADDR.sub('', str(_safe_str(t)))})"


def _safe_str(t):
    try:
        return str(t)
    except Exception as e:  # noqa
        return f"<str raised {type(e).__name__}>"


TZ_POOL = ["UTC", "Europe/Berlin", "America/New_York", "Asia/Tokyo",
           "Asia/Kolkata", "Australia/Lord_Howe", "America/St_Johns",
           "Africa/Abidjan", "Pacific/Kiritimati", "Etc/GMT+5"]
FIXED_OFFSETS = [datetime.timezone.utc,
                 datetime.timezone(datetime.timedelta(hours=5, minutes=30)),
                 datetime.timezone(datetime.timedelta(hours=-8)),
                 datetime.timezone(datetime.timedelta(hours=1))]
CAT_POOLS = [["a", "b"], ["x"], [], ["b", "a", "c"], [1, 2, 3], [3, 1],
             ["a", "A", " "], ["é", "ü"], [1.5, 2.5], [True, False],
             ["a", "b", "c", "d", "e"], ["0", "1"]]


# ---------------------------------------------------------------------------
# native classification (numpy / pandas / pyarrow)
# ---------------------------------------------------------------------------
def np_class(d):
    d = np.dtype(d)
    k = d.kind
    if k == "b":
        return ("bool", None, None)
    if k == "i":
        return ("int", True, d.itemsize * 8)
    if k == "u":
        return ("int", False, d.itemsize * 8)
    if k == "f":
        return ("float", None, d.itemsize * 8)
    if k == "c":
        return ("complex", None, d.itemsize * 8)
    if k == "M":
        return ("datetime", None, None)
    if k == "m":
        return ("timedelta", None, None)
    return None


def arrow_class(pt):
    import pyarrow as pa
    T = pa.types
    if T.is_boolean(pt):
        return ("bool", None, None)
    if T.is_signed_integer(pt):
        return ("int", True, pt.bit_width)
    if T.is_unsigned_integer(pt):
        return ("int", False, pt.bit_width)
    if T.is_floating(pt):
        return ("float", None, pt.bit_width)
    if T.is_timestamp(pt):
        return ("datetime", None, None)
    if T.is_duration(pt):
        return ("timedelta", None, None)
    if T.is_date(pt):
        return ("date", None, None)
    if T.is_time(pt):
        return ("time", None, None)
    return None


def pandas_native_class(nt):
    if nt is None:
        return None
    if isinstance(nt, np.dtype):
        return np_class(nt)
    if isinstance(nt, pd.ArrowDtype):
        return arrow_class(nt.pyarrow_dtype)
    if isinstance(nt, pd.BooleanDtype):
        return ("bool", None, None)
    if isinstance(nt, pd.DatetimeTZDtype):
        return ("datetime", None, None)
    nd = getattr(nt, "numpy_dtype", None)
    if isinstance(nt, pd.api.extensions.ExtensionDtype) and type(nt).__module__ in (
            "pandas.core.arrays.integer", "pandas.core.arrays.floating") and nd is not None:
        return np_class(nd)
    return None


class Adapter:
    name = "?"
    roundtrip = False

    def __init__(self):
        self.E = None

    def native_class(self, t):
        raise NotImplementedError

    def families(self):
        return []

    def dispatch_samples(self):
        return {}

    def class_params(self):
        return {}

    def param_family(self, rng):
        return None

    def primitive(self, t):
        return "undecided:not-listed-as-primitive"

    def alias_probes(self):
        """(alias spelling, expected native class) judged on class only."""
        return []


# ---------------------------------------------------------------------------
# numpy
# ---------------------------------------------------------------------------
def _num_families(with_pandas_only=False):
    from pandera import dtypes
    fams = []
    widths = {"int": [8, 16, 32, 64], "uint": [8, 16, 32, 64],
              "float": [16, 32, 64] + ([128] if hasattr(np, "float128") else []),
              "complex": [64, 128] + ([256] if hasattr(np, "complex256") else [])}
    default = {"int": 64, "uint": 64, "float": 64, "complex": 128}
    builtin = {"int": int, "float": float, "complex": complex}
    for kind, ws in widths.items():
        Kind = {"int": "Int", "uint": "UInt", "float": "Float",
                "complex": "Complex"}[kind]
        for w in ws:
            name = f"{kind}{w}"
            fam = [name, getattr(np, name), np.dtype(name),
                   getattr(dtypes, f"{Kind}{w}"), getattr(dtypes, f"{Kind}{w}")()]
            if w == default[kind]:
                fam += [getattr(dtypes, Kind), getattr(dtypes, Kind)(), kind]
                if kind in builtin:
                    fam.append(builtin[kind])
            fams.append((f"number:{name}", fam))
    fams.append(("bool", ["bool", bool, np.bool_, np.dtype("bool"),
                          dtypes.Bool, dtypes.Bool()]))
    return fams


def _sctype_aliases():
    out = []
    for a in sorted(k for k in np.sctypeDict if isinstance(k, str)):
        try:
            c = np_class(np.dtype(a))
        except Exception:
            continue
        if c is not None:
            out.append((a, c))
    for ch in "?bBhHiIlLqQefdgFDG":
        out.append((ch, np_class(np.dtype(ch))))
    return out


class NumpyAdapter(Adapter):
    name = "numpy"
    roundtrip = True

    def __init__(self):
        from pandera.engines import numpy_engine
        self.mod = numpy_engine
        self.E = numpy_engine.Engine

    def native_class(self, t):
        nt = getattr(t, "type", None)
        return np_class(nt) if isinstance(nt, np.dtype) else None

    def families(self):
        from pandera import dtypes
        fams = _num_families()
        fams += [
            ("object", ["object", "O", object, np.object_, np.dtype(object)]),
            ("str", ["str", str, np.str_]),
            ("bytes", ["bytes", bytes, np.bytes_]),
            ("datetime", [np.datetime64, "datetime64", dtypes.Timestamp,
                          dtypes.Timestamp(), datetime.datetime]),
            ("timedelta", [np.timedelta64, "timedelta64", dtypes.Timedelta,
                           dtypes.Timedelta(), datetime.timedelta]),
        ]
        return fams

    def primitive(self, t):
        if type(t) is self.mod.DataType:
            # fallback box, created with a "support is not guaranteed" warning
            return "undecided:unregistered-fallback-type"
        return "judge"

    def alias_probes(self):
        return _sctype_aliases()

    def param_family(self, rng):
        # numpy dtypes with a unit: only the kind is promised
        unit = rng.choice(["ns", "us", "ms", "s", "D", "m", "h"])
        kind = rng.choice(["datetime64", "timedelta64"])
        s = f"{kind}[{unit}]"
        return {"label": f"np-unit:{s}", "class_only": True,
                "spellings": [s, np.dtype(s)],
                "expect_class": np_class(np.dtype(s)), "roundtrip": False}


# ---------------------------------------------------------------------------
# pandas (+ pyarrow)
# ---------------------------------------------------------------------------
ARROW_PRIMS = ["bool_", "int8", "int16", "int32", "int64", "uint8", "uint16",
               "uint32", "uint64", "float16", "float32", "float64", "string",
               "large_string", "binary", "large_binary", "date32", "date64",
               "null"]


def _pandas_parses(s, native):
    """Does pandas itself read the alias back to the same native dtype?"""
    try:
        return pd.api.types.pandas_dtype(s) == native
    except Exception:
        return False


class PandasAdapter(Adapter):
    name = "pandas"
    roundtrip = True

    def __init__(self):
        from pandera.engines import pandas_engine
        self.mod = pandas_engine
        self.E = pandas_engine.Engine

    def native_class(self, t):
        return pandas_native_class(getattr(t, "type", None))

    def families(self):
        import pyarrow
        from pandera import dtypes
        fams = _num_families()
        # the literal list of docs/source/dtype_validation.md
        fams.append(("doc:integer_schema",
                     [int, "int", "int64", np.int64, dtypes.Int, dtypes.Int64]))
        for n in ["Int8", "Int16", "Int32", "Int64", "UInt8", "UInt16",
                  "UInt32", "UInt64", "Float32", "Float64"]:
            cls = getattr(pd, f"{n}Dtype")
            fams.append((f"nullable:{n}", [n, cls, cls()]))
        fams.append(("nullable:boolean", ["boolean", pd.BooleanDtype,
                                          pd.BooleanDtype()]))
        fams += [
            ("object", ["object", "O", object, np.object_, np.dtype(object)]),
            ("str", ["str", str, np.str_, dtypes.String, dtypes.String()]),
            ("string:python", ["string[python]", pd.StringDtype("python")]),
            ("string:pyarrow", ["string[pyarrow]", pd.StringDtype("pyarrow")]),
            ("datetime", ["datetime64[ns]", np.dtype("datetime64[ns]"),
                          "datetime64", np.datetime64, datetime.datetime,
                          pd.Timestamp, dtypes.Timestamp, dtypes.Timestamp(),
                          dtypes.DateTime]),
            ("timedelta", ["timedelta64[ns]", np.dtype("timedelta64[ns]"),
                           "timedelta64", np.timedelta64, datetime.timedelta,
                           pd.Timedelta, dtypes.Timedelta, dtypes.Timedelta()]),
            ("category", ["category", pd.CategoricalDtype,
                          pd.CategoricalDtype(), dtypes.Category,
                          dtypes.Category()]),
            ("date", ["date", datetime.date, dtypes.Date, dtypes.Date()]),
        ]
        # docs/source/dtype_validation.md "Support for the python typing module":
        # the same spelling resolved twice must give equal objects
        from typing import Dict, List, NamedTuple, Tuple, TypedDict

        class _PointDict(TypedDict):
            x: float
            y: float

        class _PointTuple(NamedTuple):
            x: float
            y: float

        for lab, g in [("Dict[str,int]", Dict[str, int]), ("List[float]", List[float]),
                       ("Tuple[int,str,float]", Tuple[int, str, float]),
                       ("TypedDict-subclass", _PointDict),
                       ("NamedTuple-subclass", _PointTuple)]:
            fams.append((f"doc:typing:{lab}", [g, g]))
        # docs/source/dtype_validation.md "Pyarrow data types"
        fams.append(("doc:pyarrow_schema",
                     [pyarrow.float64(), "float64[pyarrow]",
                      pd.ArrowDtype(pyarrow.float64())]))
        for n in ARROW_PRIMS:
            pt = getattr(pyarrow, n)()
            nat = pd.ArrowDtype(pt)
            fam = [pt, nat]
            if _pandas_parses(str(nat), nat):
                fam.append(str(nat))
            fams.append((f"arrow:{n}", fam))
        return fams

    def dispatch_samples(self):
        import pyarrow
        from pandera import dtypes
        return {
            dtypes.Category: [dtypes.Category(["a", "b"], ordered=True)],
            pd.CategoricalDtype: [pd.CategoricalDtype(["a", "b"], ordered=True),
                                  pd.CategoricalDtype()],
            pd.StringDtype: [pd.StringDtype("python"), pd.StringDtype("pyarrow")],
            pd.DatetimeTZDtype: [pd.DatetimeTZDtype("ns", "UTC"),
                                 pd.DatetimeTZDtype("ns", "Asia/Tokyo")],
            pd.PeriodDtype: [pd.PeriodDtype("D"), pd.PeriodDtype("M")],
            pd.SparseDtype: [pd.SparseDtype("float64"), pd.SparseDtype("int64", 0)],
            pd.IntervalDtype: [pd.IntervalDtype("int64"), pd.IntervalDtype("float64")],
            pyarrow.Decimal128Type: [pyarrow.decimal128(10, 2)],
            pyarrow.TimestampType: [pyarrow.timestamp("us"),
                                    pyarrow.timestamp("ns", "UTC")],
            pyarrow.DictionaryType: [pyarrow.dictionary(pyarrow.int32(),
                                                       pyarrow.string())],
            pyarrow.ListType: [pyarrow.list_(pyarrow.int64())],
            pyarrow.FixedSizeListType: [pyarrow.list_(pyarrow.int64(), 3)],
            pyarrow.StructType: [pyarrow.struct([("a", pyarrow.int64())])],
            pyarrow.DurationType: [pyarrow.duration("ms")],
            pyarrow.Time32Type: [pyarrow.time32("s")],
            pyarrow.Time64Type: [pyarrow.time64("us")],
            pyarrow.MapType: [pyarrow.map_(pyarrow.string(), pyarrow.int64())],
            pyarrow.FixedSizeBinaryType: [pyarrow.binary(4)],
            # registered as the *base class* of every pyarrow type
            pyarrow.DataType: [pyarrow.binary()],
        }

    def class_params(self):
        import pydantic

        class _Rec(pydantic.BaseModel):
            a: int

        m = self.mod
        return {
            m.Period: [m.Period(freq="D")],
            m.Interval: [m.Interval(subtype="int64")],
            m.PydanticModel: [m.PydanticModel(_Rec)],
        }

    def primitive(self, t):
        m = self.mod
        name = type(t).__name__
        if name.startswith("Arrow"):
            fam = name
            if name in ("ArrowBinary", "ArrowLargeBinary", "ArrowNull",
                        "ArrowList", "ArrowStruct", "ArrowMap",
                        "ArrowDecimal128"):
                return f"undecided:not-listed-as-primitive:{fam}"
            if not _pandas_parses(_safe_str(t), t.type):
                return f"undecided:pandas-cannot-parse-printed-name:{fam}"
            return "judge"
        if isinstance(t, m.Category):
            if t.categories is not None or t.ordered:
                return "undecided:parameterised-category-prints-as-'category'"
            return "judge"
        if isinstance(t, (m.Decimal,)):
            return "undecided:decimal-logical-type"
        if isinstance(t, (m.Period, m.Sparse, m.Interval, m.PydanticModel,
                          m.PythonGenericType)):
            return "undecided:not-listed-as-primitive"
        if isinstance(t, m.DateTime) and t.time_zone_agnostic:
            return "undecided:time-zone-agnostic"
        if type(t) in (m.DataType, self_numpy().DataType):
            return "undecided:unregistered-fallback-type"
        return "judge"

    def alias_probes(self):
        return _sctype_aliases()

    # -- sampled parameterisations ---------------------------------------
    def param_family(self, rng):
        import pyarrow
        from pandera import dtypes
        m = self.mod
        kind = rng.choice(["tz", "tz", "tz-fixed", "cat", "cat", "string",
                           "period", "sparse", "interval", "decimal",
                           "a-ts", "a-ts", "a-dur", "a-t32", "a-t64", "a-dec",
                           "a-dict", "a-list", "a-struct", "a-map", "a-bin"])
        if kind in ("tz", "tz-fixed"):
            tz = rng.choice(TZ_POOL) if kind == "tz" else rng.choice(FIXED_OFFSETS)
            nat = pd.DatetimeTZDtype("ns", tz)
            sp = [nat, m.DateTime(tz=tz), m.DateTime(unit="ns", tz=nat.tz)]
            if _pandas_parses(str(nat), nat):
                sp.append(str(nat))
            return {"label": f"DatetimeTZDtype[ns,{tz}]", "spellings": sp,
                    "expect_class": ("datetime", None, None)}
        if kind == "cat":
            cats = rng.choice(CAT_POOLS)
            k = rng.randint(0, len(cats))
            cats = rng.sample(cats, k) if rng.random() < 0.5 else list(cats)
            o = rng.random() < 0.4
            sp = [pd.CategoricalDtype(cats, o), dtypes.Category(cats, o),
                  m.Category(cats, o)]
            return {"label": f"Categorical[{cats},{o}]", "spellings": sp}
        if kind == "string":
            st = rng.choice(["python", "pyarrow"])
            nat = pd.StringDtype(st)
            return {"label": f"StringDtype[{st}]",
                    "spellings": [nat, m.STRING(st), f"string[{st}]"]}
        if kind == "period":
            f = rng.choice(["D", "M", "Y", "h", "min", "s", "W", "Q", "B"])
            return {"label": f"Period[{f}]",
                    "spellings": [pd.PeriodDtype(f), m.Period(freq=pd.PeriodDtype(f).freq)]}
        if kind == "sparse":
            d, fv = rng.choice([("float64", np.nan), ("int64", 0), ("bool", False),
                                ("float32", np.nan), ("int8", 1)])
            return {"label": f"Sparse[{d},{fv}]",
                    "spellings": [pd.SparseDtype(d, fv)]}
        if kind == "interval":
            s = rng.choice(["int64", "float64", "datetime64[ns]", "int32",
                            "timedelta64[ns]"])
            return {"label": f"Interval[{s}]",
                    "spellings": [pd.IntervalDtype(s)]}
        if kind == "decimal":
            p = rng.randint(1, 38)
            s = rng.randint(0, p)
            r = rng.choice([None, decimal.ROUND_HALF_UP, decimal.ROUND_DOWN])
            return {"label": f"Decimal[{p},{s},{r}]",
                    "spellings": [m.Decimal(p, s, r), m.Decimal(p, s, r)]}
        # pyarrow parameterised: bare pyarrow instance, ArrowDtype, alias
        if kind == "a-ts":
            u = rng.choice(["s", "ms", "us", "ns"])
            tz = rng.choice([None, None] + TZ_POOL)
            pt = pyarrow.timestamp(u, tz)
            exp = ("datetime", None, None)
        elif kind == "a-dur":
            pt = pyarrow.duration(rng.choice(["s", "ms", "us", "ns"]))
            exp = ("timedelta", None, None)
        elif kind == "a-t32":
            pt = pyarrow.time32(rng.choice(["s", "ms"]))
            exp = ("time", None, None)
        elif kind == "a-t64":
            pt = pyarrow.time64(rng.choice(["us", "ns"]))
            exp = ("time", None, None)
        elif kind == "a-dec":
            p = rng.randint(1, 38)
            pt = pyarrow.decimal128(p, rng.randint(0, p))
            exp = None
        elif kind == "a-dict":
            pt = pyarrow.dictionary(
                rng.choice([pyarrow.int8(), pyarrow.int32(), pyarrow.int64()]),
                rng.choice([pyarrow.string(), pyarrow.int64(), pyarrow.float64()]),
                rng.random() < 0.3)
            exp = None
        elif kind == "a-list":
            v = rng.choice([pyarrow.string(), pyarrow.int64(), pyarrow.float32()])
            pt = pyarrow.list_(v, rng.choice([-1, -1, 2, 3]))
            exp = None
        elif kind == "a-struct":
            n = rng.randint(0, 3)
            pt = pyarrow.struct([(f"f{i}", rng.choice(
                [pyarrow.int64(), pyarrow.string(), pyarrow.bool_()]))
                for i in range(n)])
            exp = None
        elif kind == "a-map":
            pt = pyarrow.map_(rng.choice([pyarrow.string(), pyarrow.int32()]),
                              rng.choice([pyarrow.int64(), pyarrow.string()]))
            exp = None
        else:
            pt = pyarrow.binary(rng.choice([-1, 1, 4, 16]))
            exp = None
        nat = pd.ArrowDtype(pt)
        sp = [nat, pt]
        if _pandas_parses(str(nat), nat):
            sp.append(str(nat))
        return {"label": f"Arrow[{pt}]", "spellings": sp, "expect_class": exp}


def self_numpy():
    from pandera.engines import numpy_engine
    return numpy_engine


# ---------------------------------------------------------------------------
# polars
# ---------------------------------------------------------------------------
class PolarsAdapter(Adapter):
    name = "polars"
    roundtrip = False

    def __init__(self):
        from pandera.engines import polars_engine
        self.mod = polars_engine
        self.E = polars_engine.Engine

    def native_class(self, t):
        import polars as pl
        nt = getattr(t, "type", None)
        if nt is None:
            return None
        try:
            base = nt.base_type() if hasattr(nt, "base_type") else nt
        except Exception:
            return None
        ints = {pl.Int8: 8, pl.Int16: 16, pl.Int32: 32, pl.Int64: 64}
        uints = {pl.UInt8: 8, pl.UInt16: 16, pl.UInt32: 32, pl.UInt64: 64}
        for c, w in ints.items():
            if base == c:
                return ("int", True, w)
        for c, w in uints.items():
            if base == c:
                return ("int", False, w)
        if base == pl.Float32:
            return ("float", None, 32)
        if base == pl.Float64:
            return ("float", None, 64)
        if base == pl.Boolean:
            return ("bool", None, None)
        if base == pl.Datetime:
            return ("datetime", None, None)
        if base == pl.Duration:
            return ("timedelta", None, None)
        if base == pl.Date:
            return ("date", None, None)
        if base == pl.Time:
            return ("time", None, None)
        return None

    def families(self):
        import polars as pl
        from pandera import dtypes
        fams = []
        for n in ["Int8", "Int16", "Int32", "Int64", "UInt8", "UInt16",
                  "UInt32", "UInt64", "Float32", "Float64"]:
            fam = [getattr(pl, n), getattr(pl, n)(), n.lower(),
                   getattr(dtypes, n), getattr(dtypes, n)()]
            fams.append((f"number:{n}", fam))
        # docs/source/polars.md "Supported Data Types"
        fams += [
            ("doc:int", [int, pl.Int64]),
            ("doc:str", [str, pl.Utf8, pl.String]),
            ("doc:float", [float, pl.Float64]),
            ("doc:bool", [bool, pl.Boolean, pl.Boolean(), "bool",
                          dtypes.Bool, dtypes.Bool()]),
            ("string", ["string", pl.Utf8, pl.Utf8(), dtypes.String,
                        dtypes.String()]),
            ("date", [datetime.date, pl.Date, pl.Date(), "date", dtypes.Date,
                      dtypes.Date()]),
            ("time", [datetime.time, pl.Time, pl.Time(), "time"]),
            ("datetime", [datetime.datetime, pl.Datetime, "datetime",
                          dtypes.DateTime, dtypes.DateTime()]),
            ("timedelta", [datetime.timedelta, pl.Duration, "timedelta",
                           dtypes.Timedelta, dtypes.Timedelta()]),
            ("binary", [bytes, pl.Binary, pl.Binary(), "binary"]),
            ("null", ["null", pl.Null, pl.Null()]),
            ("object", ["object", object, pl.Object, pl.Object()]),
            ("category", ["category", dtypes.Category, dtypes.Category()]),
        ]
        return fams

    def dispatch_samples(self):
        import polars as pl
        return {
            pl.Decimal: [pl.Decimal(10, 2)],
            pl.Datetime: [pl.Datetime("ns", "UTC"), pl.Datetime("ms")],
            pl.Duration: [pl.Duration("ns"), pl.Duration("ms")],
            pl.Array: [pl.Array(pl.Int64, 3)],
            pl.List: [pl.List(pl.Utf8)],
            pl.Struct: [pl.Struct({"a": pl.Int64, "b": pl.Utf8})],
            pl.Categorical: [pl.Categorical()],
            pl.Enum: [pl.Enum(["a", "b"])],
        }

    def param_family(self, rng):
        import polars as pl
        m = self.mod
        kind = rng.choice(["dt", "dt", "dur", "dec", "enum", "enum", "cat",
                           "list", "array", "struct", "category"])
        if kind == "dt":
            u = rng.choice(["ns", "us", "ms"])
            tz = rng.choice([None, None] + TZ_POOL)
            return {"label": f"Datetime[{u},{tz}]",
                    "spellings": [pl.Datetime(u, tz),
                                  m.DateTime(time_zone=tz, time_unit=u)],
                    "expect_class": ("datetime", None, None)}
        if kind == "dur":
            u = rng.choice(["ns", "us", "ms"])
            return {"label": f"Duration[{u}]",
                    "spellings": [pl.Duration(u), m.Timedelta(time_unit=u)],
                    "expect_class": ("timedelta", None, None)}
        if kind == "dec":
            p = rng.randint(1, 38)
            s = rng.randint(0, p)
            return {"label": f"Decimal[{p},{s}]",
                    "spellings": [pl.Decimal(p, s), m.Decimal(p, s)]}
        if kind == "enum":
            cats = [str(c) for c in rng.choice(CAT_POOLS)]
            cats = list(dict.fromkeys(cats))
            return {"label": f"Enum[{cats}]",
                    "spellings": [pl.Enum(cats), m.Enum(cats)]}
        if kind == "cat":
            return {"label": "Categorical",
                    "spellings": [pl.Categorical(), pl.Categorical]}
        if kind == "category":
            cats = [str(c) for c in rng.choice(CAT_POOLS)]
            return {"label": f"Category[{cats}]",
                    "spellings": [m.Category(cats), m.Category(cats)]}
        inner = rng.choice([pl.Int64, pl.Utf8, pl.Float32, pl.Boolean,
                            pl.Datetime("us")])
        if kind == "list":
            return {"label": f"List[{inner}]",
                    "spellings": [pl.List(inner), m.List(inner)]}
        if kind == "array":
            w = rng.randint(1, 4)
            return {"label": f"Array[{inner},{w}]",
                    "spellings": [pl.Array(inner, w), m.Array(inner, w)]}
        n = rng.randint(1, 3)
        fields = {f"f{i}": rng.choice([pl.Int64, pl.Utf8, pl.Float64])
                  for i in range(n)}
        return {"label": f"Struct[{fields}]",
                "spellings": [pl.Struct(fields), m.Struct(fields)]}


# ---------------------------------------------------------------------------
# pyspark (dtype engine only; no JVM involved)
# ---------------------------------------------------------------------------
class PysparkAdapter(Adapter):
    name = "pyspark"
    roundtrip = True

    PRIMS = ["BooleanType", "StringType", "IntegerType", "FloatType",
             "LongType", "ShortType", "ByteType", "DoubleType", "DateType",
             "TimestampType", "BinaryType"]

    def __init__(self):
        from pandera.engines import pyspark_engine
        import pyspark.sql.types as pst
        self.mod = pyspark_engine
        self.pst = pst
        self.E = pyspark_engine.Engine

    def native_class(self, t):
        nt = getattr(t, "type", None)
        n = type(nt).__name__ if not isinstance(nt, type) else nt.__name__
        return {
            "ByteType": ("int", True, 8), "ShortType": ("int", True, 16),
            "IntegerType": ("int", True, 32), "LongType": ("int", True, 64),
            "FloatType": ("float", None, 32), "DoubleType": ("float", None, 64),
            "BooleanType": ("bool", None, None),
            "TimestampType": ("datetime", None, None),
            "TimestampNTZType": ("datetime", None, None),
            "DateType": ("date", None, None),
        }.get(n)

    def families(self):
        pst = self.pst
        fams = []
        for n in self.PRIMS + ["DecimalType"]:
            c = getattr(pst, n)
            fams.append((f"native:{n}", [c, c(), n, f"{n}()"]))
        return fams

    def dispatch_samples(self):
        pst = self.pst
        return {
            pst.DecimalType: [pst.DecimalType(20, 5)],
            pst.ArrayType: [pst.ArrayType(pst.IntegerType(), False)],
            pst.MapType: [pst.MapType(pst.StringType(), pst.LongType(), False)],
        }

    def primitive(self, t):
        n = type(getattr(t, "type", None)).__name__
        if n in self.PRIMS and n != "BinaryType":
            return "judge"
        if n == "DecimalType":
            return "undecided:decimal-parameters-not-in-resolvable-name"
        return "undecided:not-listed-as-primitive"

    def param_family(self, rng):
        pst = self.pst
        m = self.mod
        kind = rng.choice(["dec", "dec", "arr", "map"])
        elem = lambda: rng.choice([pst.StringType(), pst.IntegerType(),  # noqa
                                   pst.LongType(), pst.DoubleType(),
                                   pst.BooleanType(), pst.DateType()])
        if kind == "dec":
            p = rng.randint(1, 38)
            s = rng.randint(0, p)
            return {"label": f"DecimalType[{p},{s}]",
                    "spellings": [pst.DecimalType(p, s), m.Decimal(p, s)]}
        if kind == "arr":
            e, c = elem(), rng.random() < 0.5
            return {"label": f"ArrayType[{e},{c}]",
                    "spellings": [pst.ArrayType(e, c), m.ArrayType(e, c)]}
        k, v, c = elem(), elem(), rng.random() < 0.5
        return {"label": f"MapType[{k},{v},{c}]",
                "spellings": [pst.MapType(k, v, c), m.MapType(k, v, c)]}


def adapters():
    out = [NumpyAdapter(), PandasAdapter(), PolarsAdapter()]
    try:
        out.append(PysparkAdapter())
    except Exception as e:  # pyspark missing: reported by the check
        out.append(e)
    return out
