"""C19 relations: option variants of one predicate, observed on the real
pandera check machinery (``schema.validate`` outcome, SchemaWarnings, the
arguments the user function was shown).

``Judge`` collects (kind, witness, mechanism) triples; the driver turns them
into ``run.violation`` calls.  A relation that cannot be decided from the
documentation is counted ``undecided:*`` and never judged.
"""
from __future__ import annotations

import warnings
from collections import Counter

from . import c19_gen as G, harness as H, snap as S

# mechanisms (call sites) this check can attribute a violation to
M_GROUPBY_NULLS = "pandas-check-groupby-ignore_na-keeps-nulls"
M_FRAME_NULLS = "pandas-preprocess_table-ignore_na-keeps-null-rows"
M_FRAME_VERDICT = "pandas-postprocess_table_with_field_output-ignore_na-only-all-null-rows"
M_NFC_DUP = "pandas-n_failure_cases-groupby-on-duplicate-index"
M_SCALAR_KEY = "pandas-format_groupby_input-len-of-scalar-group-key"
M_ARROW_TABLE = "pandas-postprocess_table-failure-cases-agg-to_dict-on-arrow-dtype"


def _errors(out):
    import pandera.errors as pe
    if isinstance(out.exc, pe.SchemaErrors):
        return list(out.exc.schema_errors)
    if isinstance(out.exc, pe.SchemaError):
        return [out.exc]
    return []


class Obs:
    """What one validate call showed.  Failure cases are read from the
    SchemaError objects column-wise (no row iteration, so labels keep their
    type): pandas -> (index label, value), polars -> ('-', row values)."""

    def __init__(self, out, n_warn):
        import pandas as pd
        self.out = out
        self.n_warn = n_warn
        self.verdict = {"ok": "accept", "SchemaError": "reject",
                        "SchemaErrors": "reject", "exc": "exc"}[out.kind]
        errs = _errors(out)
        self.reasons = sorted({e.reason_code.name for e in errs})
        self.check_error = "CHECK_ERROR" in self.reasons
        self.only_check = set(self.reasons) <= {"DATAFRAME_CHECK"}
        self.scalar = False
        self.error_text = " | ".join(
            str(e)[:300] for e in errs if e.reason_code.name == "CHECK_ERROR")
        cells = []
        for e in errs:
            if e.reason_code.name != "DATAFRAME_CHECK":
                continue
            fc = e.failure_cases
            if isinstance(fc, pd.DataFrame):
                idx = fc["index"].tolist() if "index" in fc.columns \
                    else [None] * len(fc)
                val = fc["failure_case"].tolist() \
                    if "failure_case" in fc.columns else fc.values.tolist()
                for i, v in zip(idx, val):
                    cells.append((repr(G.norm(i)), repr(G.norm(v))))
            elif hasattr(fc, "rows"):           # polars DataFrame
                for row in fc.rows():
                    cells.append(("-", repr([G.norm(v) for v in row])))
            else:
                self.scalar = True
        self.cells = cells                     # in reported order

    def brief(self):
        return {"verdict": self.verdict, "reasons": self.reasons,
                "cells": self.cells[:12], "warnings": self.n_warn,
                "exc": repr(self.out.exc)[:200] if self.verdict == "exc" else None}


def observe(schema, obj, lazy=True):
    import pandera.errors as pe
    with warnings.catch_warnings(record=True) as w:
        warnings.simplefilter("always")
        out = H.run_validate(schema, obj, lazy=lazy)
    n = sum(1 for x in w if issubclass(x.category, pe.SchemaWarning))
    return Obs(out, n)


observe_pl = observe


class Judge:
    def __init__(self, run, base_witness):
        self.run = run
        self.base = base_witness
        self.found = []

    def ev(self, name):
        self.run.count(f"rel:{name}:evaluated")

    def und(self, name):
        self.run.count(f"undecided:{name}")

    def bad(self, kind, extra, mech=None):
        w = dict(self.base)
        w.update(extra)
        self.found.append((kind, w, mech))


def nfc_verdict(J, B, K, data, k, prefix):
    """n_failure_cases never changes the verdict.  -> True when both variants
    reported in the same way (so that the failure cases can be compared)."""
    J.ev(prefix + "n_failure_cases:verdict-unchanged")
    if K.verdict != B.verdict:
        J.bad("n_failure_cases-changes-the-verdict",
              {"k": k, "plain": B.brief(), "with_k": K.brief()})
        return False
    if K.reasons == B.reasons:
        return True
    labels = data["index"]["labels"]
    dup = len(set(labels)) != len(labels)
    if B.reasons == ["DATAFRAME_CHECK"] and K.reasons == ["CHECK_ERROR"]:
        # the option turned the failure report into an internal error
        J.bad("n_failure_cases-replaces-the-failure-cases-by-an-error",
              {"k": k, "plain": B.brief(), "with_k": K.brief()},
              M_NFC_DUP if dup else None)
    else:
        # the PLAIN check failed to report (e.g. reshape of a dataframe-level
        # result under repeated index labels): error channel, C06's business
        J.und("plain-check-report-crashed(C06)")
    return False


# ================================================================ pandas
def _chk(pa, fn, **kw):
    return pa.Check(fn, **{k: v for k, v in kw.items() if v is not None})


def pd_schema(pa, level, data, checks, groups_cols=False):
    dt = G.pd_dtype(data)
    gcol = (lambda: pa.Column()) if data.get("gcat") else (lambda: pa.Column(str))
    if level == "series":
        return pa.SeriesSchema(dt, checks=checks, nullable=True, name="v")
    if level == "column":
        cols = {"v": pa.Column(dt, checks=checks, nullable=True)}
        if groups_cols:
            cols["g"] = gcol()
            cols["h"] = pa.Column(bool if data.get("hbool") else int)
        return pa.DataFrameSchema(cols)
    cols = {"v": pa.Column(dt, nullable=True), "w": pa.Column(dt, nullable=True)}
    if groups_cols:
        cols["g"] = gcol()
        cols["h"] = pa.Column(bool if data.get("hbool") else int)
    return pa.DataFrameSchema(cols, checks=checks)


def warn_relation(J, P, W, tag="", what=None):
    """raise_warning=True never raises and warns exactly when the plain check
    (same function, same other options) fails."""
    J.ev(tag + "raise_warning:never-raises")
    J.ev(tag + "raise_warning:warns-iff-fails:" + P.verdict)
    extra = {"plain": P.brief(), "with_warning": W.brief()}
    if what:
        extra["variant"] = what
    if W.verdict != "accept":
        J.bad("raise_warning=True-but-validate-raised", extra)
    elif (W.n_warn >= 1) != (P.verdict == "reject"):
        J.bad("raise_warning-warned-iff-failed-broken", extra)
    elif P.n_warn:
        J.bad("plain-check-emitted-SchemaWarning", extra)
    else:
        return True
    return False


def _isnull(x):
    import pandas as pd
    return x is None or x is pd.NA or (isinstance(x, float) and x != x)


def _is_bool(x):
    import numpy as np
    return isinstance(x, (bool, np.bool_))


def pd_obj(level, data, groups_cols=False):
    if level == "series":
        return G.pd_frame(data, ("v",))["v"]
    if level == "column":
        return G.pd_frame(data, ("v", "g", "h") if groups_cols else ("v", "w"))
    return G.pd_frame(data, ("v", "w", "g", "h") if groups_cols else ("v", "w"))


def oracle(pred, data, ignore_na):
    """Documented verdict of an element-wise predicate on column v.
    -> (decided, passes, failing [(label, value)], n_nulls)"""
    f = G.py_pred(pred)
    labels = data["index"]["labels"]
    fails, nn = [], 0
    for lab, x in zip(labels, data["v"]):
        if G.is_null(x):
            nn += 1
            if ignore_na:
                continue
            if G.raises_on_null(pred, data["kind"], G.phys_of(data)):
                return False, None, None, nn     # function raises: not judged
            x = float("nan") if data["kind"] == "float" else None
        if not f(x):
            fails.append((repr(G.norm(lab)), repr(G.norm(x))))
    return True, not fails, fails, nn


def column_relations(run, rng, pa, level, pred, data, ignore_na, lazy):
    """Relations on a Column / SeriesSchema check.  Returns the Judge."""
    kind = data["kind"]
    J = Judge(run, {"backend": "pandas", "level": level, "pred": pred,
                    "data": data, "ignore_na": ignore_na, "lazy": lazy})
    obj = pd_obj(level, data)
    before = S.snap(obj)
    n_null = sum(1 for x in data["v"] if G.is_null(x))
    decided, exp_pass, exp_fails, _ = oracle(pred, data, ignore_na)

    # ---- variants
    recA = G.Rec(pred)
    A = observe(pd_schema(pa, level, data, [
        _chk(pa, recA, element_wise=True, ignore_na=ignore_na)]), obj, lazy)
    recB, shownB = G.Rec(pred), []

    def vec(s):
        shownB.append([G.norm(x) for x in s.tolist()])
        return s.map(recB)
    B = observe(pd_schema(pa, level, data, [
        _chk(pa, vec, ignore_na=ignore_na)]), obj, lazy)

    # R-ew-map: element_wise(f) == vectorised(map f)
    J.ev("element_wise==map")
    if A.verdict != B.verdict or sorted(A.cells) != sorted(B.cells) \
            or A.reasons != B.reasons:
        J.bad("element_wise-differs-from-vectorised-map",
              {"element_wise": A.brief(), "vectorised_map": B.brief()})
    if Counter(map(repr, recA.calls)) != Counter(map(repr, recB.calls)):
        J.bad("element_wise-shows-other-elements-than-vectorised-map",
              {"element_wise_calls": recA.calls, "map_calls": recB.calls})

    # R-oracle: verdict and failing elements are those of "all elements
    # satisfy f" (nulls skipped when ignore_na)
    if decided:
        for name, o in (("element_wise", A), ("vectorised_map", B)):
            J.ev(f"{name}==all(f(x))")
            if o.verdict != ("accept" if exp_pass else "reject"):
                J.bad(f"{name}-verdict-differs-from-all-elements",
                      {"expected_pass": exp_pass, "expected_fails": exp_fails,
                       "observed": o.brief()})
            elif not exp_pass and ignore_na and o.only_check and not o.scalar:
                J.ev(f"{name}:failure_cases==failing-elements")
                if sorted(o.cells) != sorted(exp_fails):
                    J.bad(f"{name}-failure-cases-differ-from-failing-elements",
                          {"expected_fails": exp_fails, "observed": o.brief()})
    else:
        J.und("ignore_na=False-with-function-raising-on-null")

    # R-na: nulls hidden / shown
    if n_null:
        if ignore_na:
            J.ev("ignore_na=True:nulls-hidden")
            if recA.nulls_seen() or any(None in s for s in shownB):
                J.bad("ignore_na=True-but-function-was-shown-a-null",
                      {"element_wise_calls": recA.calls, "vectorised_input": shownB})
            J.ev("ignore_na=True:nulls-never-fail")
            d2 = G.drop_null_rows(data)
            B2 = observe(pd_schema(pa, level, data, [
                _chk(pa, lambda s: s.map(G.py_pred(pred)), ignore_na=True)]),
                pd_obj(level, d2), lazy)
            if B2.verdict != B.verdict:
                J.bad("ignore_na=True-verdict-changes-when-null-rows-are-removed",
                      {"with_nulls": B.brief(), "without": B2.brief()})
        else:
            J.ev("ignore_na=False:nulls-shown")
            total = not G.raises_on_null(pred, kind, G.phys_of(data))
            okA = recA.nulls_seen() == n_null if total else recA.nulls_seen() >= 1
            okB = any(s.count(None) == n_null for s in shownB)
            if not okA or not okB:
                J.bad("ignore_na=False-but-nulls-were-not-shown",
                      {"element_wise_calls": recA.calls, "vectorised_input": shownB,
                       "n_null": n_null})

    # R-native / R-scalar: other output kinds of the same predicate
    nat = G.native_pandas(pred)
    if nat is not None and ignore_na:
        try:                       # e.g. `%` is not implemented by pyarrow
            nat(pd_obj("series", G.drop_null_rows(data)))
        except Exception:  # noqa: BLE001
            J.und("native-function-not-supported-by-the-dtype")
            nat = None
    if nat is not None and ignore_na:
        J.ev("native-vectorised==all(f(x))")
        C = observe(pd_schema(pa, level, data, [_chk(pa, nat, ignore_na=True)]),
                    obj, lazy)
        if C.verdict != ("accept" if exp_pass else "reject"):
            J.bad("native-vectorised-verdict-differs",
                  {"expected_pass": exp_pass, "observed": C.brief()})
        elif not exp_pass and sorted(C.cells) != sorted(exp_fails):
            J.bad("native-vectorised-failure-cases-differ",
                  {"expected_fails": exp_fails, "observed": C.brief()})
    # R-scalar: functions returning ONE bool (aggregates, built-ins with a
    # scalar result, bool Series that cannot be aligned with the data), with
    # and without raise_warning / n_failure_cases
    scalar_relations(J, rng, pa, level, pred, data, ignore_na, lazy, obj)

    # R-nfc: n_failure_cases never changes the verdict; reports a subset
    # (the options are combined with the element-wise or the vectorised
    # variant of the check; the plain run of the same variant is the reference)
    k = rng.choice([1, 1, 2, 3])
    f = G.py_pred(pred)
    ew = rng.random() < 0.35
    run.count("options-on:" + ("element_wise" if ew else "vectorised_map"))

    def opt_chk(**opts):
        if ew:
            return _chk(pa, f, element_wise=True, ignore_na=ignore_na, **opts)
        return _chk(pa, lambda s: s.map(f), ignore_na=ignore_na, **opts)
    if ew:
        B = A
    K = observe(pd_schema(pa, level, data, [opt_chk(n_failure_cases=k)]),
                obj, lazy)
    same_report = nfc_verdict(J, B, K, data, k, "")
    if same_report and B.verdict == "reject" and B.only_check \
            and not B.scalar and B.cells:
        J.ev("n_failure_cases:subset")
        full, got = Counter(B.cells), Counter(K.cells)
        if got - full:
            J.bad("n_failure_cases-reports-cases-that-did-not-fail",
                  {"k": k, "plain": B.brief(), "with_k": K.brief()})
        vals = [c[1] for c in B.cells]
        if len(set(vals)) == len(vals):
            # all failing values distinct: "first n unique failure cases"
            # and "first n failure cases" coincide
            J.ev("n_failure_cases:first-k")
            if K.cells != B.cells[:k]:
                J.bad("n_failure_cases-does-not-report-the-first-k",
                      {"k": k, "plain": B.brief(), "with_k": K.brief()})
        else:
            J.und("n_failure_cases-prefix-with-repeated-failing-values")

    # R-warn: raise_warning never raises, warns iff the plain check fails
    if B.check_error or B.verdict == "exc":
        J.und("raise_warning-when-the-function-raises")
    else:
        W = observe(pd_schema(pa, level, data, [opt_chk(raise_warning=True)]),
                    obj, lazy)
        if warn_relation(J, B, W) and S.diff(before, S.snap(W.out.result)):
            J.bad("raise_warning-returned-object-differs-from-input", {})
        if rng.random() < 0.4:
            WK = observe(pd_schema(pa, level, data, [
                opt_chk(raise_warning=True, n_failure_cases=k)]), obj, lazy)
            warn_relation(J, B, WK, "", "raise_warning+n_failure_cases")

    if S.diff(before, S.snap(obj)):
        J.bad("check-modified-the-validated-object(C04)", {})
    return J


SCALAR_FORMS = ["all-py", "all-np", "count-py", "reindexed-series",
                "short-series", "unique_values_eq", "unique_values_eq"]


def scalar_relations(J, rng, pa, level, pred, data, ignore_na, lazy, obj):
    """Check functions whose output is a single bool (docs/source/checks.md:
    'output a boolean or a Series of boolean values'): the verdict is that
    bool, computed on the documented input; raise_warning / n_failure_cases
    behave as for any other check.  One form per case."""
    import pandas as pd
    kind = data["kind"]
    f = G.py_pred(pred)
    agg = G.agg_pandas(pred, kind)
    form = rng.choice(SCALAR_FORMS + (["agg"] * 3 if agg else []))
    k = rng.choice([1, 2])
    n_null = sum(1 for x in data["v"] if G.is_null(x))
    J.run.count(f"scalar:form:{form}")
    builtin = form == "unique_values_eq"
    if builtin:
        nonnull = [x for x in data["v"] if not G.is_null(x)]
        pool = G.pool_of(kind, G.phys_of(data))
        values = sorted(set(nonnull)) if rng.random() < 0.55 else \
            rng.sample(pool, rng.randint(0, min(3, len(pool))))
        F = None
    else:
        values = None
        F = {
            "all-py": lambda s: bool(s.map(f).all()),
            "all-np": lambda s: s.map(f).astype(bool).all(),
            "count-py": lambda s: int((~s.map(f).astype(bool)).sum()) == 0,
            "agg": agg,
            "reindexed-series": lambda s: pd.Series(
                s.map(f).to_numpy(dtype=bool),
                index=["x%d" % i for i in range(len(s))]),
            "short-series": lambda s: s.map(f).astype(bool).iloc[:len(s) // 2],
        }[form]
    extra = {"scalar_form": form, "values": values, "k": k}

    def variant(**opts):
        store = {"in": [], "out": [], "raised": 0}
        if builtin:
            chk = pa.Check.unique_values_eq(values, ignore_na=ignore_na, **opts)
        else:
            def fn(s):
                store["in"].append([G.norm(x) for x in s.tolist()])
                try:
                    r = F(s)
                except Exception:
                    store["raised"] += 1
                    raise
                store["out"].append(r)
                return r
            fn.__name__ = "scalar_" + form.replace("-", "_")
            chk = _chk(pa, fn, ignore_na=ignore_na, **opts)
        return observe(pd_schema(pa, level, data, [chk]), obj, lazy), store

    P, sP = variant()
    # -- the verdict is the function's bool on the documented input
    exp = None                     # None: not decided
    if form == "short-series":
        J.und("bool-series-of-other-length-than-the-data:verdict")
    elif builtin:
        if ignore_na or not n_null:
            exp = set(nonnull) == set(values)
        else:
            J.und("unique_values_eq-with-ignore_na=False-on-nulls")
    else:
        doc_in = pd_obj("series", G.drop_null_rows(data) if ignore_na else data)
        try:
            r = F(doc_in)
            if _is_bool(r):
                exp = bool(r)
            elif isinstance(r, pd.Series) and r.dtype == bool:
                exp = bool(r.all())
            else:
                J.und("scalar-function-output-is-not-a-bool")
        except Exception:  # noqa: BLE001
            J.und("scalar-function-raises-on-the-documented-input")
    if exp is not None:
        J.ev("scalar-output==F(documented-input)")
        J.ev(f"scalar-output==F(documented-input):{form}")
        if P.verdict != ("accept" if exp else "reject") or P.check_error:
            J.bad("scalar-output-verdict-differs",
                  dict(extra, expected_pass=exp, observed=P.brief(),
                       shown=sP["in"]))
    if not builtin and len(sP["out"]) == 1 and _is_bool(sP["out"][0]) \
            and not P.check_error:
        J.ev("scalar-output:verdict==returned-bool")
        J.run.count("scalar:returned:" + ("python-bool" if isinstance(sP["out"][0], bool) else "numpy-bool"))
        if (P.verdict == "accept") != bool(sP["out"][0]):
            J.bad("scalar-output-verdict-differs-from-the-returned-bool",
                  dict(extra, returned=bool(sP["out"][0]), observed=P.brief()))
    if not builtin and n_null:
        if ignore_na:
            J.ev("scalar-output:ignore_na=True:nulls-hidden")
            if any(None in x for x in sP["in"]):
                J.bad("ignore_na=True-but-function-was-shown-a-null",
                      dict(extra, vectorised_input=sP["in"]))
        else:
            J.ev("scalar-output:ignore_na=False:nulls-shown")
            if not any(x.count(None) == n_null for x in sP["in"]):
                J.bad("ignore_na=False-but-nulls-were-not-shown",
                      dict(extra, vectorised_input=sP["in"], n_null=n_null))
    # -- options on a single-bool check
    K, _ = variant(n_failure_cases=k)
    J.ev("scalar-output:n_failure_cases:verdict-unchanged")
    if (K.verdict, K.reasons) != (P.verdict, P.reasons):
        J.bad("n_failure_cases-changes-the-verdict",
              dict(extra, plain=P.brief(), with_k=K.brief()))
    if P.check_error or P.verdict == "exc":
        J.und("raise_warning-when-the-function-raises")
        return
    W, _ = variant(raise_warning=True)
    warn_relation(J, P, W, "scalar-output:", dict(extra, opts="raise_warning"))
    if rng.random() < 0.5:
        WK, _ = variant(raise_warning=True, n_failure_cases=k)
        warn_relation(J, P, WK, "scalar-output:",
                      dict(extra, opts="raise_warning+n_failure_cases"))


# ---------------------------------------------------------------- groupby
def expected_groups(data, by, groups, cols=("v",), drop_null_in=()):
    """Pure-Python group-by: key -> [[label, value, ...]] in row order; rows
    with a null in one of ``drop_null_in`` are removed first.  A CATEGORICAL
    grouping column contributes every category (restricted by ``groups``), the
    ones without rows as empty groups."""
    out = {}
    if list(by) == ["g"] and data.get("gcat"):
        for c in data["gcat"]:
            if groups is None or c in groups:
                out[repr(G.norm(c))] = []
    labels = data["index"]["labels"]
    for i in range(len(data["v"])):
        key = tuple(data[c][i] for c in by)
        key = key[0] if len(by) == 1 else key
        if groups is not None and key not in groups:
            continue
        if any(G.is_null(data[c][i]) for c in drop_null_in):
            continue
        out.setdefault(repr(G.norm(key)), []).append(
            [repr(G.norm(labels[i]))] + [repr(G.norm(data[c][i])) for c in cols])
    return out


def groupby_plan(rng, level, data):
    """The option values of one groupby case (JSON-able, replayable)."""
    n = len(data["v"])
    two = level == "column" and rng.random() < 0.3
    if two:
        by = ["g", "h"]
        form = rng.choice(["list", "callable"])
    else:
        by = ["g"] if rng.random() < 0.7 else ["h"]
        form = rng.choice(["str", "list", "callable", "callable_scalar"])
    ignore_na = rng.random() < 0.7
    nullcols = ("v",) if level == "column" else ("v", "w")
    groups, named_emptied = None, False
    if not two and rng.random() < 0.5:
        col = by[0]
        dropped = [ignore_na and any(G.is_null(data[c][i]) for c in nullcols)
                   for i in range(n)]
        surviving = sorted({data[col][i] for i in range(n) if not dropped[i]})
        emptied = sorted({data[col][i] for i in range(n)} - set(surviving))
        cats = data.get("gcat") if col == "g" else None
        # a categorical column has every category as a group, with or without
        # rows.  Otherwise `groups` may only name groups that exist; whether
        # a group whose elements are all null still "exists" under
        # ignore_na=True is not documented: named rarely, never judged
        cand = list(cats) if cats else surviving
        if not cats and emptied and rng.random() < 0.15:
            cand, named_emptied = emptied, True
        if cand:
            sel = rng.sample(cand, rng.randint(1, min(2, len(cand))))
            groups = sel[0] if (len(sel) == 1 and isinstance(sel[0], str)
                                and rng.random() < 0.5) else sel
    return {"two": two, "by": by, "form": form, "ignore_na": ignore_na,
            "groups": groups, "named_emptied": named_emptied,
            "ret": rng.choice(["py", "np", "series"]),
            "rule": rng.choice(["elements", "elements", "nonempty"]),
            "k": rng.choice([1, 2])}


def groupby_relations(run, rng, pa, level, pred, data, lazy, force=None):
    """groupby hands the function exactly the groups of the grouping columns
    (restricted by ``groups``); a groupby function returns one bool (or one
    bool per group) which is the verdict, also under raise_warning /
    n_failure_cases.  ``force`` (replay): the witness' plan."""
    import numpy as np
    import pandas as pd
    n = len(data["v"])
    plan = groupby_plan(rng, level, data)
    if force:
        plan.update(force)
    two, by, form = plan["two"], list(plan["by"]), plan["form"]
    ignore_na, groups = plan["ignore_na"], plan["groups"]
    groupby = {"str": by[0], "list": list(by),
               "callable": (lambda df: df.groupby(list(by))),
               "callable_scalar": (lambda df: df.groupby(by[0]))}[form]
    nullcols = ("v",) if level == "column" else ("v", "w")
    glist = None if groups is None else (groups if isinstance(groups, list)
                                         else [groups])
    J = Judge(run, {"backend": "pandas", "level": level, "pred": pred,
                    "data": data, "groupby": form, "two_columns": two,
                    "groups": groups, "ignore_na": ignore_na, "lazy": lazy,
                    "plan": plan})
    cols = ("v",) if level == "column" else ("v", "w", "g")
    f = G.py_pred(pred)
    categorical = bool(data.get("gcat")) and "g" in by
    keykind = ("categorical" if categorical else "str") if by[0] == "g" \
        else ("bool" if data.get("hbool") else "int")

    def make_fn(store, ret, rule):
        def fn(d):
            rec, per = {}, []
            for key, part in d.items():
                rows = []
                if isinstance(part, pd.Series):
                    vals = part.tolist()
                    for lab, x in zip(part.index.tolist(), vals):
                        rows.append([repr(G.norm(lab)), repr(G.norm(x))])
                else:
                    vals = part["v"].tolist()
                    for lab, r in zip(part.index.tolist(),
                                      part[list(cols)].values.tolist()):
                        rows.append([repr(G.norm(lab))] + [repr(G.norm(x)) for x in r])
                rec[repr(G.norm(key))] = rows
                per.append(len(vals) > 0 if rule == "nonempty" else
                           all(f(x) for x in vals if not _isnull(x)))
            out = {"type": type(d).__name__, "groups": rec, "ret": all(per)}
            store.append(out)
            if ret == "true":
                return True
            if ret == "series":
                return pd.Series(per, dtype=bool)
            return bool(all(per)) if ret == "py" else np.bool_(all(per))
        return fn

    def variant(ret, rule, **opts):
        store = []
        chk = _chk(pa, make_fn(store, ret, rule), groupby=groupby,
                   groups=groups, ignore_na=ignore_na, **opts)
        return observe(pd_schema(pa, level, data, [chk], groups_cols=True),
                       pd_obj(level, data, groups_cols=True), lazy), store

    O, shown = variant("true", "elements")
    J.ev("groupby:exact-groups")
    run.count(f"groupby:form:{form}:{'2col' if two else '1col'}:"
              f"{'groups' if groups is not None else 'all'}")
    run.count(f"groupby:keys:{keykind}")
    if plan["named_emptied"]:
        J.und("groupby:groups-names-a-group-emptied-by-ignore_na")
        return J
    if O.verdict != "accept" or len(shown) != 1:
        mech = None
        if form == "callable_scalar" and keykind in ("int", "bool") and \
                O.check_error and "has no len()" in O.error_text:
            mech = M_SCALAR_KEY
        J.bad("groupby-check-did-not-run-once-and-pass",
              {"observed": O.brief(), "calls": len(shown),
               "error": O.error_text[:300]}, mech)
        return J
    got = shown[0]["groups"]
    has_null = any(G.is_null(data[c][i]) for c in nullcols for i in range(n))
    want_keep = expected_groups(data, by, glist, cols)
    want = expected_groups(data, by, glist, cols, nullcols) \
        if ignore_na else want_keep
    n_empty = sum(1 for v in want.values() if not v)
    if n_empty:
        run.count("groupby:case-with-empty-groups")
        if glist is not None and all(not want.get(repr(G.norm(x))) for x in glist):
            run.count("groupby:groups-names-only-empty-groups")
    if any(G.is_null(x) for x in data["v"]) and ignore_na and \
            len(want_keep) > sum(1 for v in want.values() if v):
        run.count("groupby:case-with-a-group-emptied-by-ignore_na")
    cmp_got = got
    if categorical and two:
        # two grouping columns, one categorical: which combinations without
        # rows are groups is pandas' choice and not documented; the groups
        # WITH rows are judged
        J.und("groupby:empty-category-combinations-of-two-columns")
        cmp_got = {k: v for k, v in got.items() if v}
        want = {k: v for k, v in want.items() if v}
        want_keep = {k: v for k, v in want_keep.items() if v}
    if n_empty and not (categorical and two):
        J.ev("groupby:empty-groups-handed-over")
    if ignore_na and has_null:
        # documented: nulls are dropped before the function sees the data
        # (column: null elements; dataframe: rows with any null)
        J.ev("groupby:ignore_na=True:nulls-hidden")
        if cmp_got != want:
            if cmp_got == want_keep:
                J.bad("groupby-with-ignore_na=True-shows-nulls-to-the-function",
                      {"shown": got, "expected": want},
                      M_GROUPBY_NULLS if level == "column" else M_FRAME_NULLS)
            else:
                J.bad("groupby-groups-differ", {"shown": got, "expected": want})
            return J
    elif cmp_got != want_keep:
        J.bad("groupby-groups-differ", {"shown": got, "expected": want_keep})
        return J

    # ---- the function's single bool (or one bool per group) is the verdict;
    # raise_warning / n_failure_cases on such a check
    ret, rule, k = plan["ret"], plan["rule"], plan["k"]
    run.count(f"groupby:returns:{ret}:{rule}")
    P, sP = variant(ret, rule)
    obs = [("plain", P, sP)]
    K, sK = variant(ret, rule, n_failure_cases=k)
    obs.append(("n_failure_cases", K, sK))
    J.ev("groupby:verdict==returned-bool")
    if len(sP) != 1 or P.check_error or \
            (P.verdict == "accept") != sP[0]["ret"]:
        J.bad("groupby-verdict-differs-from-the-returned-bool",
              {"returned": [x["ret"] for x in sP], "returns": ret,
               "observed": P.brief()})
        return J
    J.ev("groupby:n_failure_cases:verdict-unchanged")
    if (K.verdict, K.reasons) != (P.verdict, P.reasons):
        J.bad("n_failure_cases-changes-the-verdict",
              {"k": k, "returns": ret, "plain": P.brief(), "with_k": K.brief()})
    W, sW = variant(ret, rule, raise_warning=True)
    obs.append(("raise_warning", W, sW))
    warn_relation(J, P, W, "groupby:", {"returns": ret, "rule": rule})
    if rng.random() < 0.4:
        WK, sWK = variant(ret, rule, raise_warning=True, n_failure_cases=k)
        obs.append(("raise_warning+n_failure_cases", WK, sWK))
        warn_relation(J, P, WK, "groupby:", {"returns": ret, "rule": rule,
                                             "opts": "+n_failure_cases"})
    J.ev("groupby:options-do-not-change-the-groups")
    for name, _, st in obs:
        if len(st) != 1 or st[0]["groups"] != got:
            J.bad("groupby-option-changes-the-groups-shown",
                  {"option": name, "shown": [x["groups"] for x in st],
                   "without": got})
            break
    return J


# ---------------------------------------------------------------- frame level
def frame_relations(run, rng, pa, pred, data, ignore_na, lazy):
    """DataFrameSchema-level checks: element_wise=True applies f to each row;
    ignore_na drops rows with any null (docs/source/checks.md)."""
    kind = data["kind"]
    J = Judge(run, {"backend": "pandas", "level": "frame", "pred": pred,
                    "data": data, "ignore_na": ignore_na, "lazy": lazy})
    obj = pd_obj("frame", data)
    f = G.py_pred(pred)
    n = len(data["v"])
    # rows whose tested element (column v) is null: the statement ("null
    # elements are never shown / never cause failure") and the docs ("rows
    # with any null value are dropped") agree on these.  Rows where only the
    # other column is null are covered by the docs alone and are not judged.
    null_rows = [i for i in range(n) if G.is_null(data["v"][i])]
    rowsA, rowsB, framesB = [], [], []
    labelset = {repr(G.norm(x)) for x in data["index"]["labels"]}

    def rowf(store):
        def g(r):
            # rows are recognised by their label: on an empty frame pandas'
            # DataFrame.apply calls the function once with a dummy NaN row
            if repr(G.norm(r.name)) in labelset:
                store.append([G.norm(r["v"]), G.norm(r["w"])])
            return f(r["v"])
        return g

    def vecB(df):
        framesB.append(df[["v", "w"]].values.tolist())
        return df.apply(rowf(rowsB), axis=1)
    A = observe(pd_schema(pa, "frame", data, [
        _chk(pa, rowf(rowsA), element_wise=True, ignore_na=ignore_na)]), obj, lazy)
    B = observe(pd_schema(pa, "frame", data, [
        _chk(pa, vecB, ignore_na=ignore_na)]), obj, lazy)
    J.ev("frame:element_wise==row-map")
    if A.verdict != B.verdict or A.reasons != B.reasons or \
            sorted(A.cells) != sorted(B.cells) or \
            Counter(map(repr, rowsA)) != Counter(map(repr, rowsB)):
        J.bad("frame-element_wise-differs-from-row-map",
              {"element_wise": A.brief(), "row_map": B.brief(),
               "rows_element_wise": rowsA, "rows_map": rowsB})
    if null_rows and ignore_na:
        J.ev("frame:ignore_na=True:null-rows-hidden")
        if any(r[0] is None for r in rowsA):
            J.bad("frame-check-ignore_na=True-but-function-was-shown-null-rows",
                  {"rows_shown": rowsA}, M_FRAME_NULLS)
        J.ev("frame:ignore_na=True:nulls-never-fail")
        d2 = G.drop_null_rows(data, ("v",))
        A2 = observe(pd_schema(pa, "frame", data, [
            _chk(pa, rowf([]), element_wise=True, ignore_na=True)]),
            pd_obj("frame", d2), lazy)
        if A2.verdict != A.verdict:
            # a row with a null decided the verdict
            J.bad("frame-check-ignore_na=True-verdict-decided-by-null-rows",
                  {"with_null_rows": A.brief(), "without": A2.brief()},
                  (M_FRAME_NULLS if A.check_error else M_FRAME_VERDICT)
                  if A.verdict == "reject" and A2.verdict == "accept"
                  else None)
    elif null_rows:
        J.ev("frame:ignore_na=False:null-rows-shown")
        if sum(1 for r in rowsA if r[0] is None) != len(null_rows) and \
                not G.raises_on_null(pred, kind, G.phys_of(data)):
            J.bad("frame-check-ignore_na=False-but-null-rows-not-shown",
                  {"rows_shown": rowsA})
    # options on a frame-level check
    k = rng.choice([1, 2])
    K = observe(pd_schema(pa, "frame", data, [
        _chk(pa, lambda df: df.apply(lambda r: f(r["v"]), axis=1),
             ignore_na=ignore_na, n_failure_cases=k)]), obj, lazy)
    nfc_verdict(J, B, K, data, k, "frame:")
    if not (B.check_error or B.verdict == "exc"):
        W = observe(pd_schema(pa, "frame", data, [
            _chk(pa, lambda df: df.apply(lambda r: f(r["v"]), axis=1),
                 ignore_na=ignore_na, raise_warning=True)]), obj, lazy)
        warn_relation(J, B, W)

    # ---- dataframe-level functions returning ONE bool / a bool DataFrame:
    # the returned value is the verdict (nulls are skipped by the function
    # itself, what it is shown is judged above); raise_warning and
    # n_failure_cases on such a check
    import numpy as np
    form = rng.choice(["scalar-py", "scalar-np", "dataframe"])
    run.count(f"frame:returns:{form}")

    def variant(**opts):
        store = []

        def fn(df):
            if form == "dataframe":
                out = df.map(lambda x: True if _isnull(x) else bool(f(x)))
                out = out.astype(bool)
                store.append(bool(out.all(axis=None)))
                return out
            r = all(f(x) for x in df["v"].tolist() if not _isnull(x))
            store.append(r)
            return bool(r) if form == "scalar-py" else np.bool_(r)
        fn.__name__ = "frame_" + form.replace("-", "_")
        return observe(pd_schema(pa, "frame", data, [
            _chk(pa, fn, ignore_na=ignore_na, **opts)]), obj, lazy), store
    P, sP = variant()
    J.ev("frame:verdict==returned-bool")
    if len(sP) == 1 and P.check_error:
        # the function returned its bool(s); pandera then failed to turn the
        # result into a verdict / failure cases and blames the function (with
        # raise_warning=True this raises instead of warning)
        arrow = form == "dataframe" and \
            G.phys_of(data).endswith("[pyarrow]") and not sP[0] and \
            "ArrowNotImplementedError" in P.error_text and \
            "Unsupported cast from struct" in P.error_text
        J.bad("frame-check-crashes-after-the-function-returned",
              {"returns": form, "returned": sP, "observed": P.brief(),
               "error": P.error_text[:300]}, M_ARROW_TABLE if arrow else None)
        return J
    if len(sP) != 1 or (P.verdict == "accept") != sP[0]:
        J.bad("frame-check-verdict-differs-from-the-returned-bool",
              {"returns": form, "returned": sP, "observed": P.brief()})
        return J
    K, _ = variant(n_failure_cases=k)
    J.ev("frame:returns-bool:n_failure_cases:verdict-unchanged")
    if (K.verdict, K.reasons) != (P.verdict, P.reasons):
        J.bad("n_failure_cases-changes-the-verdict",
              {"k": k, "returns": form, "plain": P.brief(), "with_k": K.brief()})
    W, _ = variant(raise_warning=True)
    warn_relation(J, P, W, "frame:returns-bool:", {"returns": form})
    if rng.random() < 0.4:
        WK, _ = variant(raise_warning=True, n_failure_cases=k)
        warn_relation(J, P, WK, "frame:returns-bool:",
                      {"returns": form, "opts": "+n_failure_cases"})
    return J


# ================================================================ aliases
ALIASES = [
    ("eq", "equal_to", "value1"), ("ne", "not_equal_to", "value1"),
    ("gt", "greater_than", "value1"), ("ge", "greater_than_or_equal_to", "value1"),
    ("lt", "less_than", "value1"), ("le", "less_than_or_equal_to", "value1"),
    ("between", "in_range", "range"),
]


def gen_alias(rng, kind):
    alias, canon, shape = rng.choice(ALIASES)
    pool = G.POOL[kind]
    if shape == "value1":
        args, kwargs = [rng.choice(pool)], {}
    else:
        lo, hi = sorted(rng.sample(pool, 2))
        args = [lo, hi]
        kwargs = {}
        r = rng.random()
        if r < 0.3:
            args += [rng.random() < 0.5, rng.random() < 0.5]   # positional
        elif r < 0.7:
            kwargs = {"include_min": rng.random() < 0.5,
                      "include_max": rng.random() < 0.5}
    opts = {}
    if rng.random() < 0.3:
        opts["ignore_na"] = False
    if rng.random() < 0.3:
        opts["n_failure_cases"] = rng.choice([1, 2])
    if rng.random() < 0.2:
        opts["raise_warning"] = True
    if rng.random() < 0.2:
        opts["name"] = "custom"
    return {"alias": alias, "canonical": canon, "args": args,
            "kwargs": kwargs, "opts": opts}


def alias_relations(run, rng, pa, pp, spec, data, level, lazy):
    kind = data["kind"]
    J = Judge(run, {"alias": spec, "data": data, "level": level, "lazy": lazy})

    def mk(mod, name):
        return getattr(mod.Check, name)(*spec["args"], **spec["kwargs"],
                                        **spec["opts"])
    a, c = mk(pa, spec["alias"]), mk(pa, spec["canonical"])
    J.ev("alias:same-check-object")
    run.count(f"alias:{spec['alias']}")
    same = (a == c and a.name == c.name and a.error == c.error
            and a.statistics == c.statistics and a.ignore_na == c.ignore_na
            and a.n_failure_cases == c.n_failure_cases
            and a.raise_warning == c.raise_warning)
    if not same:
        J.bad("alias-builds-a-different-check",
              {"alias_repr": repr(a), "canonical_repr": repr(c),
               "alias_stats": a.statistics, "canonical_stats": c.statistics})
    obj = pd_obj(level, data)
    oa = observe(pd_schema(pa, level, data, [a]), obj, lazy)
    oc = observe(pd_schema(pa, level, data, [c]), obj, lazy)
    J.ev("alias:same-outcome:pandas")
    if (oa.verdict, oa.reasons, oa.cells, oa.n_warn) != \
            (oc.verdict, oc.reasons, oc.cells, oc.n_warn):
        J.bad("alias-outcome-differs-from-canonical",
              {"backend": "pandas", "alias_outcome": oa.brief(),
               "canonical_outcome": oc.brief()})
    # independent reading of the canonical semantics
    f = {"eq": lambda x, v: x == v, "ne": lambda x, v: x != v,
         "gt": lambda x, v: x > v, "ge": lambda x, v: x >= v,
         "lt": lambda x, v: x < v, "le": lambda x, v: x <= v}
    if spec["opts"].get("ignore_na", True) and not spec["opts"].get("raise_warning"):
        J.ev("alias:documented-semantics")
        if spec["alias"] == "between":
            lo, hi = spec["args"][:2]
            imin = spec["kwargs"].get("include_min",
                                      spec["args"][2] if len(spec["args"]) > 2 else True)
            imax = spec["kwargs"].get("include_max",
                                      spec["args"][3] if len(spec["args"]) > 3 else True)
            ok = lambda x: (x >= lo if imin else x > lo) and \
                (x <= hi if imax else x < hi)                       # noqa: E731
        else:
            v = spec["args"][0]
            ok = lambda x: f[spec["alias"]](x, v)                    # noqa: E731
        exp = all(ok(x) for x in data["v"] if not G.is_null(x))
        if oa.verdict != ("accept" if exp else "reject"):
            J.bad("alias-verdict-differs-from-documented-semantics",
                  {"backend": "pandas", "expected_pass": exp,
                   "alias_outcome": oa.brief()})
    if level == "column":
        import polars as pl  # noqa: F401
        pa_, pc_ = mk(pp, spec["alias"]), mk(pp, spec["canonical"])
        sch = lambda chk: pp.DataFrameSchema(                        # noqa: E731
            {"v": pp.Column(G.pl_dtype(kind), checks=[chk], nullable=True)})
        pobj = G.pl_frame(data, ("v",))
        qa, qc = observe_pl(sch(pa_), pobj, lazy), observe_pl(sch(pc_), pobj, lazy)
        J.ev("alias:same-outcome:polars")
        if (qa.verdict, qa.reasons, qa.cells, qa.n_warn) != \
                (qc.verdict, qc.reasons, qc.cells, qc.n_warn):
            J.bad("alias-outcome-differs-from-canonical",
                  {"backend": "polars", "alias_outcome": qa.brief(),
                   "canonical_outcome": qc.brief()})
    return J


# ================================================================ polars
def polars_relations(run, rng, pp, pred, data, ignore_na, lazy):
    import polars as pl
    kind = data["kind"]
    J = Judge(run, {"backend": "polars", "level": "column", "pred": pred,
                    "data": data, "ignore_na": ignore_na, "lazy": lazy})
    obj = G.pl_frame(data, ("v", "w"))
    n_null = sum(1 for x in data["v"] if G.is_null(x))
    f = G.py_pred(pred)
    exp_fail_vals = sorted(repr([G.norm(x)]) for x in data["v"]
                           if not G.is_null(x) and not f(x))
    exp_pass = not exp_fail_vals

    def sch(chk):
        return pp.DataFrameSchema(
            {"v": pp.Column(G.pl_dtype(kind), checks=[chk], nullable=True)})
    recA = G.Rec(pred)
    A = observe_pl(sch(pp.Check(recA, element_wise=True, ignore_na=ignore_na)),
                   obj, lazy)
    recB = G.Rec(pred)
    B = observe_pl(sch(pp.Check(
        lambda d: d.lazyframe.select(
            pl.col(d.key).map_elements(recB, return_dtype=pl.Boolean)),
        ignore_na=ignore_na)), obj, lazy)
    J.ev("polars:element_wise==map")
    if A.verdict != B.verdict or A.reasons != B.reasons or \
            sorted(A.cells) != sorted(B.cells):
        J.bad("element_wise-differs-from-vectorised-map",
              {"element_wise": A.brief(), "vectorised_map": B.brief()})
    if ignore_na or not n_null:
        for name, o in (("element_wise", A), ("vectorised_map", B)):
            J.ev(f"polars:{name}==all(f(x))")
            if o.verdict != ("accept" if exp_pass else "reject"):
                J.bad(f"{name}-verdict-differs-from-all-elements",
                      {"expected_pass": exp_pass, "observed": o.brief()})
            elif not exp_pass and o.only_check and \
                    sorted(c[1] for c in o.cells) != exp_fail_vals:
                J.bad(f"{name}-failure-cases-differ-from-failing-elements",
                      {"expected": exp_fail_vals, "observed": o.brief()})
        nat = G.native_polars(pred, kind)
        if nat is not None:
            J.ev("polars:native-expression==all(f(x))")
            C = observe_pl(sch(pp.Check(
                lambda d: d.lazyframe.select(nat(pl.col(d.key))),
                ignore_na=ignore_na)), obj, lazy)
            if C.verdict != ("accept" if exp_pass else "reject"):
                J.bad("native-vectorised-verdict-differs",
                      {"expected_pass": exp_pass, "observed": C.brief()})
    if n_null and ignore_na:
        J.ev("polars:ignore_na=True:nulls-hidden")
        if recA.nulls_seen():
            J.bad("ignore_na=True-but-function-was-shown-a-null",
                  {"element_wise_calls": recA.calls})
    elif n_null:
        # the polars page says part of the pandas functionality is not yet
        # supported without listing it: what ignore_na=False shows is not judged
        J.und("polars:ignore_na=False-shown-to-function")
    # n_failure_cases: the verdict never changes (truncation itself is not
    # judged for polars, same reason)
    k = rng.choice([1, 2])
    nat = G.native_polars(pred, kind)
    mkfn = (lambda d: d.lazyframe.select(nat(pl.col(d.key)))) if nat else \
        (lambda d: d.lazyframe.select(
            pl.col(d.key).map_elements(f, return_dtype=pl.Boolean)))
    P = observe_pl(sch(pp.Check(mkfn, ignore_na=ignore_na)), obj, lazy)
    K = observe_pl(sch(pp.Check(mkfn, ignore_na=ignore_na, n_failure_cases=k)),
                   obj, lazy)
    J.ev("polars:n_failure_cases:verdict-unchanged")
    if K.verdict != P.verdict or K.reasons != P.reasons:
        J.bad("n_failure_cases-changes-the-verdict",
              {"k": k, "plain": P.brief(), "with_k": K.brief()})
    elif P.verdict == "reject" and len(K.cells) > k:
        J.und("polars:n_failure_cases-truncation")
    if not (P.check_error or P.verdict == "exc"):
        W = observe_pl(sch(pp.Check(mkfn, ignore_na=ignore_na,
                                    raise_warning=True)), obj, lazy)
        J.ev("polars:raise_warning:never-raises")
        J.ev("polars:raise_warning:warns-iff-fails:" + P.verdict)
        if W.verdict != "accept":
            J.bad("raise_warning=True-but-validate-raised",
                  {"plain": P.brief(), "with_warning": W.brief()})
        elif (W.n_warn >= 1) != (P.verdict == "reject"):
            J.bad("raise_warning-warned-iff-failed-broken",
                  {"plain": P.brief(), "with_warning": W.brief()})
    # single-bool outputs (docs/source/polars.md: 'a LazyFrame with a single
    # boolean scalar', `.all()` style).  A Python bool output is accepted by
    # the backend but not documented: its verdict is not judged, only that
    # raise_warning relates to the plain run as for every check.
    form = rng.choice(["lazyframe-scalar", "lazyframe-scalar", "python-bool"])
    J.run.count(f"polars:scalar:form:{form}")
    expr = nat if nat else (
        lambda c: c.map_elements(f, return_dtype=pl.Boolean))

    def sfn(d):
        out = d.lazyframe.select(expr(pl.col(d.key)).all())
        return out if form == "lazyframe-scalar" else bool(out.collect().item())
    PS = observe_pl(sch(pp.Check(sfn, ignore_na=ignore_na)), obj, lazy)
    if form == "lazyframe-scalar" and (ignore_na or not n_null):
        J.ev("polars:scalar-output==all(f(x))")
        if PS.verdict != ("accept" if exp_pass else "reject") or PS.check_error:
            J.bad("scalar-output-verdict-differs",
                  {"scalar_form": form, "expected_pass": exp_pass,
                   "observed": PS.brief()})
    else:
        J.und("polars:scalar-output-verdict(python-bool-or-nulls-shown)")
    if not (PS.check_error or PS.verdict == "exc"):
        WS = observe_pl(sch(pp.Check(sfn, ignore_na=ignore_na,
                                     raise_warning=True)), obj, lazy)
        warn_relation(J, PS, WS, "polars:scalar-output:", {"scalar_form": form})
    return J
