"""C18, part 2 — environment variables, observed in fresh interpreters.

The matrix is {unset,"True","False"}^3 x {unset, 3 depth names} = 108
settings of PANDERA_VALIDATION_ENABLED / _CACHE_DATAFRAME /
_KEEP_CACHED_DATAFRAME / _VALIDATION_DEPTH.  The documented reading
(docs/source/configuration.md, ``PanderaConfig`` docstring): "True"/"False"
are the boolean values, unset keeps the default (enabled, depth unset, no
caching); the depth variable names a ``ValidationDepth`` member.
Other spellings ("false", "0", ...) are not documented and not generated.
"""
from __future__ import annotations

import itertools
import json
import os
import subprocess
from concurrent.futures import ThreadPoolExecutor

from . import env

CHILD = os.path.join(os.path.dirname(os.path.abspath(__file__)), "c18_child.py")
VARS = ("PANDERA_VALIDATION_ENABLED", "PANDERA_VALIDATION_DEPTH",
        "PANDERA_CACHE_DATAFRAME", "PANDERA_KEEP_CACHED_DATAFRAME")
BOOL_VALUES = (None, "True", "False")
DEPTH_VALUES = (None, "SCHEMA_ONLY", "DATA_ONLY", "SCHEMA_AND_DATA")

MATRIX = [dict(zip(VARS, v)) for v in itertools.product(
    BOOL_VALUES, DEPTH_VALUES, BOOL_VALUES, BOOL_VALUES)]


def quick_sample(rng, k=16):
    """Covering sample: every value of every variable occurs at least once,
    'everything unset' and 'validation disabled' are always present."""
    picked = [0]
    for i, var in enumerate(VARS):
        vals = DEPTH_VALUES if i == 1 else BOOL_VALUES
        for val in vals[1:]:
            cands = [j for j, m in enumerate(MATRIX) if m[var] == val
                     and j not in picked]
            picked.append(rng.choice(cands))
    rest = [j for j in range(len(MATRIX)) if j not in picked]
    rng.shuffle(rest)
    picked += rest[:max(0, k - len(picked))]
    return sorted(picked)


def expected_config(setting):
    ve = setting["PANDERA_VALIDATION_ENABLED"]
    return {
        "validation_enabled": ve != "False",        # unset / "True" -> True
        "validation_depth": setting["PANDERA_VALIDATION_DEPTH"],
        "cache_dataframe": setting["PANDERA_CACHE_DATAFRAME"] == "True",
        "keep_cached_dataframe":
            setting["PANDERA_KEEP_CACHED_DATAFRAME"] == "True",
    }


def run_child(setting, timeout=300):
    e = {k: v for k, v in os.environ.items() if not k.startswith("PANDERA_")}
    for k, v in setting.items():
        if v is not None:
            e[k] = v
    e["PVM_REPO"] = env.REPO
    e["PYTHONDONTWRITEBYTECODE"] = "1"
    try:
        p = subprocess.run([env.PY, CHILD], env=e, cwd=env.VERIF,
                           capture_output=True, text=True, timeout=timeout)
    except subprocess.TimeoutExpired:
        return None, "timeout"
    if p.returncode != 0:
        return None, f"exit {p.returncode}: {p.stderr[-600:]}"
    try:
        return json.loads(p.stdout.strip().splitlines()[-1]), None
    except Exception as ex:  # noqa: BLE001
        return None, f"unparsable child output: {ex}: {p.stdout[-300:]}"


def run_matrix(indices, workers=4):
    with ThreadPoolExecutor(max_workers=workers) as ex:
        return list(zip(indices,
                        ex.map(lambda i: run_child(MATRIX[i]), indices)))


# ---------------------------------------------------------------- judging
def expected_probe(name, cfg):
    """Expected outcome of a probe of pvm/c18_child.py under configuration
    ``cfg`` (the *expected* configuration): 'same' (validation disabled: the
    very argument comes back), 'accept', 'reject' or None (not judged)."""
    if not cfg["validation_enabled"]:
        return "same"
    d = cfg["validation_depth"]
    if d is None:
        d = "SCHEMA_ONLY" if "/LazyFrame/" in name else "SCHEMA_AND_DATA"
    tag = name.rsplit("/", 1)[-1]
    if tag == "ok":
        return "accept"
    if tag == "bad_dtype":
        return "reject" if d in ("SCHEMA_ONLY", "SCHEMA_AND_DATA") else "accept"
    if tag == "bad_check":
        return "reject" if d in ("DATA_ONLY", "SCHEMA_AND_DATA") else "accept"
    return None     # needs_coercion: where coercion belongs is not documented


def judge(setting, obs):
    """-> list of (kind, witness, mechanism), list of counter names."""
    out, counts = [], []
    exp = expected_config(setting)
    wit0 = {"env": {k: v for k, v in setting.items() if v is not None}}
    config_ok = True
    for where in ("CONFIG", "context"):
        counts.append("env:config_compared")
        got = obs[where]
        for f, v in exp.items():
            if got[f] != v:
                config_ok = False
                mech = None
                if (f == "validation_enabled" and v is False
                        and setting["PANDERA_VALIDATION_ENABLED"] == "False"):
                    mech = "env-PANDERA_VALIDATION_ENABLED-False-ignored"
                out.append(("env-var-not-honoured",
                            dict(wit0, where=where, field=f, expected=v,
                                 observed=got[f]), mech))
    if not obs["global_is_CONFIG"]:
        out.append(("get_config_global-is-not-CONFIG", wit0, None))
    # scoping relative to the environment-derived base
    base = obs["context"]
    for n in obs["nesting"]:
        counts.append("env:nesting_compared")
        if n["after"] != base:
            out.append(("config-not-restored-to-env-base",
                        dict(wit0, step=n["what"], expected=base,
                             observed=n["after"]), None))
        if "inside" in n:
            want = dict(base)
            want.update(obs["flip"])
            if n["inside"] != want:
                out.append(("context-override-not-in-force",
                            dict(wit0, expected=want, observed=n["inside"]),
                            None))
    if obs["CONFIG_after_nesting"] != obs["CONFIG"]:
        out.append(("CONFIG-changed-by-context", wit0, None))
    if obs["context_after_probes"] != base:
        out.append(("config-not-restored-after-validate",
                    dict(wit0, expected=base,
                         observed=obs["context_after_probes"]), None))
    # probes are judged against the documented configuration only when the
    # variables were read correctly (otherwise the mismatch above is the
    # finding and everything else is its consequence)
    if not config_ok or obs["context_after_probes"] != base or \
            any(n["after"] != base for n in obs["nesting"]):
        counts.append("env:probes_skipped_config_already_wrong")
        return out, counts
    for pr in obs["probes"]:
        want = expected_probe(pr["name"], exp)
        counts.append(f"env:probe:{want}")
        if not pr["argument_unchanged"]:
            out.append(("validate-changed-its-argument",
                        dict(wit0, probe=pr), None))
        if want is None:
            counts.append("undecided:coercion-scope-under-depth")
            continue
        if want == "same":
            if pr["outcome"] != "ok" or not pr.get("returned_same_object"):
                out.append(("validation-disabled-but-argument-not-returned",
                            dict(wit0, probe=pr),
                            classify_disabled(pr["name"])))
        else:
            got = "accept" if pr["outcome"] == "ok" else (
                "reject" if pr["outcome"] in ("SchemaError", "SchemaErrors")
                else pr["outcome"])
            if got != want:
                out.append((f"env-depth-not-honoured:expected-{want}",
                            dict(wit0, probe=pr, depth=exp["validation_depth"]),
                            classify_depth_probe(pr, exp["validation_depth"],
                                                 want)))
    # probes inside a user config_context: the override is in force
    for pr in obs.get("ctx_probes", []):
        cfg = dict(exp)
        cfg.update(pr["override"])
        want = expected_probe(pr["name"], cfg)
        counts.append(f"env:ctx_probe:{want}")
        counts.append(f"env:ctx_probe:{pr['label']}")
        if not pr["argument_unchanged"]:
            out.append(("validate-changed-its-argument",
                        dict(wit0, probe=pr), None))
        if want is None:
            continue
        if want == "same":
            if pr["outcome"] != "ok" or not pr.get("returned_same_object"):
                out.append(("context-disabled-but-argument-not-returned",
                            dict(wit0, probe=pr), None))
        else:
            got = "accept" if pr["outcome"] == "ok" else (
                "reject" if pr["outcome"] in ("SchemaError", "SchemaErrors")
                else pr["outcome"])
            if got != want:
                out.append((f"context-override-not-honoured-under-env:expected-{want}",
                            dict(wit0, probe=pr), None))
    return out, counts


def classify_disabled(name):
    if name.startswith(("pandas.Column.validate", "pandas.Index.validate")):
        return "pandas-component-validate-ignores-validation_enabled"
    return None


def classify_depth_probe(pr, depth, want):
    name = pr["name"]
    reasons = set(pr.get("reasons") or [pr.get("reason")])
    if (want == "accept" and depth == "SCHEMA_ONLY"
            and name.startswith("pandas.")
            and reasons <= {"DATAFRAME_CHECK", "CHECK_ERROR"}
            and not name.startswith("pandas.SeriesSchema")):
        return "pandas-ColumnBackend.run_checks-ignores-validation-depth"
    return None
