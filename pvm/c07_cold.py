"""C07 cold family: the FIRST validations of a process run concurrently.

usage: python -m pvm.c07_cold <seed> <tier> <unit json> <partial.json>

Lazily filled process-wide registries (backend registries, lru_caches of the
register functions, MODEL_CACHE, built-in check dispatchers) can only be used
"for the first time" once per process.  This module is a *template* process:
it is started by the check with ``subprocess.run(timeout=...)`` in a fresh
interpreter, imports pandas / polars / pandera and nothing else happens in it
- no schema, component or check object is ever constructed and nothing is
validated here.  Every schedule then runs in a ``fork`` of that pristine
template (a fresh interpreter state per schedule for a few ms instead of the
~2 s of imports): the forked child declares its model classes, starts the
2-3 threads - each thread builds its schema inside its own call
(``Model.validate`` on a never used model, or schema construction + validate)
- under the sys.monitoring token scheduler, and reports outcomes and state
through a pipe.  The template judges and writes ``Run.to_partial()``.

Modules that the first validation imports lazily (pandera.backends.*, the
optional integrations that ``pandera.typing`` probes, ...) are found by a
scout child (runs the calls once, reports the new ``sys.modules`` entries) and
imported in the template before any schedule is forked: a thread parked by the
token scheduler while it holds a module's import lock would dead-lock the
scheduler (in a real process the other thread simply waits), so races inside
lazy imports are not explored (counted under ``undecided:``).

Oracle per schedule (reference = every call run ALONE in its own fork):
  O1  outcome of every thread == outcome of the same call alone;
  O2  pandera config + process-wide state after join == before;
  O4  every call once more after the join == alone;
  O5  schema cached for a model class == the one compiled alone;
  O6  backend registries after join == after the same calls run one after
      the other (keys and backend classes).
"""
from __future__ import annotations

import json
import os
import random
import select
import signal
import sys
import time

from . import env

PID = "C07"
K_REG = "backend-registry-incomplete-during-concurrent-first-registration"
K_MODEL = "model-to-schema-first-use-class-dict-mutated-while-iterated"
CHILD_TIMEOUT = 60.0
SCOUT_TIMEOUT = 300.0


# ------------------------------------------------------------------ families
# Every builder runs inside the forked child, before the threads start; it may
# declare model classes (a class statement constructs no schema object) and
# data, but must not construct or use any pandera schema / component / check.
def _outcome_of(make_schema, obj, **kw):
    """Thunk: schema construction AND validate inside the thread's own call."""
    from . import harness as H

    def thunk():
        try:
            schema = make_schema()
        except Exception as e:  # noqa: BLE001 - construction failed: an outcome
            return H.Outcome("exc", exc=e)
        return H.run_validate(schema, obj, **kw)
    return thunk


def _model(base, name, ann, ns):
    d = {"__annotations__": dict(ann), "__module__": __name__}
    d.update(ns)
    return type(name, (base,), d)


def fam_pd_two_models(rng, n, variant):
    """Two never-used pandas DataFrameModel classes, one per thread."""
    import pandas as pd

    import pandera as pa
    from .c07_scen import Built, _v
    rows = rng.randint(2, 4)
    A = _model(pa.DataFrameModel, "ColdA", {"a": int}, {"a": pa.Field(gt=0)})
    B = _model(pa.DataFrameModel, "ColdB", {"b": float},
               {"b": pa.Field(le=10.0)})
    fa = pd.DataFrame({"a": list(range(1, rows + 1))})
    fb = pd.DataFrame({"b": [1.5 + i for i in range(rows)]})
    fb_bad = pd.DataFrame({"b": [1.0] * (rows - 1) + [11.0]})
    fa_bad = pd.DataFrame({"a": [0] + list(range(1, rows))})
    b = Built()
    opts = [("ColdA.validate(good)", _v(A, fa)),
            ("ColdB.validate(good)", _v(B, fb)),
            ("ColdB.validate(bad) lazy", _v(B, fb_bad, lazy=True)),
            ("ColdA.validate(bad)", _v(A, fa_bad))]
    if variant % 2:
        opts = [opts[3], opts[1], opts[0], opts[2]]
    for lab, th in opts[:n]:
        b.add(lab, th)
    b.post = lambda: {"MODEL_CACHE[ColdA]": A.to_schema(),
                      "MODEL_CACHE[ColdB]": B.to_schema()}
    return b


def fam_pd_construct(rng, n, variant):
    """Schema construction + validate inside each thread: DataFrameSchema,
    SeriesSchema, a stand-alone Column."""
    import pandas as pd

    import pandera as pa
    from .c07_scen import Built
    rows = rng.randint(2, 4)
    df = pd.DataFrame({"a": list(range(1, rows + 1)), "s": ["x"] * rows})
    df_bad = pd.DataFrame({"a": [-1] + list(range(1, rows)), "s": ["q"] * rows})
    se = pd.Series([0.5 * i for i in range(rows)], name="q")
    se_bad = pd.Series([9.0] * rows, name="q")

    def mk_df():
        return pa.DataFrameSchema(
            {"a": pa.Column(int, pa.Check.gt(0)),
             "s": pa.Column(str, pa.Check.isin(["x", "y"]))},
            index=pa.Index(int))

    def mk_se():
        return pa.SeriesSchema(float, pa.Check.lt(5), name="q")

    def mk_col():
        return pa.Column(int, pa.Check.ge(0), name="a")
    opts = [("DataFrameSchema(...).validate(good)", _outcome_of(mk_df, df)),
            ("SeriesSchema(...).validate(bad)", _outcome_of(mk_se, se_bad)),
            ("Column(...).validate(bad) lazy",
             _outcome_of(mk_col, df_bad, lazy=True)),
            ("DataFrameSchema(...).validate(bad) lazy",
             _outcome_of(mk_df, df_bad, lazy=True)),
            ("SeriesSchema(...).validate(good)", _outcome_of(mk_se, se))]
    k = variant % len(opts)
    opts = opts[k:] + opts[:k]
    b = Built()
    for lab, th in opts[:n]:
        b.add(lab, th)
    return b


def fam_pl_first(rng, n, variant):
    """polars: a never-used model ∥ schema construction + validate."""
    import polars as pl

    import pandera.polars as pap
    from .c07_scen import Built, _v
    rows = rng.randint(2, 4)
    P = _model(pap.DataFrameModel, "ColdP", {"a": int, "b": str},
               {"a": pap.Field(gt=0)})
    good = pl.DataFrame({"a": list(range(1, rows + 1)), "b": ["x"] * rows})
    bad = pl.DataFrame({"a": [0] * rows, "b": ["x"] * rows})

    def mk():
        return pap.DataFrameSchema({"a": pap.Column(pl.Int64, pap.Check.gt(0)),
                                    "b": pap.Column(pl.String)})
    opts = [("ColdP.validate(good)", _v(P, good)),
            ("pl DataFrameSchema(...).validate(bad) lazy",
             _outcome_of(mk, bad, lazy=True)),
            ("ColdP.validate(LazyFrame bad)", _v(P, bad.lazy())),
            ("ColdP.validate(bad)", _v(P, bad))]
    if variant % 2:
        opts = [opts[1], opts[3], opts[0], opts[2]]
    b = Built()
    b.uses_polars = True
    for lab, th in opts[:n]:
        b.add(lab, th)
    b.post = lambda: {"MODEL_CACHE[ColdP]": P.to_schema()}
    return b


def fam_mixed(rng, n, variant):
    """A pandas model ∥ a polars model, both never used, nothing registered."""
    import pandas as pd
    import polars as pl

    import pandera as pa
    import pandera.polars as pap
    from .c07_scen import Built, _v
    rows = rng.randint(2, 4)
    D = _model(pa.DataFrameModel, "ColdD", {"a": int, "s": str},
               {"a": pa.Field(gt=0), "s": pa.Field(str_startswith="x")})
    P = _model(pap.DataFrameModel, "ColdP", {"a": int, "s": str},
               {"a": pap.Field(gt=0), "s": pap.Field(str_startswith="x")})
    sv = ["x%d" % i for i in range(rows)]
    dgood = pd.DataFrame({"a": list(range(1, rows + 1)), "s": sv})
    dbad = pd.DataFrame({"a": [-1] + list(range(1, rows)), "s": ["y"] + sv[1:]})
    pgood = pl.DataFrame({"a": list(range(1, rows + 1)), "s": sv})
    pbad = pl.DataFrame({"a": [-1] + list(range(1, rows)), "s": sv})
    opts = [("ColdD.validate(pandas good)", _v(D, dgood)),
            ("ColdP.validate(polars bad) lazy", _v(P, pbad, lazy=True)),
            ("ColdD.validate(pandas bad) lazy", _v(D, dbad, lazy=True)),
            ("ColdP.validate(polars good)", _v(P, pgood))]
    if variant % 2:
        opts = [opts[3], opts[2], opts[1], opts[0]]
    b = Built()
    b.uses_polars = True
    for lab, th in opts[:n]:
        b.add(lab, th)
    b.post = lambda: {"MODEL_CACHE[ColdD]": D.to_schema(),
                      "MODEL_CACHE[ColdP]": P.to_schema()}
    return b


def fam_same_model(rng, n, variant):
    """ONE never-used pandas model (Config names a dataframe-level check,
    @dataframe_check method) used for the first time by every thread, in a
    process where nothing has been registered or compiled yet."""
    import pandas as pd

    import pandera as pa
    from .c07_scen import Built, _v
    rows = 3

    def a_le_b(cls, df):
        return df["a"] <= df["b"]
    cfg = {"in_range": {"min_value": 1, "max_value": 8}}
    if variant % 2:
        cfg["strict"] = True
    M = _model(pa.DataFrameModel, "ColdM", {"a": int, "b": int},
               {"a": pa.Field(gt=0), "a_le_b": pa.dataframe_check(a_le_b),
                "Config": type("Config", (), cfg)})
    bad1 = pd.DataFrame({"a": [1, 9, 3][:rows], "b": [2, 8, 4][:rows]})
    bad2 = pd.DataFrame({"a": [1, 2, 7][:rows], "b": [5, 6, 9][:rows]})
    good = pd.DataFrame({"a": [1, 2, 3][:rows], "b": [2, 3, 4][:rows]})
    opts = [("ColdM.validate(bad rows) lazy", _v(M, bad1, lazy=True)),
            ("ColdM.validate(other bad rows) lazy", _v(M, bad2, lazy=True)),
            ("ColdM.validate(good)", _v(M, good))]
    if variant % 2:
        opts = [opts[2], opts[0], opts[1]]
    b = Built()
    for lab, th in opts[:n]:
        b.add(lab, th)
    b.post = lambda: {"MODEL_CACHE[ColdM]": M.to_schema()}
    return b


def fam_check_types(rng, n, variant):
    """Functions decorated with @check_types / @check_input whose schemas are
    never-used models / schemas built inside the call."""
    import pandas as pd

    import pandera as pa
    from pandera.typing import DataFrame
    from . import harness as H
    from .c07_scen import Built
    rows = rng.randint(2, 4)
    In = _model(pa.DataFrameModel, "ColdIn", {"a": int}, {"a": pa.Field(ge=0)})
    Out = _model(pa.DataFrameModel, "ColdOut", {"a": int, "t": int},
                 {"t": pa.Field(ge=0)})

    def f(df: DataFrame[In]) -> DataFrame[Out]:
        return df.assign(t=df["a"] * 2)
    f.__annotations__ = {"df": DataFrame[In], "return": DataFrame[Out]}
    g = pa.check_types(f)
    h = pa.check_types(lazy=True)(f)

    class _Call:
        def __init__(self, fn):
            self.fn = fn

        def validate(self, obj):
            return self.fn(obj)
    good = pd.DataFrame({"a": list(range(rows))})
    bad = pd.DataFrame({"a": [-1] + list(range(1, rows))})
    opts = [("check_types(f)(good)", lambda: H.run_validate(_Call(g), good)),
            ("check_types(lazy)(f)(bad)", lambda: H.run_validate(_Call(h), bad)),
            ("check_types(f)(bad)", lambda: H.run_validate(_Call(g), bad))]
    if variant % 2:
        opts = [opts[1], opts[0], opts[2]]
    b = Built()
    for lab, th in opts[:n]:
        b.add(lab, th)
    b.post = lambda: {"MODEL_CACHE[ColdIn]": In.to_schema(),
                      "MODEL_CACHE[ColdOut]": Out.to_schema()}
    return b


FAMILIES = {
    "cold_pd_two_models": (fam_pd_two_models, False),
    "cold_pd_construct": (fam_pd_construct, False),
    "cold_pl_first": (fam_pl_first, True),
    "cold_mixed": (fam_mixed, True),
    "cold_same_model": (fam_same_model, False),
    "cold_check_types": (fam_check_types, False),
}
ORDER = list(FAMILIES)


def build(name, variant, n, seed):
    fn, _ = FAMILIES[name]
    rng = random.Random(f"c07cold|{seed}|{name}|{variant}")
    b = fn(rng, n, variant)
    b.flags = {"cold": True, "config": bool(getattr(b, "uses_polars", False))}
    b.name, b.variant, b.n = name, variant, n
    return b


# ------------------------------------------------------------------ state
def _registries():
    from pandera.api.base.checks import BaseCheck
    from pandera.api.base.parsers import BaseParser
    from pandera.api.base.schema import BaseSchema
    return {"schema": BaseSchema.BACKEND_REGISTRY,
            "check": BaseCheck.BACKEND_REGISTRY,
            "parser": BaseParser.BACKEND_REGISTRY}


def _tn(x):
    if isinstance(x, tuple):
        return "(" + ", ".join(_tn(v) for v in x) + ")"
    return f"{getattr(x, '__module__', '?')}.{getattr(x, '__qualname__', repr(x))}"


def registry_map():
    return {lab: sorted(f"{_tn(k)} -> {_tn(v)}" for k, v in dict(reg).items())
            for lab, reg in _registries().items()}


def registry_sizes():
    from pandera.api.dataframe.model import MODEL_CACHE
    d = {lab: len(reg) for lab, reg in _registries().items()}
    d["MODEL_CACHE"] = len(MODEL_CACHE)
    return d


def _cfg():
    from .checks import c07
    return c07.cfg_state()


# ------------------------------------------------------------------ forked child
def _policy(spec, n):
    from .c07_sched import RandomSwitch, Replay, Serial, SinglePreempt, TwoPreempt
    k = spec[0]
    if k == "serial":
        return Serial(spec[1])
    if k == "single":
        return SinglePreempt(spec[1], spec[2], n)
    if k == "double":
        return TwoPreempt(spec[1], spec[2], spec[3])
    if k == "random":
        return RandomSwitch(random.Random(spec[1]), spec[2], n)
    if k == "replay":
        return Replay(spec[1], [tuple(x) for x in spec[2]])
    raise ValueError(spec)


def _child_body(job):
    from . import fingerprint as F
    from . import c07_scen as SC
    mode = job["mode"]
    name, variant, n, seed = job["family"], job["variant"], job["n"], job["seed"]
    before_mods = list(sys.modules)
    out = {"mode": mode, "sizes_at_start": registry_sizes()}
    b = build(name, variant, n, seed)
    out["labels"] = b.labels
    out["sizes_after_build"] = registry_sizes()

    def post_fp():
        if b.post is None:
            return None
        try:
            return {lab: F.fp(s, ident=False) for lab, s in b.post().items()}
        except Exception as e:  # noqa: BLE001
            return {"<post>": f"!{type(e).__name__}: {e}"[:300]}

    if mode == "scout":
        for t in b.thunks:
            t()
        seen = set(before_mods)
        out["new_modules"] = [m for m in list(sys.modules) if m not in seen]
        return out
    if mode == "solo":
        i = job["thread"]
        o = b.thunks[i]()
        out["sig"] = SC.sig(o)
        out["post_fp"] = post_fp() if job.get("want_post") else None
        return out

    from .c07_sched import Scheduler
    prefix = env.REPO.rstrip("/") + "/pandera/"
    policy = _policy(job["policy"], n)
    before_cfg, before_proc = _cfg(), SC.proc_state()
    record = bool(job.get("record"))
    sched = Scheduler(prefix)
    sched.install()
    try:
        r = sched.run(b.thunks, policy, probe=b.probe, timeout=25.0,
                      record_locs=record)
    finally:
        if not record:
            sched.uninstall()
    out["after_cfg"], out["before_cfg"] = _cfg(), before_cfg
    after_proc = SC.proc_state()
    ch = sorted(k for k in set(before_proc) | set(after_proc)
                if before_proc.get(k) != after_proc.get(k))
    out["proc_changed"] = {k: [before_proc.get(k), after_proc.get(k)] for k in ch}
    out["proc_fields"] = len(before_proc)
    out["status"] = r.status
    out["start"], out["trace"] = r.start, r.trace[:6000]
    out["yields"], out["switches"], out["steps"] = r.yields, r.switches, r.steps
    out["foreign"] = [f[:12] for f in r.foreign]
    out["errors"] = [None if e is None else repr(e)[:300] for e in r.errors]
    if r.status != "ok":
        if record:
            sched.uninstall()
        return out
    from . import harness as H
    out["sigs"] = [SC.sig(o) for o in r.outcomes]
    out["exc_sites"] = [H.exc_sig(o.exc) if (o is not None and o.kind == "exc")
                        else None for o in r.outcomes]
    out["registry"] = registry_map()
    out["post_fp"] = post_fp()
    if record:
        # the same calls once more (now nothing is used for the first time),
        # again under the scheduler: the yield points of the first run whose
        # location the second run never reaches are the first-use code
        from .c07_sched import Serial
        try:
            sched.restart()
            r2 = sched.run(b.thunks, Serial(job["policy"][1]), timeout=25.0,
                           record_locs=True)
        finally:
            sched.uninstall()
        again = [SC.sig(o) if e is None else
                 ("exc-escaped", type(e).__name__, str(e)[:200])
                 for o, e in zip(r2.outcomes, r2.errors)]
        fu = {}
        for tid in range(n):
            warm = set(r2.locs[tid])
            only = [i for i, loc in enumerate(r.locs[tid]) if loc not in warm]
            seen, first_occ = set(), []
            for i in only:
                if r.locs[tid][i] not in seen:
                    seen.add(r.locs[tid][i])
                    first_occ.append(i)
            fu[str(tid)] = {"only": only, "first_occurrence": first_occ,
                            "warm_yields": len(r2.locs[tid])}
        out["first_use"] = fu
    else:
        again = []
        for t in b.thunks:
            try:
                again.append(SC.sig(t()))
            except BaseException as e:  # noqa: BLE001
                again.append(("exc-escaped", type(e).__name__, str(e)[:200]))
    out["again"] = again
    return out


def fork_job(job, timeout=CHILD_TIMEOUT):
    """Run one job in a fork of this (pristine) process; dict or None."""
    rfd, wfd = os.pipe()
    sys.stdout.flush()
    sys.stderr.flush()
    pid = os.fork()
    if pid == 0:
        code = 0
        try:
            os.close(rfd)
            try:
                res = _child_body(job)
            except BaseException as e:  # noqa: BLE001 - harness trouble
                import traceback
                res = {"harness_error": f"{type(e).__name__}: {e}"[:300],
                       "tb": traceback.format_exc()[-1500:]}
            from .evidence import jsonable
            data = json.dumps(jsonable(res), default=repr).encode()
            with os.fdopen(wfd, "wb") as f:
                f.write(data)
        except BaseException:  # noqa: BLE001
            code = 3
        finally:
            os._exit(code)
    os.close(wfd)
    chunks, deadline = [], time.time() + timeout
    try:
        while True:
            left = deadline - time.time()
            if left <= 0:
                os.kill(pid, signal.SIGKILL)
                os.waitpid(pid, 0)
                return None
            rl, _, _ = select.select([rfd], [], [], min(left, 1.0))
            if rl:
                d = os.read(rfd, 1 << 16)
                if not d:
                    break
                chunks.append(d)
    finally:
        os.close(rfd)
    os.waitpid(pid, 0)
    try:
        return json.loads(b"".join(chunks).decode())
    except ValueError:
        return None


# ------------------------------------------------------------------ judge
def classify(kind, w):
    if kind == "outcome-differs-from-solo":
        site = w.get("got_exc_site") or ""
        got = w.get("got", "")
        if (site.startswith("BackendNotFoundError@")
                or (site.startswith("KeyError@") and "Backend not found" in got)):
            return K_REG
        if (site.startswith("RuntimeError@api/dataframe/model.py:_collect_")
                and "dictionary changed size" in got):
            return K_MODEL
        fk = set(w.get("foreign_kinds_of_thread", []))
        if fk == {"proc"}:
            return ("process-wide-state-toggled-during-validate:"
                    + ",".join(w["foreign_proc_fields"]))
        return None
    if kind == "process-state-changed-after-join":
        return ("process-wide-state-left-changed-after-concurrent-validate:"
                + ",".join(w["changed_fields"]))
    return None


def strided(total, want, rng):
    if want is None or total <= want:
        return list(range(total))
    stride = total / want
    off = rng.random() * stride
    return sorted({min(total - 1, int(off + k * stride)) for k in range(want)})


class Template:
    def __init__(self, run, seed, tier, unit):
        self.run, self.seed, self.tier, self.unit = run, seed, tier, unit
        self.name, self.variant = unit["family"], unit["variant"]
        self.refs = {}

    def job(self, mode, n, **kw):
        return dict(mode=mode, family=self.name, variant=self.variant, n=n,
                    seed=self.seed, **kw)

    # -- preparation --------------------------------------------------
    def prepare(self):
        import importlib
        run = self.run
        size0 = registry_sizes()
        for rnd in range(3):
            # the scout pays for the lazy imports (~2 s idle, much more on a
            # loaded machine): long watchdog, two more attempts
            sc = None
            for _attempt in range(3):
                sc = fork_job(self.job("scout", 3), timeout=SCOUT_TIMEOUT)
                if sc and "new_modules" in sc:
                    break
                run.count("cold:scout_retried")
            if not sc or "new_modules" not in sc:
                run.note_inconclusive(
                    f"cold {self.name}: scout failed: "
                    f"{(sc or {}).get('harness_error', 'timeout')}")
                return False
            new = [m for m in sc["new_modules"] if m not in sys.modules]
            run.count("cold:lazy_modules_preimported", len(new))
            if not new:
                break
            for m in new:
                try:
                    importlib.import_module(m)
                except BaseException:  # noqa: BLE001 - optional / private
                    pass
        if registry_sizes() != size0:
            # an import registered something: that is what the import does in
            # a user's process too; recorded, not judged
            run.count("undecided:cold import of lazily loaded modules "
                      "registered backends")
        run.count("undecided:races inside lazily imported modules not "
                  "explored (modules pre-imported)")
        self.size0 = registry_sizes()
        run.count("cold:template_prepared")
        return True

    def reference(self, n):
        """Every call alone in its own fork (twice), and the calls one after
        the other (registry / cache state after sequential use)."""
        if n in self.refs:
            return self.refs[n]
        run = self.run
        ref = {"ok": True, "why": "", "solo": [], "post_fp": {}}
        for i in range(n):
            a = fork_job(self.job("solo", n, thread=i, want_post=True))
            c = fork_job(self.job("solo", n, thread=i, want_post=False))
            if not a or not c or "sig" not in a or "sig" not in c:
                ref["ok"], ref["why"] = False, "solo reference run failed"
                err = (a or c or {}).get("harness_error", "timeout")
                run.note_inconclusive(f"cold {self.name}: solo failed: {err}")
                break
            if a["sizes_after_build"] != self.size0:
                ref["ok"] = False
                ref["why"] = "scenario builder is not construction-free"
                break
            if a["sig"] != c["sig"]:
                ref["ok"], ref["why"] = False, "solo outcome not reproducible"
                break
            ref["solo"].append(a["sig"])
            # the models a single call compiles: reference for the cached one
            for lab, f in (a.get("post_fp") or {}).items():
                if lab in ref["post_fp"] and ref["post_fp"][lab] != f:
                    ref["ok"] = False
                    ref["why"] = "solo-compiled model schema not reproducible"
                ref["post_fp"][lab] = f
            run.count("cold:solo_references")
        if ref["ok"]:
            s = fork_job(self.job("sched", n, policy=["serial", list(range(n))]))
            if not s or s.get("status") != "ok":
                ref["ok"], ref["why"] = False, "sequential reference run failed"
            else:
                ref["registry"] = s["registry"]
        self.refs[n] = ref
        if not ref["ok"]:
            run.count(f"undecided:cold:{ref['why']}:{self.name}")
        return ref

    # -- one schedule ---------------------------------------------------
    def schedule(self, n, policy, tag, record=False):
        from . import c07_scen as SC
        from .checks.c07 import all_diffs, foreign_kinds
        from .evidence import canon_hash
        run, name = self.run, self.name
        ref = self.reference(n)
        if not ref["ok"]:
            return None
        res = fork_job(self.job("sched", n, policy=policy, record=record))
        run.count("cold:schedules")
        run.count(f"cold:schedules:{name}")
        run.count(f"cold:policy:{tag}")
        run.count(f"cold:threads:{n}")
        if not res or "harness_error" in res:
            run.count("cold:schedule_inconclusive(child failed or timed out)")
            if res:
                run.count("cold:harness_error:" + res["harness_error"][:60])
            return None
        if res["status"] != "ok":
            run.count("cold:schedule_inconclusive(watchdog)")
            return res
        if res["sizes_after_build"] != self.size0:
            run.count("undecided:cold:fork did not start from the pristine state")
            return res
        run.count("cold:started_from_pristine_state")
        run.count("cold:yield_points", res["steps"])
        run.count("cold:preemptions", res["switches"])
        desc = {"cold": True, "scenario": name, "variant": self.variant,
                "threads": n, "seed": str(self.seed), "labels": res["labels"],
                "policy": policy, "start": res["start"],
                "trace": res["trace"], "yields": res["yields"],
                "flags": {"cold": True}}
        nontrivial = res["switches"] >= 1 and all(y > 0 for y in res["yields"])
        run.case(canon_hash(["cold", name, self.variant, n, res["start"],
                             res["trace"]]), nontrivial,
                 sample={"scenario": name, "variant": self.variant,
                         "threads": n, "labels": res["labels"],
                         "policy": policy, "yields": res["yields"],
                         "preemptions": res["switches"],
                         "fresh_interpreter_state": True})
        # O1
        for i in range(n):
            if res["errors"][i] is not None:
                run.violation("harness-thunk-raised",
                              desc | {"thread": i, "exc": res["errors"][i]}, None)
                continue
            run.count("cold:oracle:outcome_compared")
            got, solo = res["sigs"][i], ref["solo"][i]
            if got != solo:
                foreign = [tuple(f) for f in res["foreign"][i]]
                w = desc | {
                    "thread": i, "call": res["labels"][i],
                    "solo": SC.brief(solo), "got": SC.brief(got),
                    "got_exc_site": res["exc_sites"][i],
                    "foreign_changes_seen_by_thread": foreign,
                    "foreign_kinds_of_thread": sorted(foreign_kinds(foreign)),
                    "foreign_proc_fields": sorted(
                        {f[1][5:] for f in foreign if f[1].startswith("proc.")})}
                run.count(f"cold:mismatch:{name}:{SC.brief(solo)[:40]}->"
                          f"{SC.brief(got)[:40]}")
                run.violation("outcome-differs-from-solo", w,
                              classify("outcome-differs-from-solo", w))
            else:
                run.count("cold:oracle:outcome_equal_solo")
        # O2
        run.count("cold:oracle:config_compared")
        if res["after_cfg"] != res["before_cfg"]:
            w = desc | {"before": res["before_cfg"], "after": res["after_cfg"]}
            run.violation("config-changed-after-join", w, None)
        run.count("cold:oracle:process_state_compared")
        if res["proc_changed"]:
            w = desc | {"changed_fields": sorted(res["proc_changed"]),
                        "before_after": res["proc_changed"]}
            run.violation("process-state-changed-after-join", w,
                          classify("process-state-changed-after-join", w))
        # O4
        for i in range(n):
            run.count("cold:oracle:post_join_rerun_compared")
            if res["again"][i] != ref["solo"][i]:
                w = desc | {"thread": i, "call": res["labels"][i],
                            "solo": SC.brief(ref["solo"][i]),
                            "after_join": SC.brief(res["again"][i])}
                run.violation("outcome-after-join-differs-from-solo", w, None)
        # O5
        if res.get("post_fp") is not None and ref["post_fp"]:
            run.count("cold:oracle:cached_model_schema_compared",
                      len(ref["post_fp"]))
            d = []
            for lab, want in ref["post_fp"].items():
                if lab not in res["post_fp"]:
                    d.append((lab, "present", "missing"))
                    continue
                for p, x, y in all_diffs(want, res["post_fp"][lab]):
                    d.append((lab + p[1:], x, y))
            if d:
                run.violation("cached-model-schema-differs-from-solo-compiled",
                              desc | {"diffs": d[:8]}, None)
        # O6
        run.count("cold:oracle:registry_compared")
        if res["registry"] != ref["registry"]:
            d = {}
            for lab in ref["registry"]:
                a, c = set(ref["registry"][lab]), set(res["registry"].get(lab, []))
                if a != c:
                    d[lab] = {"missing": sorted(a - c)[:6],
                              "unexpected": sorted(c - a)[:6]}
            run.violation("registry-after-join-differs-from-sequential",
                          desc | {"diffs": d}, None)
        return res

    # -- the unit ---------------------------------------------------------
    def run_unit(self):
        run, unit = self.run, self.unit
        if unit.get("mode") == "replay":
            self.schedule(unit["n"], unit["policy"], "replay")
            return
        rng = random.Random(f"{self.seed}|C07|cold|{self.name}|{self.variant}")
        k_single, n_random = unit["single"], unit["random"]
        for first in (0, 1):
            r0 = self.schedule(2, ["serial", [first, 1 - first]], "serial",
                               record=True)
            if not r0 or r0.get("status") != "ok" or "first_use" not in r0:
                continue
            na = r0["yields"][first]
            fu = r0["first_use"][str(first)]
            run.count(f"cold:yield_points_of_first_thread:{self.name}", na)
            run.count("cold:first_use_only_yield_points", len(fu["only"]))
            run.count("cold:first_use_only_distinct_locations",
                      len(fu["first_occurrence"]))
            # systematic single preemption of the first thread: (a) at the
            # first occurrence of every distinct first-use-only location
            # (code the same call does not run a second time), strided down
            # to 3/4 of the budget, (b) the rest of the budget strided over
            # all its yield points
            occ = fu["first_occurrence"]
            ka = k_single if k_single is None else (3 * k_single) // 4
            pts = {occ[j] for j in strided(len(occ), ka, rng)}
            kb = None if k_single is None else max(1, k_single - len(pts))
            pts |= set(strided(na, kb, rng))
            if k_single is None or len(occ) <= ka:
                run.count("cold:first_use_locations_enumerated_completely")
            for i in sorted(pts):
                self.schedule(2, ["single", first, i], "single")
                run.count("cold:single:at_first_use_location"
                          if i in occ else "cold:single:elsewhere")
        for n in (2, 3):
            for p in (0.005, 0.02, 0.10):
                for j in range(n_random):
                    self.schedule(n, ["random", f"{self.seed}|{self.name}|"
                                      f"{self.variant}|{n}|{p}|{j}", p], "random")


def main():
    seed, tier, unit, out = sys.argv[1], sys.argv[2], json.loads(sys.argv[3]), \
        sys.argv[4]
    try:
        seed = int(seed)
    except ValueError:
        pass
    env.ensure_deps()
    env.pin_repo()
    from .checks import c07
    run = c07.new_run()
    try:
        # imports only: nothing pandera-related is constructed in this process
        import pandas  # noqa: F401
        import polars  # noqa: F401

        import pandera  # noqa: F401
        import pandera.config  # noqa: F401
        from . import c07_sched, c07_scen, fingerprint, harness, snap  # noqa: F401
        if FAMILIES[unit["family"]][1]:
            import pandera.polars  # noqa: F401
        t0 = time.time()
        t = Template(run, seed, tier, unit)
        if t.prepare():
            t.run_unit()
        run.count("cold:t_ms:templates", int(1000 * (time.time() - t0)))
    except Exception as e:  # noqa: BLE001 - harness trouble is never a verdict
        import traceback
        traceback.print_exc()
        run.count(f"cold:harness_error:{type(e).__name__}")
        run.note_inconclusive(
            f"cold unit {unit}: harness error {type(e).__name__}: {e}"[:300])
    with open(out, "w") as f:
        json.dump(run.to_partial(), f, default=repr)
    return 0


if __name__ == "__main__":
    sys.exit(main())
