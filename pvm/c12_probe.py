"""Probe frames for C12's verdict vectors.

Frames are derived from the spec: per component a value pool made of family
defaults plus every check argument and its neighbours (so that the frames sit
on the boundaries the checks draw); values that the component's own checks
accept are preferred for the "conforming" probes.  Probes only have to be
*discriminating*, they carry no oracle: the oracle is that the original and
the re-read schema give the same verdict on each of them.
"""
from __future__ import annotations

import math

import numpy as np
import pandas as pd

from . import c12_gen as G

T, TD = pd.Timestamp, pd.Timedelta
BASE = {
    "int": [0, 1, -1, 3, 4, 100],
    "float": [0.0, 1.5, -2.25, 3.0, 1e-320],
    "str": ["a", "abc", "it's", "x1", "", "a1", "My title"],
    "bool": [True, False],
    "datetime": [T("2020-01-01"), T("2020-01-01 00:00:00.5"),
                 T("2021-06-30 12:34:56"), T("2022-01-01")],
    "timedelta": [TD(5, "s"), TD(1, "ns"), TD(0), TD(2, "D")],
    "cat": ["a", "b", "c d"],
    "other": [0, 1],
}
BASE["datetime_tz"] = [t.tz_localize("UTC") for t in BASE["datetime"]]
PHYS = {"int": "int64", "float": "float64", "str": object, "bool": bool,
        "datetime": "datetime64[ns]", "datetime_tz": "datetime64[ns, UTC]",
        "timedelta": "timedelta64[ns]", "cat": object, "other": "int64"}


def _neighbours(v):
    out = [v]
    try:
        if isinstance(v, bool):
            out.append(not v)
        elif isinstance(v, int):
            out += [v - 1, v + 1]
        elif isinstance(v, float) and math.isfinite(v):
            out += [float(np.nextafter(v, -math.inf)),
                    float(np.nextafter(v, math.inf)), v - 1.0, v + 1.0]
            if abs(v) < 2 ** 62:
                # a float bound on integer data: the integers around it
                lo = int(math.floor(v))
                out += [lo - 1, lo, lo + 1, lo + 2]
        elif isinstance(v, pd.Timestamp):
            out += [v - TD(1, "ns"), v + TD(1, "ns"), v - TD(1, "s"),
                    v + TD(1, "s"), v.floor("s")]
        elif isinstance(v, pd.Timedelta):
            out += [v - TD(1, "ns"), v + TD(1, "ns")]
        elif isinstance(v, str):
            out += [v + "x", "x" + v, v[:-1], v * 2]
    except Exception:
        pass
    return out


def _fits(v, fam):
    if fam in ("int", "other"):
        return isinstance(v, int) and not isinstance(v, bool) \
            and -2 ** 63 <= v < 2 ** 63
    if fam == "float":
        return isinstance(v, (int, float)) and not isinstance(v, bool)
    if fam in ("str", "cat"):
        return isinstance(v, str)
    if fam == "bool":
        return isinstance(v, bool)
    if fam == "datetime":
        return isinstance(v, pd.Timestamp) and v.tz is None
    if fam == "datetime_tz":
        return isinstance(v, pd.Timestamp) and v.tz is not None
    if fam == "timedelta":
        return isinstance(v, pd.Timedelta)
    return False


def pool(comp):
    fam = G.family(comp["dtype"])
    vals = list(BASE.get(fam, BASE["other"]))
    for c in comp["checks"]:
        for a in c["args"].values():
            a = G.dec(a)
            for v in (a if isinstance(a, list) else [a]):
                for n in _neighbours(v):
                    if _fits(n, fam):
                        vals.append(float(n) if fam == "float" else n)
    seen, out = set(), []
    for v in vals:
        k = (type(v).__name__, repr(v))
        if k not in seen:
            seen.add(k)
            out.append(v)
    return fam, out


def _accepting(comp, fam, vals):
    """Subset of ``vals`` that every check of the component accepts."""
    if not comp["checks"]:
        return vals
    try:
        checks = [G.build_check(c) for c in comp["checks"]]
    except Exception:
        return []
    ok = []
    for v in vals:
        try:
            s = pd.Series([v], dtype=PHYS[fam])
            if all(bool(c(s).check_passed) for c in checks):
                ok.append(v)
        except Exception:
            continue
    return ok


def _series(vals, fam, nulls=()):
    vals = list(vals)
    if nulls:
        for i in nulls:
            vals[i] = None
        if fam in ("int", "other"):
            return pd.Series(vals, dtype="float64")
        if fam == "bool":
            return pd.Series(vals, dtype=object)
    try:
        return pd.Series(vals, dtype=PHYS[fam])
    except Exception:
        return pd.Series(vals, dtype=object)


def _label(c):
    """A frame label for a column spec (regex columns get a matching one)."""
    return c["name"]


def probe_frames(spec, rng, n_rows=4):
    """List of (description, DataFrame)."""
    comps = [("col", c) + pool(c) for c in spec["columns"]]
    levels = [("idx", c) + pool(c) for c in (spec["index"] or [])]
    acc = {}
    for kind, c, fam, vals in comps + levels:
        acc[id(c)] = _accepting(c, fam, vals) or vals

    def column_values(c, fam, vals, mode):
        src = acc[id(c)] if mode != "mixed" else vals
        if c.get("unique") and mode != "dups" and len(src) >= n_rows:
            return rng.sample(src, n_rows)
        xs = [rng.choice(src) for _ in range(n_rows)]
        if mode == "dups":
            xs[1] = xs[0]
        return xs

    def frame(mode):
        data, order = {}, []
        null_col = rng.randrange(len(comps)) if comps and mode == "nulls" \
            else None
        for i, (_, c, fam, vals) in enumerate(comps):
            xs = column_values(c, fam, vals, mode)
            nulls = (rng.randrange(n_rows),) if i == null_col else ()
            s = _series(xs, fam, nulls)
            if mode == "wrongtype" and i == 0:
                s = s.astype(str) if fam != "str" else \
                    pd.Series(range(n_rows), dtype="int64")
            data[_label(c)] = s
            order.append(_label(c))
        if mode == "shape" and order:
            if rng.random() < 0.5 and len(order) > 0:
                del data[order.pop(rng.randrange(len(order)))]
            else:
                data["zz_extra"] = pd.Series(range(n_rows))
                order.append("zz_extra")
            order.reverse()
        try:
            df = pd.DataFrame({k: data[k].values for k in order},
                              columns=order) if order else \
                pd.DataFrame(index=range(n_rows))
        except Exception:
            df = pd.DataFrame(index=range(n_rows))
        if levels:
            arrs = []
            for _, c, fam, vals in levels:
                xs = column_values(
                    c, fam, vals,
                    "dups" if mode == "dups" else
                    ("mixed" if mode == "mixed" else "conform"))
                if mode not in ("dups", "mixed") and len(set(map(repr, xs))) \
                        < len(xs) and len(acc[id(c)]) >= n_rows:
                    xs = rng.sample(acc[id(c)], n_rows)
                arrs.append(_series(xs, fam).values)
            try:
                if len(arrs) == 1:
                    df.index = pd.Index(arrs[0], name=levels[0][1]["name"])
                else:
                    df.index = pd.MultiIndex.from_arrays(
                        arrs, names=[l[1]["name"] for l in levels])
            except Exception:
                pass
        return df

    out = []
    for mode in ("conform", "mixed", "nulls", "dups", "shape", "wrongtype"):
        try:
            out.append((mode, frame(mode)))
        except Exception:
            continue
    return out
