"""Deep snapshots of pandas / polars objects for bit-for-bit comparison.

A snapshot is a nested tuple/list/str structure; ``diff(a, b)`` returns the
first differing path or None.  "Equal but re-typed" (int64 -> float64),
None-vs-NaN in object cells, index dtype/name changes, column order and
label changes are all visible.
"""
from __future__ import annotations

import numpy as np
import pandas as pd

try:
    import polars as pl
except Exception:  # pragma: no cover
    pl = None


def _cell(x):
    return (type(x).__name__, repr(x))


def _array(arr):
    """pandas array / numpy array -> comparable."""
    if isinstance(arr, np.ndarray) and arr.dtype != object:
        return ("np", str(arr.dtype), np.ascontiguousarray(arr).tobytes().hex())
    try:
        vals = list(arr)
    except Exception:
        vals = [repr(arr)]
    return ("obj", str(getattr(arr, "dtype", "?")), [_cell(v) for v in vals])


def _index(idx):
    if isinstance(idx, pd.MultiIndex):
        return ("MultiIndex", [repr(n) for n in idx.names],
                [_index(idx.get_level_values(i)) for i in range(idx.nlevels)])
    if isinstance(idx, pd.RangeIndex):
        return ("RangeIndex", repr(idx.name), idx.start, idx.stop, idx.step)
    a = idx.array
    a = a.to_numpy() if isinstance(a, pd.arrays.NumpyExtensionArray) else a
    return (type(idx).__name__, repr(idx.name), str(idx.dtype), _array(a))


def _series_vals(s):
    a = s.array
    if isinstance(a, pd.arrays.NumpyExtensionArray):
        a = a.to_numpy()
    elif isinstance(a, (pd.arrays.DatetimeArray, pd.arrays.TimedeltaArray)) \
            and getattr(s.dtype, "tz", None) is None:
        a = a.asi8
        return ("i8", str(s.dtype), np.ascontiguousarray(a).tobytes().hex())
    return _array(a)


def snap(obj):
    if isinstance(obj, pd.DataFrame):
        return ("DataFrame",
                [_cell(c) for c in obj.columns],
                _index(obj.columns) if isinstance(obj.columns, pd.MultiIndex)
                else repr(obj.columns.name),
                [(str(obj.dtypes.iloc[i]), _series_vals(obj.iloc[:, i]))
                 for i in range(obj.shape[1])],
                _index(obj.index))
    if isinstance(obj, pd.Series):
        return ("Series", _cell(obj.name), str(obj.dtype), _series_vals(obj),
                _index(obj.index))
    if isinstance(obj, pd.Index):
        return _index(obj)
    if pl is not None and isinstance(obj, pl.DataFrame):
        return ("pl.DataFrame", [(k, str(v)) for k, v in obj.schema.items()],
                [[_cell(v) for v in obj[c].to_list()] for c in obj.columns])
    if pl is not None and isinstance(obj, pl.LazyFrame):
        df = obj.collect()
        return ("pl.LazyFrame",) + snap(df)[1:]
    return ("other", type(obj).__name__, repr(obj)[:500])


def diff(a, b, path="$"):
    if type(a) is not type(b):
        return f"{path}: type {type(a).__name__} != {type(b).__name__}"
    if isinstance(a, (list, tuple)):
        if len(a) != len(b):
            return f"{path}: len {len(a)} != {len(b)}"
        for i, (x, y) in enumerate(zip(a, b)):
            d = diff(x, y, f"{path}[{i}]")
            if d:
                return d
        return None
    if a != b:
        sa, sb = repr(a), repr(b)
        return f"{path}: {sa[:80]} != {sb[:80]}"
    return None


def kind(obj):
    """Container kind for C04's B-KIND."""
    if isinstance(obj, pd.DataFrame):
        return "pd.DataFrame"
    if isinstance(obj, pd.Series):
        return "pd.Series"
    if isinstance(obj, pd.Index):
        return "pd.Index"
    if pl is not None and isinstance(obj, pl.LazyFrame):
        return "pl.LazyFrame"
    if pl is not None and isinstance(obj, pl.DataFrame):
        return "pl.DataFrame"
    return type(obj).__name__
