"""MANIFEST.setup_cmd: offline install of icontract into /verif/.deps and an import smoke test."""
import sys
from . import env

def main():
    env.ensure_deps()
    import icontract  # noqa
    pa = env.pin_repo()
    print("pvm setup ok: pandera at", pa.__file__, "icontract", icontract.__version__)
    return 0

if __name__ == "__main__":
    sys.exit(main())
