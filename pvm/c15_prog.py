"""Transformation programs for C15: generation, application to the schema and
the mirrored dataframe transformation.

A program step is a JSON-able dict ``{"m": method, ...}``.  ``gen_step`` looks
at the *live* schema (its column keys, which are regex / required, whether it
has an index) so that every generated request is applicable, and at the data
table so that the mirrored frame stays acceptable by construction:

  add_columns     <-> frame[label] = good pool values for every passed column:
                      a label the schema already has is REPLACED at its
                      position (assign semantics), a new one is appended;
                      1-3 columns per call, new and replacing ones mixed
                      (a regex key is replaced by a regex column: every
                      matching label gets the new values)
  remove_columns  <-> frame.drop(columns)           (regex key: every match)
  select_columns  <-> frame[columns in that order]  (regex key: every match)
  rename_columns  <-> frame.rename(columns=...)     (non-regex keys only)
  update_column(s)<-> frame unchanged for neutral / relaxing updates (including
                      options cleared with None and falsy values: title="",
                      metadata={}, checks=[], default=0, ...), for tightening
                      ones the data satisfies and for replaced checks that the
                      pool satisfies; astype for dtype
  set_index       <-> frame.set_index(keys, drop=, append=)      (pandas only)
  reset_index     <-> frame.reset_index(level=, drop=)           (pandas only)
"""
from __future__ import annotations

import copy

from . import c05_gen as G

LOST_BY_REBUILD = ("title", "description", "default", "metadata",
                   "report_duplicates", "drop_invalid_rows", "parsers")


def _pa(backend):
    if backend == "polars":
        import pandera.polars as pa
    else:
        import pandera as pa
    return pa


class State:
    """Live schema + a real accepted frame + bookkeeping about the keys."""

    def __init__(self, spec, schema):
        self.spec = spec
        self.backend = spec["backend"]
        self.schema = schema
        table = G.good_table(spec)
        if self.backend == "polars":
            self.frame = G.to_polars(spec, table)
        else:
            self.frame = G.to_pandas(spec, table)
        # key -> facts about the column of the live schema with that key
        self.cols = {c["name"]: {"dtype": c["dtype"], "regex": c["regex"],
                                 "required": c["required"],
                                 "bad": next((k["bad"] for k in c["checks"]
                                              if k.get("bad") is not None
                                              and not k.get("raise_warning")), None)}
                     for c in spec["columns"]}
        self.numeric_only = bool(spec.get("df_checks")) and any(
            c["kind"] != "custom" for c in spec["df_checks"])
        self.frame_dtype = spec.get("dtype")
        self.level_dtype = {lv["name"]: lv["dtype"] for lv in spec.get("index") or []}
        self.counter = 0
        # the real objects handed to the last transforming request
        self.last_added = {}     # key -> Column passed to add_columns
        self.last_kw = {}        # key -> built keyword arguments of the update

    @property
    def index(self):
        if self.backend == "polars":
            return []
        return [n for n in self.frame.index.names if n is not None]

    def labels(self, key):
        cols = list(self.frame.columns)
        if self.cols[key]["regex"]:
            return [l for l in cols if str(l).startswith("r_")]
        return [key] if key in cols else []


# --------------------------------------------------------------------------
def gen_step(rng, st: State):
    keys = list(st.schema.columns)
    plain = [k for k in keys if not st.cols[k]["regex"]]
    methods = ["add_columns", "remove_columns", "select_columns", "rename_columns",
               "update_column", "update_column", "update_columns", "update_columns"]
    if st.backend == "pandas":
        methods += ["set_index", "set_index", "reset_index", "reset_index"]
    methods += ["component_checks"]
    for _ in range(8):
        m = rng.choice(methods)
        if rng.random() < 0.04 and m in ("add_columns", "remove_columns", "rename_columns",
                                         "update_column", "update_columns"):
            # empty request: nothing named, everything is "untouched"
            k = rng.choice(keys) if keys else None
            if m == "update_column" and k is None:
                continue
            return {"add_columns": {"m": m, "cols": []},
                    "remove_columns": {"m": m, "keys": []},
                    "rename_columns": {"m": m, "map": {}},
                    "update_column": {"m": m, "key": k, "kw": {}},
                    "update_columns": {"m": m, "upd": {k: {}} if k is not None
                                       and rng.random() < 0.5 else {}}}[m]
        if m == "add_columns":
            return {"m": m, "cols": gen_add(rng, st, keys, plain)}
        if m == "remove_columns" and len(keys) >= 2:
            ks = rng.sample(keys, 1 if rng.random() < 0.8 or len(keys) < 3 else 2)
            return {"m": m, "keys": ks}
        if m == "select_columns" and keys:
            ks = rng.sample(keys, rng.randint(1, len(keys)))
            return {"m": m, "keys": ks}
        if m == "rename_columns" and plain:
            ks = rng.sample(plain, 1 if rng.random() < 0.7 else min(2, len(plain)))
            mp = {}
            for k in ks:
                new = f"{k}_x"
                if rng.random() < 0.12 and "" not in keys \
                        and "" not in mp.values() and "" not in st.index:
                    new = ""          # a legal but falsy label
                while new in keys or new in mp.values():   # never onto a live key
                    new += "x"
                mp[k] = new
            return {"m": m, "map": mp}
        if m == "update_column" and keys:
            k = rng.choice(keys)
            return {"m": m, "key": k, "kw": gen_update(rng, st, k)}
        if m == "update_columns" and keys:
            ks = rng.sample(keys, 1 if rng.random() < 0.7 else min(2, len(keys)))
            return {"m": m, "upd": {k: gen_update(rng, st, k) for k in ks}}
        if m == "set_index":
            cand = [k for k in plain if st.cols[k]["required"]
                    and k not in st.index        # no duplicate level names
                    and st.cols[k]["dtype"] in ("int", "float", "str", "dt", "const")]
            if cand and len(keys) >= 2:
                ks = rng.sample(cand, 1 if rng.random() < 0.8 or len(keys) < 3
                                else min(2, len(cand)))
                append = bool(st.index) and rng.random() < (0.6 if len(st.index) > 1 else 0.4)
                return {"m": m, "keys": ks, "drop": rng.random() < 0.8, "append": append}
        if m == "reset_index" and st.index:
            names = list(st.index)
            if any(n in st.frame.columns for n in names):
                continue              # pandas would refuse to insert a duplicate
            level = None
            if len(names) > 1 and rng.random() < 0.6:
                level = rng.sample(names, 1)
            return {"m": m, "level": level, "drop": rng.random() < 0.25}
        if m == "component_checks" and keys:
            return {"m": rng.choice(["update_checks", "set_checks"]),
                    "key": rng.choice(keys), "empty": rng.random() < 0.4}
    return {"m": "select_columns", "keys": keys}


def is_empty_request(step):
    m = step["m"]
    return (m == "add_columns" and not add_cols(step)) \
        or (m == "remove_columns" and not step["keys"]) \
        or (m == "rename_columns" and not step["map"]) \
        or (m == "update_column" and not step["kw"]) \
        or (m == "update_columns" and not any(step["upd"].values()))


def add_cols(step):
    """Column specs of an add_columns step (older witnesses: one "col")."""
    return step["cols"] if "cols" in step else [step["col"]]


def _new_dtype(rng, st, avoid=None, distinct_values=False):
    if st.frame_dtype:
        return st.frame_dtype
    cand = ["int", "float"] if st.numeric_only else ["int", "float", "str", "bool", "dt"]
    if distinct_values:
        cand = [d for d in cand if d != "bool"]
    if avoid in cand and len(cand) > 1 and rng.random() < 0.75:
        cand = [d for d in cand if d != avoid]      # mostly: another dtype
    return rng.choice(cand)


def gen_add(rng, st, keys, plain):
    """1-3 columns for one add_columns call.  Each is either new or re-defines
    a key the schema already has (the mirrored frame operation, assignment,
    replaces an existing label in place)."""
    n = 1 if rng.random() < 0.6 else rng.randint(2, 3)
    joint = set(getattr(st.schema, "unique", None) or [])
    taken, cols = set(), []
    for _ in range(n):
        if keys and rng.random() < 0.4:
            k = rng.choice(keys)
            if k in taken:
                continue
            taken.add(k)
            regex = st.cols[k]["regex"]
            if regex:
                dt = st.frame_dtype or rng.choice(
                    ["int", "float"] if st.numeric_only else ["int", "float", "str"])
            else:
                dt = _new_dtype(rng, st, avoid=st.cols[k]["dtype"],
                                distinct_values=k in joint)
            col = G.gen_column(rng, k, dt, backend=st.backend, regex=regex,
                               allow_custom=False, p_drop=0.3)
            if regex:
                col["unique"] = False
                if st.backend == "polars":
                    # polars unique_values_eq on a regex-selected column raises
                    # ColumnNotFoundError (not a C15 matter): use another check
                    col["checks"] = [c for c in col["checks"]
                                     if c["kind"] != "unique_values_eq"]
            col["replaces"] = True
        else:
            st.counter += 1
            col = G.gen_column(rng, f"n{st.counter}", _new_dtype(rng, st),
                               backend=st.backend, allow_custom=False, p_drop=0.3)
        col["required"] = True
        cols.append(col)
    if not cols:
        st.counter += 1
        col = G.gen_column(rng, f"n{st.counter}", _new_dtype(rng, st),
                           backend=st.backend, allow_custom=False, p_drop=0.3)
        col["required"] = True
        cols.append(col)
    return cols


# values that clear an option / falsy values an update has to honour like any
# other value
_FALSY_DEFAULT = {"int": 0, "float": 0.0, "str": "", "const": 0}


def is_set(v):
    return v is not None and not (isinstance(v, (list, dict, str)) and len(v) == 0)


def gen_clear(rng, st, k):
    """Update whose new value is None or falsy."""
    dt = st.cols[k]["dtype"]
    col = st.schema.columns[k]
    opts = ["title", "description", "metadata", "default", "checks", "dtype"]
    if st.backend == "pandas":
        opts.append("parsers")
    # prefer options that currently have a value (clearing them is observable)
    live = [a for a in opts if is_set(getattr(col, a, None))]
    kw = {}
    for a in rng.sample(live, min(len(live), rng.randint(1, 2))) if live and \
            rng.random() < 0.8 else [rng.choice(opts)]:
        if a == "dtype":
            kw[a] = None
            if rng.random() < 0.6:       # no requirement on the values at all
                kw.setdefault("checks", None if rng.random() < 0.6 else [])
        elif a in ("title", "description"):
            kw[a] = None if rng.random() < 0.65 else ""
        elif a == "metadata":
            kw[a] = None if rng.random() < 0.65 else {}
        elif a in ("checks", "parsers"):
            kw[a] = None if rng.random() < 0.6 else []
        elif a == "default":
            kw[a] = None if rng.random() < 0.6 or dt not in _FALSY_DEFAULT \
                else _FALSY_DEFAULT[dt]
    return kw


def gen_update(rng, st, k):
    dt = st.cols[k]["dtype"]
    if rng.random() < 0.3:
        return gen_clear(rng, st, k)
    if rng.random() < 0.12:
        # tightening / switching-off values the data satisfies
        opts = [{"nullable": False}, {"coerce": False}, {"unique": False}]
        if not (st.backend == "polars" and st.cols[k]["regex"]):
            # (polars regex columns: a check that cannot run there is only
            # tolerated while drop_invalid_rows is on - not a C15 matter)
            opts.append({"drop_invalid_rows": False})
        if st.backend == "pandas":
            opts.append({"report_duplicates": "all"})
        if not st.cols[k]["regex"] and k in st.frame.columns:
            opts.append({"required": True})
            if dt in ("int", "float", "str", "dt"):
                opts.append({"unique": True})
        return rng.choice(opts)
    r = rng.random()
    if r < 0.2:
        return {"title": "new title"}
    if r < 0.3:
        return {"description": "new description", "metadata": {"m": 2}}
    if r < 0.45:
        return {"nullable": True}
    if r < 0.55:
        return {"coerce": True}
    if r < 0.65 and not st.cols[k]["regex"]:
        return {"required": False}
    if r < 0.72:
        return {"unique": False}
    if r < 0.9 and G.CHECKS.get(dt):
        c = G.gen_check(rng, dt, rich=False)
        if st.backend == "polars" and c["kind"] == "unique_values_eq":
            # polars unique_values_eq on a regex-selected column raises
            # ColumnNotFoundError (not a C15 matter): use another check
            c = {"kind": "gt", "args": [0], "bad": -5}
        return {"checks": [c]}
    if dt == "int" and not st.frame_dtype and not st.cols[k].get("cast"):
        return {"dtype": "float"}
    return {"title": "t2"}


def gen_invalid(rng, st: State):
    keys = list(st.schema.columns)
    opts = ["remove_unknown", "remove_mixed", "select_unknown", "rename_unknown",
            "update_unknown", "update_name", "update_columns_unknown",
            "update_columns_name", "update_columns_falsy_name", "set_index_unknown"]
    if len(keys) >= 2:
        opts.append("rename_to_existing")
    if st.backend == "pandas":
        opts.append("reset_no_index" if not st.index else "reset_unknown_level")
    return {"m": "invalid", "what": rng.choice(opts), "pick": rng.randrange(1000)}


# --------------------------------------------------------------------------
def _kw(pa, st, k, kw, polars):
    out = {}
    for a, v in kw.items():
        if a == "checks" and v:
            out[a] = [G.build_check(pa, st.cols[k]["dtype"], c, polars) for c in v]
        elif a == "dtype" and v is not None:
            out[a] = G._pl_dtype(v) if polars else G._pd_dtype(v)
        else:
            out[a] = copy.deepcopy(v)
    return out


def apply_schema(step, st: State, schema=None):
    """Call the real transforming method; returns the new schema."""
    S = st.schema if schema is None else schema
    pa = _pa(st.backend)
    polars = st.backend == "polars"
    m = step["m"]
    if m == "add_columns":
        st.last_added = {c["name"]: G.build_column(c, st.backend)
                         for c in add_cols(step)}
        return S.add_columns(dict(st.last_added))
    if m == "remove_columns":
        return S.remove_columns(list(step["keys"]))
    if m == "select_columns":
        return S.select_columns(list(step["keys"]))
    if m == "rename_columns":
        return S.rename_columns(dict(step["map"]))
    if m == "update_column":
        st.last_kw = {step["key"]: _kw(pa, st, step["key"], step["kw"], polars)}
        return S.update_column(step["key"], **dict(st.last_kw[step["key"]]))
    if m == "update_columns":
        st.last_kw = {k: _kw(pa, st, k, kw, polars) for k, kw in step["upd"].items()}
        return S.update_columns({k: dict(kw) for k, kw in st.last_kw.items()})
    if m == "set_index":
        return S.set_index(list(step["keys"]), drop=step["drop"], append=step["append"])
    if m == "reset_index":
        return S.reset_index(level=copy.deepcopy(step["level"]), drop=step["drop"])
    if m in ("update_checks", "set_checks"):
        comp = S.columns[step["key"]]
        return getattr(comp, m)([] if step["empty"] else [pa.Check.ne(424242)])
    raise ValueError(m)


def apply_invalid(step, st: State):
    S = st.schema
    keys = list(S.columns)
    k = keys[step["pick"] % len(keys)] if keys else "a"
    w = step["what"]
    if w == "remove_unknown":
        return S.remove_columns(["no_such_col"])
    if w == "remove_mixed":
        return S.remove_columns([k, "no_such_col"])
    if w == "select_unknown":
        return S.select_columns([k, "no_such_col"])
    if w == "rename_unknown":
        return S.rename_columns({"no_such_col": "x", k: f"{k}_y"})
    if w == "rename_to_existing":
        other = keys[(step["pick"] + 1) % len(keys)]
        return S.rename_columns({k: other})
    if w == "update_unknown":
        return S.update_column("no_such_col", nullable=True)
    if w == "update_name":
        return S.update_column(k, name="other_name")
    if w == "update_columns_unknown":
        return S.update_columns({k: {"nullable": True}, "no_such_col": {"nullable": True}})
    if w == "update_columns_name":
        return S.update_columns({k: {"name": "other_name", "nullable": True}})
    if w == "update_columns_falsy_name":
        # a falsy new name is still a request to rename through update
        falsy = [v for v in ("", None, 0) if v != k]
        return S.update_columns({k: {"name": falsy[step["pick"] % len(falsy)],
                                     "nullable": True}})
    if w == "set_index_unknown":
        return S.set_index([k, "no_such_col"])
    if w == "reset_no_index":
        return S.reset_index()
    if w == "reset_unknown_level":
        return S.reset_index(level=["no_such_level"])
    raise ValueError(w)


def apply_data(step, st: State, new_schema):
    """Perform the same step on the real frame with the dataframe library
    and update the bookkeeping."""
    m = step["m"]
    D = st.frame
    polars = st.backend == "polars"
    if polars:
        import polars as pl
    if m == "add_columns":
        for c in add_cols(step):
            vals = list(G.POOL[c["dtype"]])
            if polars and c["dtype"] == "dt":
                import datetime
                vals = [datetime.datetime.fromisoformat(v) for v in vals]
            # assignment: an existing label is replaced in place, a new one is
            # appended; a regex key stands for every label it matches
            labs = st.labels(c["name"]) if c.get("regex") else [c["name"]]
            for lab in labs:
                if polars:
                    D = D.with_columns(pl.Series(lab, vals, dtype=G._pl_dtype(c["dtype"])))
                else:
                    D = D.copy()
                    D[lab] = G._pd_series(c["dtype"], vals).values
            st.cols[c["name"]] = {"dtype": c["dtype"], "regex": bool(c.get("regex")),
                                  "required": True,
                                  "bad": next((k["bad"] for k in c["checks"]
                                               if k.get("bad") is not None
                                               and not k.get("raise_warning")), None)}
    elif m == "remove_columns":
        labs = [l for k in step["keys"] for l in st.labels(k)]
        D = D.drop(labs) if polars else D.drop(columns=labs)
        for k in step["keys"]:
            del st.cols[k]
    elif m == "select_columns":
        labs = [l for k in step["keys"] for l in st.labels(k)]
        D = D.select(labs) if polars else D[labs]
        st.cols = {k: st.cols[k] for k in step["keys"]}
    elif m == "rename_columns":
        mp = {k: v for k, v in step["map"].items() if k in D.columns}
        D = D.rename(mp) if polars else D.rename(columns=mp)
        st.cols = {step["map"].get(kk, kk): v for kk, v in st.cols.items()}
    elif m in ("update_column", "update_columns"):
        upd = {step["key"]: step["kw"]} if m == "update_column" else step["upd"]
        for k, kw in upd.items():
            if kw.get("dtype") is not None:
                for lab in st.labels(k):
                    D = (D.with_columns(pl.col(lab).cast(pl.Float64)) if polars
                         else D.astype({lab: "float64"}))
                # the values stay 1.0, 2.0, 3.0: keep generating int-pool checks
                st.cols[k]["cast"] = True
                st.cols[k]["bad"] = None
            if "required" in kw:
                st.cols[k]["required"] = kw["required"]
            if "checks" in kw:
                st.cols[k]["bad"] = next((c["bad"] for c in kw["checks"] or []
                                          if c.get("bad") is not None), None)
    elif m == "set_index":
        D = D.set_index(list(step["keys"]), drop=step["drop"], append=step["append"])
        for k in step["keys"]:
            st.level_dtype[k] = st.cols[k]["dtype"]
            if step["drop"]:
                del st.cols[k]
    elif m == "reset_index":
        before = list(D.columns)
        D = D.reset_index(level=copy.deepcopy(step["level"]), drop=step["drop"])
        for lab in D.columns:
            if lab not in before:
                st.cols[lab] = {"dtype": st.level_dtype.get(lab), "regex": False,
                                "required": True,
                                "bad": None}
    st.frame = D
    st.schema = new_schema
