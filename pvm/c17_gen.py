"""C17 — programs for the decorator monitor.

scenario  = what is validated and what the body does (schema specs, tables,
            validate options, body plan, output designation) + a signature
            template
variant   = one of the equivalent ways of writing / calling that program:
            designation form x binding (function / method / classmethod /
            staticmethod) x call shape x {sync, async}

For every variant the real decorated function is called and observed through
an instrumented body; ``reference()`` is the wrapper *written from the
property statement*: validate the designated inputs with the decorator's
options through ``schema.validate`` directly, run the body iff all are
accepted, with the parsed objects, validate the designated outputs likewise,
otherwise return / raise exactly what the undecorated function does.
"""
from __future__ import annotations

import asyncio
import copy
import inspect

from . import c16_gen as P16, snap as S
from .gen import build as B, spec as G


class BodyError(Exception):
    """Raised by instrumented bodies (must reach the caller unchanged)."""


# (name, kind, has_default)
TEMPLATES = {
    "T1": [("df", "pos", False)],
    "T2": [("df", "pos", False), ("x", "pos", True)],
    "T3": [("x", "pos", False), ("df", "pos", False)],
    "T4": [("df", "pos", False), ("rest", "varpos", False)],
    "T5": [("x", "pos", False), ("df", "pos", False), ("rest", "varpos", False)],
    "T6": [("df", "pos", False), ("kw", "varkw", False)],
    "T7": [("x", "pos", False), ("df", "pos", False), ("y", "pos", True),
           ("rest", "varpos", False), ("k", "kwonly", True), ("kw", "varkw", False)],
    "T8": [("x", "pos", False), ("df", "kwonly", False)],
    "T9": [("x", "posonly", False), ("df", "pos", False)],
    "T10": [("df", "posonly", False), ("x", "pos", True)],
    "T11": [("df", "pos", False), ("other", "pos", False)],
    "T12": [("x", "pos", False), ("df", "pos", False), ("other", "pos", True)],
    "T13": [("df", "pos", False), ("x", "pos", True), ("y", "pos", True)],
}
DEFAULTS = {"x": 1, "y": 2, "k": None, "other": None}
OPTION_NAMES = ("head", "tail", "sample", "random_state", "lazy", "inplace")
NO_OPTIONS = {"head": None, "tail": None, "sample": None,
              "random_state": None, "lazy": False, "inplace": False}

_loop = None


def loop():
    global _loop
    if _loop is None or _loop.is_closed():
        _loop = asyncio.new_event_loop()
    return _loop


# ------------------------------------------------------------ descriptions
def is_frame(v):
    return S.kind(v) in ("pd.DataFrame", "pd.Series", "pl.DataFrame",
                         "pl.LazyFrame")


def desc(v):
    if is_frame(v):
        return ("frame", S.snap(v))
    if isinstance(v, tuple):
        return ("tuple", [desc(x) for x in v])
    if isinstance(v, list):
        return ("list", [desc(x) for x in v])
    if isinstance(v, dict):
        return ("dict", [[repr(k), desc(x)] for k, x in v.items()])
    return ("v", type(v).__name__, repr(v)[:80])


def _norm_cell(x):
    try:
        import pandas as pd
        if x is None or x is pd.NaT or x is pd.NA or (isinstance(x, float) and x != x):
            return None
    except Exception:
        pass
    return repr(x)


def exc_norm(e):
    """Comparable summary of what was raised (messages carry decorator
    context and are not compared; reason codes are rewritten by check_types
    and are not compared either)."""
    import pandera.errors as pe
    if isinstance(e, BodyError):
        return ("BodyError", e.args)
    if isinstance(e, pe.SchemaErrors):
        try:
            fc = e.failure_cases
            if hasattr(fc, "to_dicts"):
                rows = [tuple(_norm_cell(r.get(k)) for k in
                              ("column", "check", "failure_case", "index"))
                        for r in fc.to_dicts()]
            else:
                rows = [tuple(_norm_cell(r.get(k)) for k in
                              ("column", "check", "failure_case", "index"))
                        for r in fc.to_dict("records")]
            return ("SchemaErrors", sorted(map(repr, rows)))
        except Exception as e2:
            return ("SchemaErrors", "unreadable:" + type(e2).__name__)
    if isinstance(e, pe.SchemaError):
        fc = e.failure_cases
        try:
            if hasattr(fc, "to_dicts"):
                rows = sorted(repr(sorted((k, _norm_cell(v)) for k, v in r.items()))
                              for r in fc.to_dicts())
            elif hasattr(fc, "to_dict"):
                rows = sorted(repr((_norm_cell(r.get("index")),
                                    _norm_cell(r.get("failure_case"))))
                              for r in fc.to_dict("records"))
            else:
                rows = repr(fc)[:120]
        except Exception:
            rows = "unreadable"
        chk = e.check if isinstance(e.check, str) else str(e.check)
        return ("SchemaError", rows, chk[:120], e.check_index)
    return ("exc", type(e).__name__)


# -------------------------------------------------------------- functions
def source(params, first, is_async, ann):
    parts = []
    if first:
        parts.append(first)

    def p(name, default):
        s = name
        if name in ann:
            s += ": ANN_%s" % name
        if default:
            s += " = DEFAULT_%s" % name
        return s

    posonly = [q for q in params if q[1] == "posonly"]
    pos = [q for q in params if q[1] == "pos"]
    varpos = [q for q in params if q[1] == "varpos"]
    kwonly = [q for q in params if q[1] == "kwonly"]
    varkw = [q for q in params if q[1] == "varkw"]
    parts += [p(n, d) for n, _, d in posonly]
    if posonly:
        parts.append("/")
    parts += [p(n, d) for n, _, d in pos]
    if varpos:
        parts.append("*" + p(varpos[0][0], False))
    elif kwonly:
        parts.append("*")
    parts += [p(n, d) for n, _, d in kwonly]
    if varkw:
        parts.append("**" + p(varkw[0][0], False))
    ret = " -> ANN_return" if "return" in ann else ""
    names = [q[0] for q in params]
    body = "{%s}" % ", ".join("%r: %s" % (n, n) for n in names)
    return "%sdef fn(%s)%s:\n    return __body__(%s, %s)\n" % (
        "async " if is_async else "", ", ".join(parts), ret, body,
        first or "None")


def make_fn(params, first, is_async, body, ann=None, name="fn"):
    ann = ann or {}
    g = {"__body__": body}
    for k, v in ann.items():
        g["ANN_%s" % k] = v
    for k, v in DEFAULTS.items():
        g["DEFAULT_%s" % k] = v
    exec(source(params, first, is_async, ann), g)  # noqa: S102 - own template
    fn = g["fn"]
    fn.__name__ = fn.__qualname__ = name
    fn.__module__ = "pvm.c17_programs"
    return fn


def make_body(rec, plan, materialise):
    """Instrumented body.  rec: {"calls": [...], "first": [...]}"""
    def body(argd, first):
        rec["calls"].append({k: desc(v) for k, v in argd.items()})
        rec["first"].append(first)
        if plan["raise"]:
            raise BodyError("boom")
        shape = plan["shape"]
        if shape == "scalar":
            return 42
        frame = argd["df"] if plan["source"] == "input" else materialise("out")
        if shape == "bare":
            return frame
        if shape == "tuple":
            return (7, frame)
        if shape == "list":
            return [frame, 7]
        if shape == "dict":
            return {"k": frame, "j": 7}
        if shape == "tuple2":
            return (frame, materialise("out2"))
        raise AssertionError(shape)
    return body


OUT_GETTERS = {"bare": [None], "tuple": [1], "list": [0], "dict": ["k"],
               "tuple2": [0, 1]}


# ------------------------------------------------------------- call shapes
def gen_call(rng, params, values, designated):
    """(args, kwargs) describing one legal way to pass ``values``.
    values: param name -> value spec; varpos -> list; varkw -> dict.
    Designated parameters are always supplied."""
    names_pos = [n for n, k, _ in params if k in ("posonly", "pos")]
    n_posonly = sum(1 for _, k, _ in params if k == "posonly")
    has_varpos = any(k == "varpos" for _, k, _ in params)
    extras = values.get("rest", [])
    # parameters with defaults may be omitted (never the designated ones),
    # but only as a suffix of what is passed positionally
    supplied = {n for n, k, d in params
                if k not in ("varpos", "varkw") and
                (not d or n in designated or rng.random() < 0.6)}
    if has_varpos and extras:
        npos = len(names_pos)            # everything positional, then extras
        supplied |= set(names_pos)
    else:
        npos = rng.randint(n_posonly, len(names_pos))
    args, kwargs = [], {}
    for i, n in enumerate(names_pos):
        if i < npos:
            if n not in supplied:
                # cannot skip a positional slot: pass the rest by keyword
                npos = i
                break
            args.append(values[n])
    passed_pos = set(names_pos[:npos])
    kw_names = [n for n, k, _ in params
                if k in ("pos", "kwonly") and n not in passed_pos and n in supplied]
    # posonly parameters that could not be passed positionally are impossible
    for n in names_pos[:n_posonly]:
        if n not in passed_pos:
            return gen_call(rng, params, values, designated)
    rng.shuffle(kw_names)
    for n in kw_names:
        kwargs[n] = values[n]
    if has_varpos and extras and npos == len(names_pos):
        args += list(extras)
    for k, v in values.get("kw", {}).items():
        kwargs[k] = v
    return args, kwargs


# ---------------------------------------------------------------- reference
class Reject(Exception):
    def __init__(self, errors):
        self.errors = errors        # list of normalised acceptable errors


def _validate(schema, obj, options):
    return schema.validate(obj, **options)


def reference(fn_plain, first_obj, args, kwargs, in_specs, options, out_specs,
              is_async, remat=None):
    """The wrapper the property statement describes.

    in_specs : [(param name, validator)] validator(value, options) -> parsed
               list of acceptable parsed values, or raises Reject
    out_specs: [(getter, schema factory, replace: bool)]
    Returns dict(outcomes=[acceptable outcomes], raw=<undecided alternative>).
    """
    import pandera.errors as pe
    full = ((first_obj,) if first_obj is not None else ()) + tuple(args)
    sig = inspect.signature(fn_plain)
    ba = sig.bind(*full, **kwargs)
    rejects = []
    in_new_object = []   # inputs whose validate() returned another object
    for name, validator in in_specs:
        if name not in ba.arguments:
            continue
        v = ba.arguments[name]
        kind = sig.parameters[name].kind
        try:
            if kind is inspect.Parameter.VAR_POSITIONAL:
                ba.arguments[name] = tuple(validator(x, options) for x in v)
            elif kind is inspect.Parameter.VAR_KEYWORD:
                ba.arguments[name] = {k: validator(x, options)
                                      for k, x in v.items()}
            else:
                ba.arguments[name] = validator(v, options)
                if v is not None and ba.arguments[name] is not v:
                    in_new_object.append(name)
        except Reject as r:
            rejects.append(r.errors)
    if rejects:
        # which of several invalid inputs is reported first is not documented
        # ... nor is whether inputs validated "before" the failing one were
        # already parsed in place (inplace=True)
        return {"called": False,
                "outcomes": [("raise", e) for errs in rejects for e in errs],
                "multi_reject": len(rejects) > 1 or len(
                    [1 for n, _ in in_specs if n in ba.arguments]) > 1}
    try:
        res = fn_plain(*ba.args, **ba.kwargs)
        if is_async:
            res = loop().run_until_complete(res)
    except BodyError as e:
        return {"called": True, "outcomes": [("raise", exc_norm(e))],
                "in_new_object": in_new_object}
    raw = desc(res)
    body_result = res    # the object the body returned (async check_output)
    new_object = []      # getters whose validate() returned another object
    changed = []
    try:
        for getter, schema_factory, replace in out_specs:
            obj = res if getter is None else (
                getter(res) if callable(getter) else res[getter])
            parsed = _validate(schema_factory(), obj, options)
            if parsed is not obj:
                new_object.append(getter)
                if getter is not None and S.snap(parsed) != S.snap(obj):
                    # ... and the object it was given is not what it
                    # returned: putting back / leaving in place shows
                    changed.append(getter)
            if not replace:
                continue
            if getter is None:
                res = parsed
            elif isinstance(res, tuple):
                res = tuple(parsed if i == getter else x
                            for i, x in enumerate(res))
            else:
                res[getter] = parsed
    except Exception as e:   # whatever validate raises reaches the caller
        return {"called": True, "outcomes": [("raise", exc_norm(e))],
                "in_new_object": in_new_object}
    return {"called": True, "outcomes": [("return", desc(res))],
            "raw": ("return", raw),
            # ... in the state in-place validation left it in
            "raw_after": ("return", desc(body_result)),
            "out_new_object": new_object,
            "out_parsed_differs": changed,
            "in_new_object": in_new_object}


def schema_validator(schema_factory):
    """validator for check_input / check_io designated inputs."""
    import pandera.errors as pe

    def v(value, options):
        try:
            return _validate(schema_factory(), value, options)
        except Exception as e:   # whatever validate raises, so would the
            raise Reject([exc_norm(e)])   # decorator that calls it
    return v


# ------------------------------------------------------------------ scenario
def gen_schema_spec(rng, backend, series=False, parse_heavy=False):
    neutral = backend == "polars"
    spec = G.gen_spec(rng, neutral=neutral, kind="series" if series else "frame",
                      max_cols=3, allow_index=False, allow_regex=False,
                      allow_frame_opts=True)
    if spec["kind"] == "frame":
        spec["unique"] = None          # keep D25-style corners out of here
        for c in spec["columns"]:
            c["required"] = True
            if c["dtype"] in ("int64", "float64") and rng.random() < 0.45:
                c["coerce"] = True
        add_parse_features(rng, spec, backend, parse_heavy)
    else:
        if spec["field"]["dtype"] in ("int64", "float64") and (
                parse_heavy or rng.random() < 0.4):
            spec["field"]["coerce"] = True
    return spec


def add_parse_features(rng, spec, backend, force=False):
    """Schema features whose ``validate`` hands back *another object* than it
    was given, also with ``inplace=True`` (on pandas: frame-level dtype
    coercion, add_missing_columns, a dataframe-level parser; column-level
    coercion really happens in place; a polars validate never returns its
    argument): the decorator has to pass on / put back what validate
    returned, not what it was given.  Recorded in spec["c17_features"]."""
    feats = []
    cols = spec["columns"]
    numeric = [c for c in cols if c["dtype"] in ("int64", "float64")]
    if spec.get("dtype") and rng.random() < 0.6:
        spec["coerce"] = True
        feats.append("frame-dtype-coerce")
    elif rng.random() < 0.12:
        spec["coerce"] = True
        feats.append("frame-coerce")
    if len(cols) >= 2 and rng.random() < 0.15:
        c = rng.choice(cols)
        ok = [x for x in G.satisfying(c) if x is not None]
        if ok:
            c["default"] = rng.choice(ok)
            spec["add_missing_columns"] = True
            spec["c17_omit"] = c["name"]
            feats.append("add-missing-columns")
    if backend == "pandas" and numeric and rng.random() < 0.12:
        spec["c17_df_parser"] = "abs-of-numeric-columns"
        feats.append("dataframe-parser")
    if force and not [f for f in feats if f != "frame-coerce"]:
        # parse-heavy scenario: make sure one of them is there
        cands = []
        if backend == "pandas" and numeric:
            cands.append("dataframe-parser")
            if len(numeric) == len(cols) and not spec.get("checks"):
                cands += ["frame-dtype-coerce"] * 2
        if backend == "polars" and numeric:
            cands.append("column-coerce")
        defaultable = [c for c in cols
                       if [x for x in G.satisfying(c) if x is not None]]
        if len(cols) >= 2 and defaultable:
            cands.append("add-missing-columns")
        if cands:
            f = rng.choice(cands)
            if f == "dataframe-parser":
                spec["c17_df_parser"] = "abs-of-numeric-columns"
            elif f == "frame-dtype-coerce":
                spec["dtype"] = rng.choice(["int64", "float64"])
                spec["coerce"] = True
            elif f == "column-coerce":
                rng.choice(numeric)["coerce"] = True
            else:
                c = rng.choice(defaultable)
                c["default"] = rng.choice(
                    [x for x in G.satisfying(c) if x is not None])
                spec["add_missing_columns"] = True
                spec["c17_omit"] = c["name"]
            if f != "column-coerce":
                feats.append(f)
    spec["c17_features"] = feats


def parses(spec):
    """the schema coerces somewhere"""
    if spec["kind"] == "series":
        return bool(spec["field"].get("coerce"))
    return bool(spec.get("coerce")) or any(c.get("coerce") for c in spec["columns"])


def corrupt_rows(rng, spec, table, rows):
    """Make exactly the given row positions invalid (one violating value
    each) when a column has a check with a violating pool value."""
    fields = [spec["field"]] if spec["kind"] == "series" else spec["columns"]
    cands = []
    for fs in fields:
        for c in table["columns"]:
            if c["name"] == fs["name"] and G.violating(fs) and c["values"] \
                    and c["phys"] == G.PHYS_OF[fs["dtype"]]:
                cands.append((fs, c))
    if not cands:
        return False
    fs, c = rng.choice(cands)
    for r in rows:
        if r < len(c["values"]):
            c["values"][r] = rng.choice(G.violating(fs))
    return True


def gen_table_for(rng, spec, options, validity):
    """validity: 'valid' | 'invalid' | 'invalid-outside-subsample' | 'coercible'"""
    sp = copy.deepcopy(spec)
    n = rng.choice([3, 4, 5, 6])
    table = G.gen_table(rng, sp, nrows=n)
    note = validity
    if sp.get("c17_omit") and len(table["columns"]) > 1 and rng.random() < 0.7:
        # the column add_missing_columns has to supply from its default
        table["columns"] = [c for c in table["columns"]
                            if c["name"] != sp["c17_omit"]]
    if validity == "invalid":
        if not G.mutate(rng, sp, table, k=1):
            corrupt_rows(rng, sp, table, [rng.randrange(n)])
    elif validity == "invalid-outside-subsample":
        h, t = options.get("head"), options.get("tail")
        rows = [r for r in range(n)
                if not (h is not None and r < h) and not (t is not None and r >= n - t)]
        if options.get("sample") is not None or not rows or (h is None and t is None):
            rows = [n - 1] if h is not None else [0]
        if not corrupt_rows(rng, sp, table, rows[:1]):
            note = "valid"
    elif validity == "coercible":
        # values stay valid, physical dtype of coerce columns is changed
        fields = [sp["field"]] if sp["kind"] == "series" else sp["columns"]
        for fs in fields:
            if fs.get("coerce") or sp.get("coerce"):
                target = sp.get("dtype") or fs["dtype"]
                for c in table["columns"]:
                    if c["name"] == fs["name"] and all(v is not None for v in c["values"]) \
                            and c["phys"] == G.PHYS_OF.get(target):
                        if target == "int64":
                            c["values"] = [float(v) for v in c["values"]]
                            c["phys"] = "float64"
                        elif target == "float64" and all(
                                float(v).is_integer() and abs(v) < 2 ** 31
                                for v in c["values"]):
                            c["values"] = [int(v) for v in c["values"]]
                            c["phys"] = "int64"
    return table, note


def gen_options(rng):
    o = dict(NO_OPTIONS)
    r = rng.random()
    if r < 0.35:
        return o
    for _ in range(rng.choice([1, 1, 2])):
        k = rng.choice(["head", "tail", "sample", "lazy", "inplace", "lazy",
                        "head", "inplace"])
        if k in ("head", "tail"):
            # 0 is a set option (validate the columns and no row), not "unset"
            o[k] = rng.choice([0, 1, 1, 2, 2, 3])
        elif k == "sample":
            o["sample"] = rng.choice([0, 1, 1, 2, 2, 3])
            o["random_state"] = rng.choice([0, 1, 7])
        else:
            o[k] = True
    return o


def _abs_of_numeric_columns(df):
    import pandas as pd
    cols = {c: df[c].abs() for c in df.columns
            if pd.api.types.is_numeric_dtype(df[c].dtype)
            and not pd.api.types.is_bool_dtype(df[c].dtype)}
    return df.assign(**cols)          # always another object


def build_schema(spec, backend):
    if backend == "polars":
        return B.polars_schema(spec)
    schema = B.pandas_schema(spec)
    if spec.get("c17_df_parser"):
        import pandera as pa
        schema.parsers = [pa.Parser(_abs_of_numeric_columns)]
    return schema


def build_data(spec, table, backend):
    if backend == "polars":
        return B.polars_table(table)
    return B.pandas_table(spec, table)


# ------------------------------------------------------- check_types models
def gen_model_prog(rng, backend):
    """Single-class model program (inheritance is C16's subject); no regex
    fields / parsers so that one validate leaves no trace on the schema."""
    prog = P16.gen_program(rng, backend)
    cls = copy.deepcopy(prog["classes"][0])
    cls["parent"] = None
    cls["parsers"], cls["df_parsers"] = [], []
    cls["checks"] = [c for c in cls["checks"] if not c["regex"]]
    for f in cls["fields"]:
        if f["regex"]:
            f["regex"], f["alias"] = False, None
        if not isinstance(f["alias"], str):
            f["alias"] = None
        f["optional"] = False
    if cls["config"]:
        cls["config"]["options"].pop("unique", None)
        cls["config"]["options"].pop("drop_invalid_rows", None)
    return {"backend": backend, "classes": [cls]}
