"""C17 — programs for the decorator monitor.

scenario  = what is validated and what the body does (schema specs, tables,
            validate options, body plan, output designation) + a signature
            template
variant   = one of the equivalent ways of writing / calling that program:
            designation form x binding (function / method / classmethod /
            staticmethod) x call shape x {sync, async}

For every variant the real decorated function is called and observed through
an instrumented body; ``reference()`` is the wrapper *written from the
property statement*: validate the designated inputs with the decorator's
options through ``schema.validate`` directly, run the body iff all are
accepted, with the parsed objects, validate the designated outputs likewise,
otherwise return / raise exactly what the undecorated function does.
"""
from __future__ import annotations

import asyncio
import copy
import inspect

from . import c16_gen as P16, snap as S
from .gen import build as B, spec as G


class BodyError(Exception):
    """Raised by instrumented bodies (must reach the caller unchanged)."""


# (name, kind, has_default)
TEMPLATES = {
    "T1": [("df", "pos", False)],
    "T2": [("df", "pos", False), ("x", "pos", True)],
    "T3": [("x", "pos", False), ("df", "pos", False)],
    "T4": [("df", "pos", False), ("rest", "varpos", False)],
    "T5": [("x", "pos", False), ("df", "pos", False), ("rest", "varpos", False)],
    "T6": [("df", "pos", False), ("kw", "varkw", False)],
    "T7": [("x", "pos", False), ("df", "pos", False), ("y", "pos", True),
           ("rest", "varpos", False), ("k", "kwonly", True), ("kw", "varkw", False)],
    "T8": [("x", "pos", False), ("df", "kwonly", False)],
    "T9": [("x", "posonly", False), ("df", "pos", False)],
    "T10": [("df", "posonly", False), ("x", "pos", True)],
    "T11": [("df", "pos", False), ("other", "pos", False)],
    "T12": [("x", "pos", False), ("df", "pos", False), ("other", "pos", True)],
    "T13": [("df", "pos", False), ("x", "pos", True), ("y", "pos", True)],
}
DEFAULTS = {"x": 1, "y": 2, "k": None, "other": None}
OPTION_NAMES = ("head", "tail", "sample", "random_state", "lazy", "inplace")
NO_OPTIONS = {"head": None, "tail": None, "sample": None,
              "random_state": None, "lazy": False, "inplace": False}

_loop = None


def loop():
    global _loop
    if _loop is None or _loop.is_closed():
        _loop = asyncio.new_event_loop()
    return _loop


# ------------------------------------------------------------ descriptions
def is_frame(v):
    return S.kind(v) in ("pd.DataFrame", "pd.Series", "pl.DataFrame",
                         "pl.LazyFrame")


def desc(v):
    if is_frame(v):
        return ("frame", S.snap(v))
    if isinstance(v, tuple):
        return ("tuple", [desc(x) for x in v])
    if isinstance(v, list):
        return ("list", [desc(x) for x in v])
    if isinstance(v, dict):
        return ("dict", [[repr(k), desc(x)] for k, x in v.items()])
    return ("v", type(v).__name__, repr(v)[:80])


def _norm_cell(x):
    try:
        import pandas as pd
        if x is None or x is pd.NaT or x is pd.NA or (isinstance(x, float) and x != x):
            return None
    except Exception:
        pass
    return repr(x)


def exc_norm(e):
    """Comparable summary of what was raised (messages carry decorator
    context and are not compared; reason codes are rewritten by check_types
    and are not compared either)."""
    import pandera.errors as pe
    if isinstance(e, BodyError):
        return ("BodyError", e.args)
    if isinstance(e, pe.SchemaErrors):
        try:
            fc = e.failure_cases
            if hasattr(fc, "to_dicts"):
                rows = [tuple(_norm_cell(r.get(k)) for k in
                              ("column", "check", "failure_case", "index"))
                        for r in fc.to_dicts()]
            else:
                rows = [tuple(_norm_cell(r.get(k)) for k in
                              ("column", "check", "failure_case", "index"))
                        for r in fc.to_dict("records")]
            return ("SchemaErrors", sorted(map(repr, rows)))
        except Exception as e2:
            return ("SchemaErrors", "unreadable:" + type(e2).__name__)
    if isinstance(e, pe.SchemaError):
        fc = e.failure_cases
        try:
            if hasattr(fc, "to_dicts"):
                rows = sorted(repr(sorted((k, _norm_cell(v)) for k, v in r.items()))
                              for r in fc.to_dicts())
            elif hasattr(fc, "to_dict"):
                rows = sorted(repr((_norm_cell(r.get("index")),
                                    _norm_cell(r.get("failure_case"))))
                              for r in fc.to_dict("records"))
            else:
                rows = repr(fc)[:120]
        except Exception:
            rows = "unreadable"
        chk = e.check if isinstance(e.check, str) else str(e.check)
        return ("SchemaError", rows, chk[:120], e.check_index)
    return ("exc", type(e).__name__)


# -------------------------------------------------------------- functions
def source(params, first, is_async, ann):
    parts = []
    if first:
        parts.append(first)

    def p(name, default):
        s = name
        if name in ann:
            s += ": ANN_%s" % name
        if default:
            s += " = DEFAULT_%s" % name
        return s

    posonly = [q for q in params if q[1] == "posonly"]
    pos = [q for q in params if q[1] == "pos"]
    varpos = [q for q in params if q[1] == "varpos"]
    kwonly = [q for q in params if q[1] == "kwonly"]
    varkw = [q for q in params if q[1] == "varkw"]
    parts += [p(n, d) for n, _, d in posonly]
    if posonly:
        parts.append("/")
    parts += [p(n, d) for n, _, d in pos]
    if varpos:
        parts.append("*" + p(varpos[0][0], False))
    elif kwonly:
        parts.append("*")
    parts += [p(n, d) for n, _, d in kwonly]
    if varkw:
        parts.append("**" + p(varkw[0][0], False))
    ret = " -> ANN_return" if "return" in ann else ""
    names = [q[0] for q in params]
    body = "{%s}" % ", ".join("%r: %s" % (n, n) for n in names)
    return "%sdef fn(%s)%s:\n    return __body__(%s, %s)\n" % (
        "async " if is_async else "", ", ".join(parts), ret, body,
        first or "None")


def make_fn(params, first, is_async, body, ann=None, name="fn"):
    ann = ann or {}
    g = {"__body__": body}
    for k, v in ann.items():
        g["ANN_%s" % k] = v
    for k, v in DEFAULTS.items():
        g["DEFAULT_%s" % k] = v
    exec(source(params, first, is_async, ann), g)  # noqa: S102 - own template
    fn = g["fn"]
    fn.__name__ = fn.__qualname__ = name
    fn.__module__ = "pvm.c17_programs"
    return fn


FILLERS = [7, "s", None, 2.5]


def make_body(rec, plan, materialise):
    """Instrumented body.  rec: {"calls": [...], "first": [...]}

    Container outputs: ``plan["len"]`` elements with the frame at position
    ``plan["pos"]`` (tuple / list), resp. the frame under ``plan["key"]``
    before or after the other entry (dict)."""
    def body(argd, first):
        rec["calls"].append({k: desc(v) for k, v in argd.items()})
        rec["first"].append(first)
        if plan["raise"]:
            raise BodyError("boom")
        shape = plan["shape"]
        if shape == "scalar":
            return 42
        frame = argd["df"] if plan["source"] == "input" else materialise("out")
        if shape == "bare":
            return frame
        if shape in ("tuple", "list"):
            n = plan.get("len", 2)
            pos = plan.get("pos", 1 if shape == "tuple" else 0)
            items = [FILLERS[i % len(FILLERS)] for i in range(n)]
            items[pos] = frame
            return tuple(items) if shape == "tuple" else items
        if shape == "dict":
            key = plan.get("key", "k")
            if plan.get("pos", 0) == 0:
                return {key: frame, "j": 7}
            return {"j": 7, key: frame}
        if shape == "tuple2":
            return (frame, materialise("out2"))
        raise AssertionError(shape)
    return body


DICT_KEYS = ["k", "k", "", "a b", "0"]     # "" is a falsy-but-set getter


def gen_out_layout(rng, shape):
    """Where the designated object sits in a container output."""
    if shape in ("tuple", "list"):
        n = rng.choice([1, 2, 2, 2, 3, 3, 4])
        return {"len": n, "pos": rng.randrange(n)}
    if shape == "dict":
        return {"len": 2, "pos": rng.choice([0, 1]), "key": rng.choice(DICT_KEYS)}
    if shape == "tuple2":
        return {"len": 2, "pos": 0}
    return {}


def out_getters(plan, negative=()):
    """The obj_getter(s) designating the frame(s) of the body's output.
    ``negative[j]``: write the j-th integer getter as the equivalent negative
    index (``out[-1]`` is the last element, as everywhere in Python)."""
    shape = plan["shape"]
    if shape == "bare":
        return [None]
    if shape == "dict":
        return [plan.get("key", "k")]
    if shape == "tuple2":
        base, n = [0, 1], 2
    else:
        n = plan.get("len", 2)
        base = [plan.get("pos", 1 if shape == "tuple" else 0)]
    neg = list(negative) + [False] * len(base)
    return [g - n if neg[j] else g for j, g in enumerate(base)]


# ------------------------------------------------------------- call shapes
def gen_call(rng, params, values, designated):
    """(args, kwargs) describing one legal way to pass ``values``.
    values: param name -> value spec; varpos -> list; varkw -> dict.
    Designated parameters are always supplied."""
    names_pos = [n for n, k, _ in params if k in ("posonly", "pos")]
    n_posonly = sum(1 for _, k, _ in params if k == "posonly")
    has_varpos = any(k == "varpos" for _, k, _ in params)
    extras = values.get("rest", [])
    # parameters with defaults may be omitted (never the designated ones),
    # but only as a suffix of what is passed positionally
    supplied = {n for n, k, d in params
                if k not in ("varpos", "varkw") and
                (not d or n in designated or rng.random() < 0.6)}
    if has_varpos and extras:
        npos = len(names_pos)            # everything positional, then extras
        supplied |= set(names_pos)
    else:
        npos = rng.randint(n_posonly, len(names_pos))
    args, kwargs = [], {}
    for i, n in enumerate(names_pos):
        if i < npos:
            if n not in supplied:
                # cannot skip a positional slot: pass the rest by keyword
                npos = i
                break
            args.append(values[n])
    passed_pos = set(names_pos[:npos])
    kw_names = [n for n, k, _ in params
                if k in ("pos", "kwonly") and n not in passed_pos and n in supplied]
    # posonly parameters that could not be passed positionally are impossible
    for n in names_pos[:n_posonly]:
        if n not in passed_pos:
            return gen_call(rng, params, values, designated)
    rng.shuffle(kw_names)
    for n in kw_names:
        kwargs[n] = values[n]
    if has_varpos and extras and npos == len(names_pos):
        args += list(extras)
    for k, v in values.get("kw", {}).items():
        kwargs[k] = v
    return args, kwargs


# ---------------------------------------------------------------- reference
class Reject(Exception):
    def __init__(self, errors):
        self.errors = errors        # list of normalised acceptable errors


def _validate(schema, obj, options):
    return schema.validate(obj, **options)


def reference(fn_plain, first_obj, args, kwargs, in_specs, options, out_specs,
              is_async, remat=None):
    """The wrapper the property statement describes.

    in_specs : [(param name, validator)] validator(value, options) -> parsed
               list of acceptable parsed values, or raises Reject
    out_specs: [(getter, schema factory, replace: bool)]
    Returns dict(outcomes=[acceptable outcomes], raw=<undecided alternative>).
    """
    import pandera.errors as pe
    full = ((first_obj,) if first_obj is not None else ()) + tuple(args)
    sig = inspect.signature(fn_plain)
    ba = sig.bind(*full, **kwargs)
    rejects = []
    in_new_object = []   # inputs whose validate() returned another object
    for name, validator in in_specs:
        if name not in ba.arguments:
            continue
        v = ba.arguments[name]
        kind = sig.parameters[name].kind
        try:
            if kind is inspect.Parameter.VAR_POSITIONAL:
                ba.arguments[name] = tuple(validator(x, options) for x in v)
            elif kind is inspect.Parameter.VAR_KEYWORD:
                ba.arguments[name] = {k: validator(x, options)
                                      for k, x in v.items()}
            else:
                ba.arguments[name] = validator(v, options)
                if v is not None and ba.arguments[name] is not v:
                    in_new_object.append(name)
        except Reject as r:
            rejects.append(r.errors)
    if rejects:
        # which of several invalid inputs is reported first is not documented
        # ... nor is whether inputs validated "before" the failing one were
        # already parsed in place (inplace=True)
        return {"called": False,
                "outcomes": [("raise", e) for errs in rejects for e in errs],
                "multi_reject": len(rejects) > 1 or len(
                    [1 for n, _ in in_specs if n in ba.arguments]) > 1}
    try:
        res = fn_plain(*ba.args, **ba.kwargs)
        if is_async:
            res = loop().run_until_complete(res)
    except BodyError as e:
        return {"called": True, "outcomes": [("raise", exc_norm(e))],
                "in_new_object": in_new_object}
    raw = desc(res)
    body_result = res    # the object the body returned (async check_output)
    new_object = []      # getters whose validate() returned another object
    changed = []
    try:
        for getter, schema_factory, replace in out_specs:
            obj = res if getter is None else (
                getter(res) if callable(getter) else res[getter])
            parsed = _validate(schema_factory(), obj, options)
            if parsed is not obj:
                new_object.append(getter)
                if getter is not None and S.snap(parsed) != S.snap(obj):
                    # ... and the object it was given is not what it
                    # returned: putting back / leaving in place shows
                    changed.append(getter)
            if not replace:
                continue
            if getter is None:
                res = parsed
            elif isinstance(res, tuple):
                at = getter % len(res)       # out[-1] is the last element
                res = tuple(parsed if i == at else x
                            for i, x in enumerate(res))
            else:
                res[getter] = parsed
    except Exception as e:   # whatever validate raises reaches the caller
        return {"called": True, "outcomes": [("raise", exc_norm(e))],
                "in_new_object": in_new_object}
    return {"called": True, "outcomes": [("return", desc(res))],
            "raw": ("return", raw),
            # ... in the state in-place validation left it in
            "raw_after": ("return", desc(body_result)),
            "out_new_object": new_object,
            "out_parsed_differs": changed,
            "in_new_object": in_new_object}


def schema_validator(schema_factory):
    """validator for check_input / check_io designated inputs."""
    import pandera.errors as pe

    def v(value, options):
        try:
            return _validate(schema_factory(), value, options)
        except Exception as e:   # whatever validate raises, so would the
            raise Reject([exc_norm(e)])   # decorator that calls it
    return v


# ------------------------------------------------------------------ scenario
def gen_schema_spec(rng, backend, series=False, parse_heavy=False):
    neutral = backend == "polars"
    spec = G.gen_spec(rng, neutral=neutral, kind="series" if series else "frame",
                      max_cols=3, allow_index=False, allow_regex=False,
                      allow_frame_opts=True)
    if spec["kind"] == "frame":
        spec["unique"] = None          # keep D25-style corners out of here
        for c in spec["columns"]:
            c["required"] = True
            if c["dtype"] in ("int64", "float64") and rng.random() < 0.45:
                c["coerce"] = True
        add_parse_features(rng, spec, backend, parse_heavy)
    else:
        if spec["field"]["dtype"] in ("int64", "float64") and (
                parse_heavy or rng.random() < 0.4):
            spec["field"]["coerce"] = True
    return spec


def add_parse_features(rng, spec, backend, force=False):
    """Schema features whose ``validate`` hands back *another object* than it
    was given, also with ``inplace=True`` (on pandas: frame-level dtype
    coercion, add_missing_columns, a dataframe-level parser; column-level
    coercion really happens in place; a polars validate never returns its
    argument): the decorator has to pass on / put back what validate
    returned, not what it was given.  Recorded in spec["c17_features"]."""
    feats = []
    cols = spec["columns"]
    numeric = [c for c in cols if c["dtype"] in ("int64", "float64")]
    if spec.get("dtype") and rng.random() < 0.6:
        spec["coerce"] = True
        feats.append("frame-dtype-coerce")
    elif rng.random() < 0.12:
        spec["coerce"] = True
        feats.append("frame-coerce")
    if len(cols) >= 2 and rng.random() < 0.15:
        c = rng.choice(cols)
        ok = [x for x in G.satisfying(c) if x is not None]
        if ok:
            c["default"] = rng.choice(ok)
            spec["add_missing_columns"] = True
            spec["c17_omit"] = c["name"]
            feats.append("add-missing-columns")
    if backend == "pandas" and numeric and rng.random() < 0.12:
        spec["c17_df_parser"] = "abs-of-numeric-columns"
        feats.append("dataframe-parser")
    if force and not [f for f in feats if f != "frame-coerce"]:
        # parse-heavy scenario: make sure one of them is there
        cands = []
        if backend == "pandas" and numeric:
            cands.append("dataframe-parser")
            if len(numeric) == len(cols) and not spec.get("checks"):
                cands += ["frame-dtype-coerce"] * 2
        if backend == "polars" and numeric:
            cands.append("column-coerce")
        defaultable = [c for c in cols
                       if [x for x in G.satisfying(c) if x is not None]]
        if len(cols) >= 2 and defaultable:
            cands.append("add-missing-columns")
        if cands:
            f = rng.choice(cands)
            if f == "dataframe-parser":
                spec["c17_df_parser"] = "abs-of-numeric-columns"
            elif f == "frame-dtype-coerce":
                spec["dtype"] = rng.choice(["int64", "float64"])
                spec["coerce"] = True
            elif f == "column-coerce":
                rng.choice(numeric)["coerce"] = True
            else:
                c = rng.choice(defaultable)
                c["default"] = rng.choice(
                    [x for x in G.satisfying(c) if x is not None])
                spec["add_missing_columns"] = True
                spec["c17_omit"] = c["name"]
            if f != "column-coerce":
                feats.append(f)
    spec["c17_features"] = feats


def parses(spec):
    """the schema coerces somewhere"""
    if spec["kind"] == "series":
        return bool(spec["field"].get("coerce"))
    return bool(spec.get("coerce")) or any(c.get("coerce") for c in spec["columns"])


def corrupt_rows(rng, spec, table, rows):
    """Make exactly the given row positions invalid (one violating value
    each) when a column has a check with a violating pool value."""
    fields = [spec["field"]] if spec["kind"] == "series" else spec["columns"]
    cands = []
    for fs in fields:
        for c in table["columns"]:
            if c["name"] == fs["name"] and G.violating(fs) and c["values"] \
                    and c["phys"] == G.PHYS_OF[fs["dtype"]]:
                cands.append((fs, c))
    if not cands:
        return False
    fs, c = rng.choice(cands)
    for r in rows:
        if r < len(c["values"]):
            c["values"][r] = rng.choice(G.violating(fs))
    return True


def gen_table_for(rng, spec, options, validity, nrows=None, relaxed=None):
    """validity: 'valid' | 'invalid' | 'invalid-outside-subsample' | 'coercible'
    ``relaxed``: the spec object to generate from (the generator relaxes it in
    place where it cannot be satisfied) instead of a private copy"""
    sp = copy.deepcopy(spec) if relaxed is None else relaxed
    n = nrows or rng.choice([3, 4, 5, 6])
    try:
        table = G.gen_table(rng, sp, nrows=n)
    except AttributeError:
        # gen.spec's best-effort conformance to a frame-level dtype applies
        # the column's checks to values of that dtype (str checks on bools):
        # generate for the columns alone
        sp = dict(copy.deepcopy(spec), dtype=None, checks=None)
        table = G.gen_table(rng, sp, nrows=n)
    note = validity
    if sp.get("c17_omit") and len(table["columns"]) > 1 and rng.random() < 0.7:
        # the column add_missing_columns has to supply from its default
        table["columns"] = [c for c in table["columns"]
                            if c["name"] != sp["c17_omit"]]
    if validity == "invalid":
        if not G.mutate(rng, sp, table, k=1):
            corrupt_rows(rng, sp, table, [rng.randrange(n)])
    elif validity == "invalid-outside-subsample":
        h, t = options.get("head"), options.get("tail")
        rows = [r for r in range(n)
                if not (h is not None and r < h) and not (t is not None and r >= n - t)]
        if options.get("sample") is not None or not rows or (h is None and t is None):
            rows = [n - 1] if h is not None else [0]
        if not corrupt_rows(rng, sp, table, rows[:1]):
            note = "valid"
    elif validity == "coercible":
        # values stay valid, physical dtype of coerce columns is changed
        fields = [sp["field"]] if sp["kind"] == "series" else sp["columns"]
        for fs in fields:
            if fs.get("coerce") or sp.get("coerce"):
                target = sp.get("dtype") or fs["dtype"]
                for c in table["columns"]:
                    if c["name"] == fs["name"] and all(v is not None for v in c["values"]) \
                            and c["phys"] == G.PHYS_OF.get(target):
                        if target == "int64":
                            c["values"] = [float(v) for v in c["values"]]
                            c["phys"] = "float64"
                        elif target == "float64" and all(
                                float(v).is_integer() and abs(v) < 2 ** 31
                                for v in c["values"]):
                            c["values"] = [int(v) for v in c["values"]]
                            c["phys"] = "int64"
    return table, note


def gen_options(rng):
    o = dict(NO_OPTIONS)
    r = rng.random()
    if r < 0.35:
        return o
    for _ in range(rng.choice([1, 1, 2])):
        k = rng.choice(["head", "tail", "sample", "lazy", "inplace", "lazy",
                        "head", "inplace"])
        if k in ("head", "tail"):
            # 0 is a set option (validate the columns and no row), not "unset"
            o[k] = rng.choice([0, 1, 1, 2, 2, 3])
        elif k == "sample":
            o["sample"] = rng.choice([0, 1, 1, 2, 2, 3])
            o["random_state"] = rng.choice([0, 1, 7])
        else:
            o[k] = True
    return o


def _abs_of_numeric_columns(df):
    import pandas as pd
    cols = {c: df[c].abs() for c in df.columns
            if pd.api.types.is_numeric_dtype(df[c].dtype)
            and not pd.api.types.is_bool_dtype(df[c].dtype)}
    return df.assign(**cols)          # always another object


def build_schema(spec, backend):
    if backend == "polars":
        return B.polars_schema(spec)
    schema = B.pandas_schema(spec)
    if spec.get("c17_df_parser"):
        import pandera as pa
        schema.parsers = [pa.Parser(_abs_of_numeric_columns)]
    return schema


def build_data(spec, table, backend):
    if backend == "polars":
        return B.polars_table(table)
    return B.pandas_table(spec, table)


# ------------------------------------------------------- check_types models
def gen_model_prog(rng, backend):
    """Single-class model program (inheritance is C16's subject); no regex
    fields / parsers so that one validate leaves no trace on the schema."""
    prog = P16.gen_program(rng, backend)
    cls = copy.deepcopy(prog["classes"][0])
    cls["parent"] = None
    cls["parsers"], cls["df_parsers"] = [], []
    cls["checks"] = [c for c in cls["checks"] if not c["regex"]]
    for f in cls["fields"]:
        if f["regex"]:
            f["regex"], f["alias"] = False, None
        if not isinstance(f["alias"], str):
            f["alias"] = None
        f["optional"] = False
    if cls["config"]:
        cls["config"]["options"].pop("unique", None)
        cls["config"]["options"].pop("drop_invalid_rows", None)
    return {"backend": backend, "classes": [cls]}


# ------------------------------------------- schemas that differ only a little
# check_types does not re-validate a pandas frame whose ``.pandera`` accessor
# holds *the same exact schema* as the annotation.  "Almost the same" is the
# class in which that shortcut can go wrong: a frame validated earlier (by
# Model.validate, by another decorated function, by the input check of this
# very function) against a model that declares the same fields but other
# frame-level rules (Config.strict / ordered / unique / coerce /
# add_missing_columns / unique_column_names, a dataframe check, a registered
# check in Config), other field rules (nullable / unique / a check) or only
# another name / title / description / metadata.
SIBLING_DELTAS = ["strict", "strict", "ordered", "unique", "df_check",
                  "df_check", "extras", "extras", "coerce",
                  "add_missing_columns", "unique_column_names", "meta",
                  "field", "field"]


def _config(cls):
    if not cls["config"]:
        cls["config"] = {"style": "plain", "options": {}, "extras": {}}
    return cls["config"]


def gen_sibling_prog(rng, prog):
    """-> (prog of a model with the same fields as ``prog``'s but 1-2 other
    rules, the kinds of difference applied)."""
    sib = copy.deepcopy(prog)
    cls = sib["classes"][0]
    flat = P16.resolve(prog, 0)
    plain = [c for c in flat["columns"] if not c["regex"]]
    kinds = []
    want, tries = rng.choice([1, 1, 2]), 0
    while len(kinds) < want and tries < 8:
        tries += 1
        kind = rng.choice(SIBLING_DELTAS)
        if kind in kinds:
            continue
        cfg = _config(cls)
        o = cfg["options"]
        if kind == "strict":
            cur = o.get("strict", False)
            o["strict"] = rng.choice([v for v in (False, True, True, "filter")
                                      if v != cur])
        elif kind in ("ordered", "coerce", "add_missing_columns",
                      "unique_column_names"):
            o[kind] = not o.get(kind, False)
        elif kind == "unique":
            names = [c["name"] for c in plain if isinstance(c["name"], str)]
            if o.get("unique"):
                o.pop("unique")
            elif names:
                o["unique"] = rng.sample(names, min(len(names), rng.choice([1, 2])))
            else:
                continue
        elif kind == "df_check":
            if cls["df_checks"] and rng.random() < 0.5:
                cls["df_checks"].pop(rng.randrange(len(cls["df_checks"])))
            else:
                taken = {d["method"] for d in cls["df_checks"]}
                m = [x for x in ("dfc_sibling", "dfc_sibling2") if x not in taken][0]
                cls["df_checks"].append(P16.gen_dfcheckdef(rng, m, plain))
        elif kind == "extras":
            ex = cfg["extras"]
            if ex and rng.random() < 0.4:
                ex.pop(rng.choice(sorted(ex)))
            else:
                name = rng.choice(P16.EXTRA_CHECKS)
                mx = rng.choice([m for m in (1, 2, 3, 4, 5)
                                 if (ex.get(name) or {}).get("mx") != m])
                ex[name] = {"form": rng.choice(["scalar", "dict", "tuple"]),
                            "mx": mx}
        elif kind == "meta":
            what = rng.choice(["name", "title", "description", "metadata"])
            o[what] = {"name": "sibling schema", "title": "Sibling title",
                       "description": "Sibling description",
                       "metadata": {"owner": "sibling"}}[what]
            if what == "name" and rng.random() < 0.5:
                o.pop("name")
                cls["name"] = cls["name"] + "Sibling"   # the class name is the default
        elif kind == "field":
            cands = [f for f in cls["fields"] if f["has_field"] or f["ann"]]
            if not cands:
                continue
            f = rng.choice(cands)
            if not f["has_field"]:
                _give_field(f)
            what = rng.choice(["nullable", "unique", "check", "check"])
            if what == "check":
                if f["checks"] and rng.random() < 0.5:
                    f["checks"].pop(rng.randrange(len(f["checks"])))
                else:
                    fs = G.gen_field(rng, "x", dtype=f["dtype"], p_checks=1.0,
                                     max_checks=1,
                                     neutral=prog["backend"] == "polars")
                    new = P16._dedupe_checks(f["checks"] + fs["checks"])
                    try:
                        ok = G.satisfying({"dtype": f["dtype"], "checks": [
                            dict(k, ignore_na=True) for k in new]})
                    except TypeError:
                        ok = []
                    if new == f["checks"] or len(ok) < 2:
                        continue
                    f["checks"] = new
            else:
                f[what] = not f[what]
        kinds.append(kind)
    if not kinds:
        _config(cls)["options"]["title"] = "Sibling title"
        kinds.append("meta")
    return sib, kinds


def _give_field(f):
    """a bare annotation becomes ``= pa.Field(...)`` (all options at their
    defaults so far, see c16_gen._make_bare)"""
    f["has_field"] = True


def _limits(flat):
    """(max rows, max columns) the frame-level checks of a model allow"""
    rows = cols = None
    for d in flat["df_checks"]:
        if d["pred"] == "nrows_le5":
            rows = min(rows or 99, 5)
        elif d["pred"] == "ncols_le4":
            cols = min(cols or 99, 4)
    for name, v in flat["extras"].items():
        if name == "pvm_nrows_le":
            rows = min(rows or 99, v["mx"])
        else:
            cols = min(cols or 99, v["mx"])
    return rows, cols


def _both(flat_a, flat_c):
    """Table-generator spec of 'what both models accept' (best effort)."""
    spec = P16.gen_spec_of(flat_a)
    oa, oc = flat_a["options"], flat_c["options"]
    spec["strict"] = bool(oa.get("strict")) or bool(oc.get("strict"))
    spec["ordered"] = bool(oa.get("ordered") or oc.get("ordered"))
    spec["unique"] = sorted(set(oa.get("unique") or []) |
                            set(oc.get("unique") or [])) or None
    by_c = {repr(c["name"]): c for c in flat_c["columns"]}
    small = [d["col"] for f in (flat_a, flat_c) for d in f["df_checks"]
             if d["pred"] == "col_small"]
    for col in spec["columns"]:
        cc = by_c.get(repr(col["name"]))
        if cc is not None:
            have = [(k["kind"], repr(k["args"])) for k in col["checks"]]
            col["checks"] += [
                {"kind": k["kind"], "args": k["args"], "ignore_na": cc["ignore_na"]}
                for k in cc["checks"] if (k["kind"], repr(k["args"])) not in have]
            col["nullable"] = col["nullable"] and cc["nullable"]
            col["unique"] = col["unique"] or cc["unique"]
        if col["name"] in small and col["dtype"] in ("int64", "float64"):
            col["checks"].append({"kind": "lt", "args": {"max_value": 5},
                                  "ignore_na": True})
        try:
            if not G.satisfying(col):
                col["checks"] = [k for k in col["checks"]
                                 if k["kind"] != "lt" or k["args"] != {"max_value": 5}]
        except TypeError:
            pass
    return spec


def extra_rules(flat_a, flat_c):
    """Rules model A has on top of model C (what sibling_table can move a
    frame against)."""
    oa, oc = flat_a["options"], flat_c["options"]
    rows_a, cols_a = _limits(flat_a)
    rows_c, cols_c = _limits(flat_c)
    out = []
    if oa.get("strict", False) is not False and not oc.get("strict"):
        out.append("strict")
    for k in ("ordered", "unique", "unique_column_names"):
        if oa.get(k) and not oc.get(k):
            out.append(k)
    if rows_a and rows_a < (rows_c or 99) and rows_a < 7:
        out.append("rows")
    if cols_a and cols_a < (cols_c or 99) and not oa.get("strict") \
            and not oc.get("strict"):
        out.append("columns")
    small_c = [d["col"] for d in flat_c["df_checks"] if d["pred"] == "col_small"]
    if any(d["pred"] == "col_small" and d["col"] not in small_c
           for d in flat_a["df_checks"]):
        out.append("col_small")
    by_c = {repr(c["name"]): c for c in flat_c["columns"]}
    for ca in flat_a["columns"]:
        cc = by_c.get(repr(ca["name"]))
        if cc and ((ca["unique"] and not cc["unique"])
                   or (cc["nullable"] and not ca["nullable"])
                   or [k for k in ca["checks"] if k not in cc["checks"]]):
            out.append("field")
    return out


def orient(rng, prog, sib):
    """-> (annotation's model, carried model, swapped?): mostly the way round
    in which the annotation has a rule the carried model lacks"""
    fp, fs = P16.resolve(prog, 0), P16.resolve(sib, 0)
    a_orig, a_sib = extra_rules(fp, fs), extra_rules(fs, fp)
    swapped = rng.random() < 0.5
    if bool(a_orig) != bool(a_sib) and rng.random() < 0.8:
        swapped = bool(a_sib)
    return (sib, prog, True) if swapped else (prog, sib, False)


def sibling_table(rng, flat_a, flat_c, spec_a, options):
    """A table for a frame that is validated against the *carried* model C
    first and then passed where the annotation says A: generated to be valid
    for both, then (mostly) moved against a rule that A has and C lacks - so
    that C accepts it and A does not, or A parses it and C does not.
    -> (table, [what was done])"""
    oa, oc = flat_a["options"], flat_c["options"]
    rows_a, cols_a = _limits(flat_a)
    rows_c, cols_c = _limits(flat_c)
    keep_valid = rng.random() < 0.25
    nrows = None
    max_rows = min(rows_a or 99, rows_c or 99)
    if rows_a and not keep_valid and rows_a < (rows_c or 99) and rows_a < 7:
        nrows = rows_a + 1                   # one more than A allows
    elif max_rows < 6:
        nrows = rng.randint(1, max_rows)
    spec = _both(flat_a, flat_c)
    if cols_a or cols_c:
        spec["strict"] = True                # no undeclared column by chance
    want = "coercible" if parses(spec_a) and rng.random() < 0.3 else "valid"
    for _ in range(3):
        sp = copy.deepcopy(spec)
        table, _note = gen_table_for(rng, sp, options, want, nrows=nrows,
                                     relaxed=sp)
        if sp.get("unique") == spec.get("unique"):
            break                            # jointly unique as asked for
    cols = table["columns"]
    n = len(cols[0]["values"]) if cols else 0
    if keep_valid:
        return table, ["valid-for-both-models"]
    out = []
    if nrows and rows_a and nrows > rows_a:
        out.append("more-rows-than-a-frame-check-of-the-annotation-allows")

    def extra(k):
        name = "extra%d" % k
        if not any(c["name"] == name for c in cols):
            cols.insert(rng.randint(0, len(cols)),
                        {"name": name, "phys": "float64", "values": [0.5] * n})
    if cols_a and cols_a < (cols_c or 99) and not oa.get("strict") \
            and not oc.get("strict") and len(cols) <= cols_a:
        k = 0
        while len(cols) <= cols_a:
            extra(k)
            k += 1
        out.append("more-columns-than-a-frame-check-of-the-annotation-allows")
    if oa.get("strict", False) is not False and not oc.get("strict") \
            and len(cols) < (cols_c or 99):
        extra(9)
        out.append("undeclared-column:strict=%r" % (oa["strict"],))
    if oa.get("ordered") and not oc.get("ordered") and len(cols) >= 2 \
            and len({c["name"] for c in cols}) == len(cols):
        cols.append(cols.pop(0))
        out.append("columns-out-of-order")
    if oa.get("unique") and oa.get("unique") != oc.get("unique") \
            and not oc.get("unique") and n >= 2 \
            and not any(c["unique"] for c in flat_a["columns"] + flat_c["columns"]):
        i, j = rng.sample(range(n), 2)
        for c in cols:
            c["values"][j] = c["values"][i]
        out.append("duplicate-row")
    if oa.get("unique_column_names") and not oc.get("unique_column_names") \
            and cols and not oc.get("strict") and len(cols) < (cols_c or 99):
        i = rng.randrange(len(cols))
        cols.insert(i + 1, copy.deepcopy(cols[i]))
        out.append("duplicate-column-label")
    for d in flat_a["df_checks"]:
        if d["pred"] != "col_small" or any(
                x["pred"] == "col_small" and x["col"] == d["col"]
                for x in flat_c["df_checks"]):
            continue
        for c in cols:
            if c["name"] == d["col"] and c["values"] and \
                    c["phys"] in ("int64", "float64"):
                fs = [x for x in spec["columns"] if x["name"] == c["name"]]
                fs = dict(fs[0], checks=[k for k in fs[0]["checks"]
                                         if k["args"] != {"max_value": 5}])
                try:
                    big = [x for x in G.satisfying(fs) if x is not None and x >= 5]
                except TypeError:
                    big = []
                if big:
                    c["values"][rng.randrange(n)] = rng.choice(big)
                    out.append("value-against-a-frame-check-of-the-annotation")
    # field rules A has and C lacks
    by_c = {repr(c["name"]): c for c in flat_c["columns"]}
    for ca in flat_a["columns"]:
        cc = by_c.get(repr(ca["name"]))
        tcols = [c for c in cols if c["name"] == ca["name"]]
        if cc is None or not tcols or n == 0:
            continue
        c = tcols[0]
        if ca["unique"] and not cc["unique"] and n >= 2:
            c["values"][1] = c["values"][0]
            out.append("field:duplicate-value")
        if not ca["nullable"] and cc["nullable"] and c["phys"] in (
                "float64", "object", "datetime") and \
                not (ca["unique"] or cc["unique"]):
            c["values"][rng.randrange(n)] = None
            out.append("field:null")
        if [k for k in ca["checks"] if k not in cc["checks"]] \
                and c["phys"] == G.PHYS_OF[ca["dtype"]]:
            fs_a = {"dtype": ca["dtype"], "checks": [
                {"kind": k["kind"], "args": k["args"], "ignore_na": True}
                for k in ca["checks"]]}
            fs_c = dict(fs_a, checks=[
                {"kind": k["kind"], "args": k["args"], "ignore_na": True}
                for k in cc["checks"]])
            try:
                ok_c = G.satisfying(fs_c)
                vals = [x for x in G.violating(fs_a) if x in ok_c]
            except TypeError:
                vals = []
            if vals and not (ca["unique"] or cc["unique"]):
                c["values"][rng.randrange(n)] = rng.choice(vals)
                out.append("field:value-against-a-check")
    return table, out or ["no-rule-of-the-annotation-to-move-against"]
