"""Reference semantics (the oracle) — pure Python over lists of values.

No pandas / polars on this path.  Input: backend-neutral ``spec`` and
``table`` dicts (see gen/spec.py).  Values: int, float, str, bool, ISO date
strings for datetimes ("2020-01-03", ordered lexicographically), ``None`` =
null.  Output: ``Verdict``.

The model encodes what the documentation promises.  Where the docs leave a
region open the model marks the verdict ``exact=False`` (only accept/reject and
the mandatory error are asserted) or the generators avoid the region.
"""
from __future__ import annotations

import re
from dataclasses import dataclass, field

# physical dtype tags a declared dtype accepts without coercion (pandas)
COMPAT = {
    "int64": {"int64", "Int64", "range"},      # range = a pd.RangeIndex (index levels only)
    "float64": {"float64"},
    "str": {"object"},
    "bool": {"bool"},
    "datetime": {"datetime"},
}


def is_null(v):
    return v is None


# ---------------------------------------------------------------- checks
def check_cell(chk, v):
    """Does value v (non-null) satisfy builtin check chk? -> bool."""
    k, a = chk["kind"], chk["args"]
    if k.startswith("custom_"):
        # whole-column checks (one boolean / an exception): no cell fails them
        return True
    if k == "eq":
        return v == a["value"]
    if k == "ne":
        return v != a["value"]
    if k == "gt":
        return v > a["min_value"]
    if k == "ge":
        return v >= a["min_value"]
    if k == "lt":
        return v < a["max_value"]
    if k == "le":
        return v <= a["max_value"]
    if k == "in_range":
        lo = v >= a["min_value"] if a.get("include_min", True) else v > a["min_value"]
        hi = v <= a["max_value"] if a.get("include_max", True) else v < a["max_value"]
        return lo and hi
    if k == "isin":
        return any(_same(v, x) for x in a["allowed_values"])
    if k == "notin":
        return not any(_same(v, x) for x in a["forbidden_values"])
    if k == "str_matches":
        return re.match(a["pattern"], v, _flags(a)) is not None
    if k == "str_contains":
        return re.search(a["pattern"], v, _flags(a)) is not None
    if k == "str_startswith":
        return v.startswith(a["string"])
    if k == "str_endswith":
        return v.endswith(a["string"])
    if k == "str_length":
        lo, hi = a.get("min_value"), a.get("max_value")
        n = len(v)
        return (lo is None or n >= lo) and (hi is None or n <= hi)
    raise KeyError(k)


def _flags(a):
    """Flags of a compiled pattern (args carry them as a list of names)."""
    f = 0
    for name in a.get("flags") or []:
        f |= getattr(re, name)
    return f


def _same(v, x):
    # bool is not an int for membership purposes in generated cases: the
    # generators never mix them, so plain equality is what the docs say.
    return v == x


def check_null_cell(chk):
    """Result of a check on a null float cell with ignore_na=False
    (only generated for float columns and comparison checks)."""
    return chk["kind"] == "ne"


ROW_CHECKS = {"eq", "ne", "gt", "ge", "lt", "le", "in_range", "isin", "notin",
              "str_matches", "str_contains", "str_startswith", "str_endswith",
              "str_length"}


@dataclass
class Err:
    reason: str                 # SchemaErrorReason name
    column: object = None       # column / level name (None = frame level)
    check: object = None        # check index for DATAFRAME_CHECK
    cells: object = None        # list[(row_pos, value)] for row-level, None = scalar
    scalar: object = None
    where: str = "column"       # column | index | frame

    def key(self):
        return (self.reason, self.column, self.check)


@dataclass
class Verdict:
    accept: bool
    errors: list = field(default_factory=list)
    exact: bool = True          # all errors predicted cell-exactly
    notes: list = field(default_factory=list)
    bad_rows: set = field(default_factory=set)   # row positions violating a row-level constraint
    undecided: bool = False     # the docs do not settle this case: nothing asserted
    rows_known: bool = True     # the set of offending rows is predicted (even if the report shape is not)

    def reasons(self):
        return sorted({e.reason for e in self.errors})


def duplicated(values, keep):
    """pandas ``duplicated`` over hashable keys; keep in first|last|False."""
    first, last, cnt = {}, {}, {}
    for i, v in enumerate(values):
        first.setdefault(v, i)
        last[v] = i
        cnt[v] = cnt.get(v, 0) + 1
    out = []
    for i, v in enumerate(values):
        if cnt[v] == 1:
            out.append(False)
        elif keep == "first":
            out.append(first[v] != i)
        elif keep == "last":
            out.append(last[v] != i)
        else:
            out.append(True)
    return out


KEEP = {"all": False, "exclude_first": "first", "exclude_last": "last"}


def field_errors(fs, phys, values, where, name, errs, v):
    """Constraints of one field schema (column or index level) on one array."""
    ok_dtype = True
    if fs.get("dtype") is not None:
        ok_dtype = phys in COMPAT[fs["dtype"]]
        if fs["dtype"] == "str" and not ok_dtype and all(x is None for x in values):
            # `str` is documented as an element-wise check; what it means for
            # an empty or all-null, differently typed column is not stated -> not judged
            v.undecided = True
        if fs["dtype"] == "str" and phys == "object":
            ok_dtype = all(x is None or isinstance(x, str) for x in values)
            if not ok_dtype:
                v.exact = False; v.rows_known = False
    if not fs.get("nullable", False):
        cells = [(i, None) for i, x in enumerate(values) if is_null(x)]
        if cells:
            errs.append(Err("SERIES_CONTAINS_NULLS", name, None, cells, where=where))
    if fs.get("unique", False):
        if sum(1 for x in values if is_null(x)) >= 2:
            v.exact = False; v.rows_known = False
            v.notes.append("two nulls in a unique field: docs silent")
        dup = duplicated([("null",) if is_null(x) else (type(x).__name__ if isinstance(x, bool) else "", x) for x in values],
                         KEEP[fs.get("report_duplicates", "all")])
        cells = [(i, values[i]) for i, d in enumerate(dup) if d]
        if cells:
            errs.append(Err("SERIES_CONTAINS_DUPLICATES", name, None, cells, where=where))
    if not ok_dtype:
        if fs["dtype"] == "str":
            # `str` is checked element by element: the report names the
            # non-string elements
            errs.append(Err("WRONG_DATATYPE", name, None,
                            [(i, x) for i, x in enumerate(values)
                             if x is not None and not isinstance(x, str)], where=where))
        else:
            errs.append(Err("WRONG_DATATYPE", name, None, None, scalar=phys, where=where))
        if fs.get("checks"):
            # what value checks report on wrongly typed data is not specified
            v.exact = False; v.rows_known = False
        return
    for ci, chk in enumerate(fs.get("checks", [])):
        ign = chk.get("ignore_na", True)
        if chk["kind"].startswith("custom_"):
            e = custom_check_error(chk, [x for x in values if not is_null(x)] if ign else values,
                                   name, ci, where)
            if e is not None:
                errs.append(e)
            continue
        if not ign and phys != "float64" and any(is_null(x) for x in values):
            # what a comparison with pd.NA / None yields is not documented
            v.undecided = True
        cells = []
        for i, x in enumerate(values):
            if is_null(x):
                if not ign and not check_null_cell(chk):
                    cells.append((i, None))
                continue
            if not check_cell(chk, x):
                cells.append((i, x))
        if cells:
            errs.append(Err("DATAFRAME_CHECK", name, ci, cells, where=where))


def custom_check_error(chk, values, name, ci, where):
    """Checks whose function looks at the whole column / frame and returns ONE
    boolean (an aggregate check) or raises: the violation cannot be attributed
    to rows.  custom_agg: fn 'len_le' (number of values the function is shown
    - nulls are dropped first under ignore_na - is <= value);
    custom_raise: the function raises -> CHECK_ERROR."""
    if chk["kind"] == "custom_raise":
        return Err("CHECK_ERROR", name, ci, None, scalar="raised", where=where)
    if chk["kind"] == "custom_agg":
        if chk["args"]["fn"] == "len_le":
            ok = len(values) <= chk["args"]["value"]
        else:
            raise KeyError(chk["args"]["fn"])
        return None if ok else Err("DATAFRAME_CHECK", name, ci, None, scalar=False, where=where)
    raise KeyError(chk["kind"])


def match_regex(pattern, label):
    return isinstance(label, str) and re.match(pattern, label) is not None


def evaluate(spec, table):
    """Verdict of pandera's documented semantics for (spec, table), no parsing
    options (coerce/default/add_missing/filter are handled by ``parse``)."""
    v = Verdict(True)
    errs = v.errors
    kind = spec.get("kind", "frame")
    if kind == "series":
        fs = spec["field"]
        col = table["columns"][0]
        if fs.get("name") is not None and col["name"] != fs["name"]:
            errs.append(Err("WRONG_FIELD_NAME", fs.get("name"), None, None,
                            scalar=col["name"]))
        field_errors(fs, col["phys"], col["values"], "column", fs.get("name"), errs, v)
        _index_errors(spec, table, errs, v)
        return _finish(v)

    labels = [c["name"] for c in table["columns"]]
    # ---- column presence / regex expansion
    matched = []          # (col schema, table column index)
    for cs in spec["columns"]:
        if cs.get("regex"):
            idxs = [i for i, l in enumerate(labels) if match_regex(cs["name"], l)]
            if not idxs:
                if cs.get("required", True):
                    errs.append(Err("INVALID_COLUMN_NAME", cs["name"], None, None,
                                    scalar=str(labels), where="frame"))
                continue
            seen = set()
            for i in idxs:
                matched.append((cs, i))
        else:
            idxs = [i for i, l in enumerate(labels) if l == cs["name"]]
            if not idxs:
                if cs.get("required", True):
                    errs.append(Err("COLUMN_NOT_IN_DATAFRAME", None, None, None,
                                    scalar=cs["name"], where="frame"))
                continue
            for i in idxs:
                matched.append((cs, i))
    declared_idx = {i for _, i in matched}
    # ---- strict
    if spec.get("strict") is True:
        extra = [l for i, l in enumerate(labels) if i not in declared_idx]
        if extra:
            errs.append(Err("COLUMN_NOT_IN_SCHEMA", None, None, None,
                            scalar=extra[0], where="frame"))
    # ---- ordered: declared columns present appear in declaration order
    if spec.get("ordered"):
        seen_lab, prev = set(), object()
        for l in labels:
            if l != prev and l in seen_lab:
                # a repeated label that is not adjacent to its twin: the docs
                # do not say what "ordered" means then
                v.undecided = True
            seen_lab.add(l)
            prev = l
        order = []
        for cs in spec["columns"]:
            for cs2, i in matched:
                if cs2 is cs and labels[i] not in order:
                    order.append(labels[i])
        present = []
        for i, l in enumerate(labels):
            if i in declared_idx and (not present or present[-1] != l):
                present.append(l)
        # stutter-free sequence of declared labels must equal declaration order
        dedup = []
        for l in present:
            if l not in dedup:
                dedup.append(l)
        if present != order:
            errs.append(Err("COLUMN_NOT_ORDERED", None, None, None, where="frame"))
    # ---- unique column names
    if spec.get("unique_column_names"):
        if len(set(labels)) != len(labels):
            errs.append(Err("DUPLICATE_COLUMN_LABELS", None, None, None, where="frame"))
    # ---- joint uniqueness
    uq = spec.get("unique")
    if uq:
        groups = [uq] if not any(isinstance(x, (list, tuple)) for x in uq) else uq
        for g in groups:
            cols = []
            for name in g:
                idxs = [i for i, l in enumerate(labels) if l == name]
                if len(idxs) == 1:
                    cols.append(table["columns"][idxs[0]]["values"])
                elif len(idxs) > 1:
                    # joint uniqueness over a repeated label: not specified
                    v.undecided = True
            if not cols:
                continue
            rows = list(zip(*cols))
            if any(any(is_null(x) for x in r) for r in rows):
                v.exact = False; v.rows_known = False
            keys = [tuple(("null",) if is_null(x) else (isinstance(x, bool), x) for x in r) for r in rows]
            dup = duplicated(keys, KEEP[spec.get("report_duplicates", "all")])
            bad = [i for i, d in enumerate(dup) if d]
            if bad:
                errs.append(Err("DUPLICATES", None, None,
                                [(i, rows[i]) for i in bad], where="frame"))
                break
    # ---- per column constraints
    for cs, i in matched:
        col = table["columns"][i]
        fs = dict(cs)
        if spec.get("dtype") is not None:
            fs["dtype"] = spec["dtype"]
        field_errors(fs, col["phys"], col["values"], "column", col["name"], errs, v)
    if not spec["columns"] and spec.get("dtype") is not None:
        for col in table["columns"]:
            field_errors({"dtype": spec["dtype"], "nullable": False},
                         col["phys"], col["values"], "column", col["name"], errs, v)
    # ---- frame-level checks apply to every cell of every column
    for ci, chk in enumerate(spec.get("checks") or []):
        if chk["kind"].startswith("custom_"):
            nrows = len(table["columns"][0]["values"]) if table["columns"] else 0
            e = custom_check_error(chk, list(range(nrows)), None, ci, "frame")
            if e is not None:
                errs.append(e)
            continue
        bad = []
        for col in table["columns"]:
            for i, x in enumerate(col["values"]):
                if is_null(x):
                    continue
                try:
                    ok = check_cell(chk, x)
                except TypeError:
                    v.undecided = True
                    ok = True
                if not ok:
                    bad.append((i, (col["name"], x)))
        if bad:
            errs.append(Err("DATAFRAME_CHECK", None, ci, bad, where="frame"))
            v.exact = False      # report shape only: one dict of failing cells per row
    _index_errors(spec, table, errs, v)
    return _finish(v)


def _index_errors(spec, table, errs, v):
    ix = spec.get("index")
    if not ix:
        return
    tlev = (table.get("index") or {}).get("levels")
    nrows = len(table["columns"][0]["values"]) if table["columns"] else 0
    if tlev is None:
        tlev = [{"name": None, "phys": "int64", "values": list(range(nrows)),
                 "range": True}]
    if len(ix) == 1:
        fs = ix[0]
        if len(tlev) > 1:
            errs.append(Err("MISMATCH_INDEX", fs.get("name"), None, None, where="index"))
            return
        lev = tlev[0]
        if fs.get("name") is not None and lev["name"] != fs["name"]:
            errs.append(Err("WRONG_FIELD_NAME", fs.get("name"), None, None,
                            scalar=lev["name"], where="index"))
        field_errors(fs, lev["phys"], lev["values"], "index", fs.get("name"), errs, v)
    else:
        # MultiIndex: generators keep table levels == declared levels by name
        # and order (other shapes are exercised by boundary monitors only)
        if len(tlev) != len(ix) or [l["name"] for l in tlev] != [f["name"] for f in ix]:
            v.exact = False; v.rows_known = False
            v.notes.append("multiindex shape differs from declaration")
            v.accept = None
            return
        for fs, lev in zip(ix, tlev):
            field_errors(fs, lev["phys"], lev["values"], "index", fs["name"], errs, v)


def _finish(v):
    if v.accept is None or v.undecided:
        v.accept = None
        return v
    v.accept = not v.errors
    for e in v.errors:
        if e.cells is not None:
            v.bad_rows.update(i for i, _ in e.cells)
    return v


# ---------------------------------------------------------------- parsing
def coerce_value(dtype, x):
    """Exact, lossless coercions only; returns (ok, value).  Anything else is
    'unknown' and the generators do not produce it."""
    if x is None:
        return True, None
    try:
        if dtype == "int64":
            if isinstance(x, bool):
                return True, int(x)
            if isinstance(x, int):
                return True, x
            if isinstance(x, float) and x == int(x):
                return True, int(x)
            if isinstance(x, str) and re.fullmatch(r"-?\d+", x):
                return True, int(x)
            return False, None
        if dtype == "float64":
            if isinstance(x, bool):
                return True, float(x)
            if isinstance(x, (int, float)):
                return True, float(x)
            if isinstance(x, str) and re.fullmatch(r"-?\d+(\.\d+)?", x):
                return True, float(x)
            return False, None
        if dtype == "str":
            if isinstance(x, str):
                return True, x
            if isinstance(x, bool):
                return True, str(x)
            if isinstance(x, int):
                return True, str(x)
            if isinstance(x, float):
                return True, repr(x)
            return False, None
    except Exception:
        return False, None
    return False, None
