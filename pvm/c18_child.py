"""C18 child: runs in a FRESH interpreter whose environment carries some
PANDERA_* variables; prints one JSON object with what it observed.

It judges nothing: the parent (pvm/c18_env.py) compares the observations with
the documented reading of the variables.
"""
from __future__ import annotations

import json
import os
import sys
import warnings

warnings.filterwarnings("ignore")
REPO = os.path.abspath(os.environ.get("PVM_REPO", "/repo"))
sys.path.insert(0, REPO)
sys.path.insert(1, os.path.dirname(os.path.dirname(os.path.abspath(__file__))))

FIELDS = ("validation_enabled", "validation_depth", "cache_dataframe",
          "keep_cached_dataframe")


def read(conf):
    d = {f: getattr(conf, f) for f in FIELDS}
    vd = d["validation_depth"]
    d["validation_depth"] = None if vd is None else vd.name
    return d


def main():
    out = {"import_error": None}
    try:
        import pandera  # noqa: F401
        import pandera.config as c
    except Exception as e:  # e.g. an invalid depth name: not generated
        out["import_error"] = f"{type(e).__name__}: {e}"
        print(json.dumps(out))
        return
    out["pandera_path"] = os.path.abspath(pandera.__file__)
    out["CONFIG"] = read(c.CONFIG)
    out["context"] = read(c.get_config_context(validation_depth_default=None))
    out["context_defaulted"] = read(c.get_config_context())
    out["global_is_CONFIG"] = c.get_config_global() is c.CONFIG

    # ---- scoping relative to the environment-derived base
    base = read(c.get_config_context(validation_depth_default=None))
    nest = []
    flip = {"validation_enabled": not base["validation_enabled"],
            "validation_depth": c.ValidationDepth.DATA_ONLY
            if base["validation_depth"] != "DATA_ONLY"
            else c.ValidationDepth.SCHEMA_ONLY,
            "cache_dataframe": not base["cache_dataframe"],
            "keep_cached_dataframe": not base["keep_cached_dataframe"]}
    with c.config_context(**flip):
        inside = read(c.get_config_context(validation_depth_default=None))
    nest.append({"what": "normal exit", "inside": inside,
                 "after": read(c.get_config_context(validation_depth_default=None))})
    try:
        with c.config_context(**flip):
            with c.config_context(validation_enabled=base["validation_enabled"]):
                raise KeyError("boom")
    except KeyError:
        pass
    nest.append({"what": "exception through two levels",
                 "after": read(c.get_config_context(validation_depth_default=None))})
    out["nesting"] = nest
    out["flip"] = {k: (v.name if hasattr(v, "name") else v) for k, v in flip.items()}
    out["CONFIG_after_nesting"] = read(c.CONFIG)

    # ---- probes: real validate calls under the environment-derived config
    import pandas as pd
    import polars as pl
    import pandera as pa
    import pandera.polars as pp
    import pandera.errors as pe
    from pvm import snap as S

    def probe(name, schema_validate, obj):
        before = S.snap(obj)
        rec = {"name": name}
        try:
            res = schema_validate(obj)
            rec["returned_same_object"] = res is obj
            if isinstance(res, pl.LazyFrame) and res is not obj:
                res.collect()
            rec["outcome"] = "ok"
        except (pe.SchemaError, pe.SchemaErrors) as e:
            rec["outcome"] = type(e).__name__
            rc = getattr(e, "reason_code", None)
            rec["reason"] = getattr(rc, "name", None)
            if isinstance(e, pe.SchemaErrors):
                rec["reasons"] = sorted({x.reason_code.name
                                         for x in e.schema_errors})
        except Exception as e:
            rec["outcome"] = "exc:" + type(e).__name__
            rec["message"] = str(e)[:200]
        rec["argument_unchanged"] = S.diff(before, S.snap(obj)) is None
        return rec

    probes = []
    # the frames fail at exactly one level each
    pd_s = pa.DataFrameSchema({"a": pa.Column(int, pa.Check.gt(0))})
    pd_s_coerce = pa.DataFrameSchema(
        {"a": pa.Column(int, pa.Check.gt(0), coerce=True)},
        index=pa.Index(int, coerce=True), coerce=True)
    ser_s = pa.SeriesSchema(int, pa.Check.gt(0), name="a")
    pl_s = pp.DataFrameSchema({"a": pp.Column(pl.Int64, pp.Check.gt(0))})
    pl_s_coerce = pp.DataFrameSchema(
        {"a": pp.Column(pl.Int64, pp.Check.gt(0), coerce=True)})

    PdModel = type("PdModel", (pa.DataFrameModel,),
                   {"__annotations__": {"a": int}, "a": pa.Field(gt=0),
                    "__module__": __name__})
    PlModel = type("PlModel", (pp.DataFrameModel,),
                   {"__annotations__": {"a": int}, "a": pp.Field(gt=0),
                    "__module__": __name__})

    frames = {
        "ok": [1, 2], "bad_dtype": [1.5, 2.5], "bad_check": [1, -2],
    }
    for tag, vals in frames.items():
        probes.append(probe(f"pandas.DataFrameSchema/{tag}", pd_s.validate,
                            pd.DataFrame({"a": vals})))
        probes.append(probe(f"pandas.SeriesSchema/{tag}", ser_s.validate,
                            pd.Series(vals, name="a")))
        probes.append(probe(f"pandas.DataFrameModel/{tag}", PdModel.validate,
                            pd.DataFrame({"a": vals})))
        probes.append(probe(f"pandas.Column.validate/{tag}",
                            pa.Column(int, pa.Check.gt(0), name="a").validate,
                            pd.DataFrame({"a": vals})))
        probes.append(probe(f"polars.DataFrameSchema/DataFrame/{tag}",
                            pl_s.validate, pl.DataFrame({"a": vals})))
        probes.append(probe(f"polars.DataFrameSchema/LazyFrame/{tag}",
                            pl_s.validate, pl.LazyFrame({"a": vals})))
        probes.append(probe(f"polars.DataFrameModel/DataFrame/{tag}",
                            PlModel.validate, pl.DataFrame({"a": vals})))
        probes.append(probe(f"polars.Column.validate/DataFrame/{tag}",
                            pp.Column(pl.Int64, pp.Check.gt(0), name="a").validate,
                            pl.DataFrame({"a": vals})))
    # coercing schemas: with validation disabled nothing may be coerced either
    probes.append(probe("pandas.DataFrameSchema(coerce)/needs_coercion",
                        pd_s_coerce.validate,
                        pd.DataFrame({"a": ["1", "2"]}, index=["0", "1"])))
    probes.append(probe("polars.DataFrameSchema(coerce)/DataFrame/needs_coercion",
                        pl_s_coerce.validate, pl.DataFrame({"a": ["1", "2"]})))
    probes.append(probe("pandas.Index.validate/bad_dtype",
                        pa.Index(int).validate,
                        pd.DataFrame({"a": [1]}, index=["x"])))
    out["probes"] = probes
    # ---- the same probes inside a user config_context: the override is the
    # configuration in force, whatever the environment says
    ctx_probes = []
    overrides = [{"validation_depth": d} for d in c.ValidationDepth] + \
        [{"validation_enabled": False}, {"validation_enabled": True}]
    for kw in overrides:
        label = ",".join(f"{k}={getattr(v, 'name', v)}" for k, v in kw.items())
        with c.config_context(**kw):
            for tag, vals in frames.items():
                for name, fn, mk in (
                    ("pandas.DataFrameSchema", pd_s.validate,
                     lambda v: pd.DataFrame({"a": v})),
                    ("pandas.SeriesSchema", ser_s.validate,
                     lambda v: pd.Series(v, name="a")),
                    ("polars.DataFrameSchema/DataFrame", pl_s.validate,
                     lambda v: pl.DataFrame({"a": v})),
                    ("polars.DataFrameSchema/LazyFrame", pl_s.validate,
                     lambda v: pl.LazyFrame({"a": v})),
                    ("polars.DataFrameModel/LazyFrame", PlModel.validate,
                     lambda v: pl.LazyFrame({"a": v})),
                ):
                    rec = probe(f"{name}/{tag}", fn, mk(vals))
                    rec["override"] = {k: getattr(v, "name", v)
                                       for k, v in kw.items()}
                    rec["label"] = label
                    ctx_probes.append(rec)
    out["ctx_probes"] = ctx_probes
    out["context_after_probes"] = read(
        c.get_config_context(validation_depth_default=None))
    print(json.dumps(out))


if __name__ == "__main__":
    main()
