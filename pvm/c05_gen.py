"""Schema specs, builders and probe frames for C05 / C15.

A *spec* is a plain JSON-able dict; ``build(spec)`` turns it into a real
pandera object (pandas ``DataFrameSchema`` / ``SeriesSchema`` / ``Column``,
polars ``DataFrameSchema``, or a dynamically created ``DataFrameModel`` class
whose cached ``to_schema()`` is the schema under observation).

Every column has a pool of three *good* values that satisfy all of the
column's checks by construction, and every check carries one *bad* value that
violates it, so accepted / rejected probe frames exist by construction (the
verdict oracle itself never relies on that: it compares with the verdict of a
pristine twin built from the same spec).

Spec vocabulary (the rich, rarely tested attributes are on purpose):
  column: name dtype checks nullable unique coerce required regex title
          description default metadata drop_invalid_rows report_duplicates
          parsers
  frame : columns index strict ordered unique coerce dtype df_checks parsers
          name title description metadata add_missing_columns
          unique_column_names report_duplicates drop_invalid_rows
"""
from __future__ import annotations

import copy

import numpy as np
import pandas as pd

# --------------------------------------------------------------------------
# value pools and checks that are satisfiable by construction
# --------------------------------------------------------------------------
POOL = {
    "int": [1, 2, 3],
    "float": [0.5, 1.5, 2.5],
    "str": ["ab", "aab", "abb"],
    "bool": [True, False, True],
    "dt": ["2020-01-01", "2020-01-02", "2020-01-03"],
    "dtz": ["2020-01-01", "2020-01-02", "2020-01-03"],   # DateTime(tz=UTC, tz agnostic)
    "const": [1, 1, 1],
    # C05 widen_time(): timedelta column / index; tz-aware DateTime that carries
    # (or not) its own tz_localize_kwargs, fed with NAIVE timestamps
    "td": ["1h", "2h", "3h"],
    "dtl": ["2020-01-01", "2020-01-02", "2020-01-03"],
}
NUMERIC = ("int", "float", "const")

# (kind, positional args, bad value)
CHECKS = {
    "int": [("gt", [0], -5), ("ge", [1], -5), ("lt", [10], 50), ("le", [3], 50),
            ("in_range", [1, 3], -5), ("isin", [[1, 2, 3]], -5),
            ("notin", [[0, 99]], 99), ("ne", [7], 7),
            ("unique_values_eq", [[1, 2, 3]], -5)],
    "float": [("gt", [0.0], -5.0), ("ge", [0.5], -5.0), ("lt", [10.0], 50.0),
              ("le", [2.5], 50.0), ("in_range", [0.0, 3.0], -5.0),
              ("ne", [7.0], 7.0), ("notin", [[99.0]], 99.0)],
    "str": [("str_startswith", ["a"], "zab"), ("str_endswith", ["b"], "abz"),
            ("str_contains", ["b"], "zz"), ("str_matches", ["^a"], "zab"),
            ("str_length", [2, 3], "abbbbbb"),
            ("isin", [["ab", "aab", "abb"]], "zz"), ("notin", [["zz"]], "zz"),
            ("ne", ["zz"], "zz")],
    "bool": [("isin", [[True, False]], None)],
    "dt": [("ge", ["2019-01-01"], "1999-01-01"), ("lt", ["2030-01-01"], "2040-01-01"),
           ("in_range", ["2019-01-01", "2030-01-01"], "1999-01-01")],
    "dtz": [],
    "const": [("eq", [1], 9), ("isin", [[1]], 9)],
    "td": [("ge", ["0h"], "-5h"), ("lt", ["100h"], "500h"),
           ("isin", [["1h", "2h", "3h"]], "9h"), ("notin", [["9h", "10h"]], "9h")],
    "dtl": [],
}
# list-valued statistics on datetime-like / timedelta-like data (widen_time)
TIME_LIST_CHECKS = {
    "dt": [("isin", [["2020-01-01", "2020-01-02", "2020-01-03"]], "1999-01-01"),
           ("notin", [["1999-01-01", "1998-01-01"]], "1999-01-01")],
    "td": [("isin", [["1h", "2h", "3h"]], "9h"), ("notin", [["9h", "10h"]], "9h")],
}
TIME_SCALAR_CHECKS = {
    "dt": [("ge", ["2019-01-01"], "1999-01-01"), ("lt", ["2030-01-01"], "2040-01-01")],
    "td": [("ge", ["0h"], "-5h"), ("lt", ["100h"], "500h")],
}
# time zones with their DST transitions of 2023: a wall-clock time that exists
# twice (clocks go back) and one that does not exist (clocks go forward)
TZ_DST = {
    "Europe/Berlin": {"ambiguous": "2023-10-29 02:30:00",
                      "nonexistent": "2023-03-26 02:30:00"},
    "America/New_York": {"ambiguous": "2023-11-05 01:30:00",
                         "nonexistent": "2023-03-12 02:30:00"},
}
# tz_localize_kwargs a DateTime data type may carry ({} = the documented defaults)
TZ_OPTS = [{}, {}, {}, {"ambiguous": "NaT"}, {"nonexistent": "shift_forward"},
           {"nonexistent": "NaT"}, {"nonexistent": "shift_backward"},
           {"ambiguous": "NaT", "nonexistent": "shift_backward"},
           {"ambiguous": "raise"}, {"ambiguous": "NaT", "nonexistent": "NaT"}]

TITLES = [None, "T", "a title"]
DESCS = [None, "some description"]
METAS = [None, {"k": 1}, {"unit": "m", "tags": ["x", "y"]}]


# ---- user callables: module level, so that schemas using them pickle -------
def ck_lt_1000(s):
    return s < 1000


def ck_elem_not_minus5(x):
    return x != -5


def ck_groups_nonempty(groups):
    return all(len(v) > 0 for v in groups.values())


def ck_df_has_columns(df):
    return df.shape[1] >= 0


def ck_df_first_col_notnull(df):
    return True if df.shape[1] == 0 else df.iloc[:, 0].notna()


def parse_identity(x):
    return x


def parse_abs(s):
    return s.abs()


CALLABLES = {f.__name__: f for f in (
    ck_lt_1000, ck_elem_not_minus5, ck_groups_nonempty, ck_df_has_columns,
    ck_df_first_col_notnull, parse_identity, parse_abs)}
_LAMBDAS = {"lam_lt_1000": lambda s: s < 1000}   # deliberately not picklable


def gen_check(rng, dtype, rich=True):
    kind, args, bad = rng.choice(CHECKS[dtype])
    c = {"kind": kind, "args": copy.deepcopy(args), "bad": bad}
    if rich:
        r = rng.random()
        if r < 0.12:
            c["ignore_na"] = False
        elif r < 0.2:
            c["n_failure_cases"] = 1
        elif r < 0.28:
            c["error"] = "custom error"
        elif r < 0.34:
            c["title"] = "check title"
            c["description"] = "check description"
        elif r < 0.38:
            c["raise_warning"] = True
    return c


def gen_column(rng, name, dtype=None, *, backend="pandas", rich=True,
               regex=False, allow_custom=True, p_drop=0.1):
    dtype = dtype or rng.choice(["int", "int", "float", "str", "str", "bool",
                                 "dt", "const"])
    col = {"name": name, "dtype": dtype, "checks": [], "nullable": False,
           "unique": False, "coerce": False, "required": True, "regex": regex}
    kinds = set()
    if CHECKS[dtype] and rng.random() < 0.8:
        for _ in range(rng.randint(1, 3)):
            c = gen_check(rng, dtype, rich)
            if c["kind"] not in kinds:          # one check per builtin kind
                kinds.add(c["kind"])
                col["checks"].append(c)
    if (allow_custom and backend == "pandas" and dtype in ("int", "float")
            and rng.random() < 0.2):
        fn = rng.choice(["ck_lt_1000", "ck_elem_not_minus5", "lam_lt_1000"])
        col["checks"].append({"kind": "custom", "fn": fn, "bad": 5000
                              if fn != "ck_elem_not_minus5" else -5,
                              "element_wise": fn == "ck_elem_not_minus5"})
    col["nullable"] = rng.random() < 0.3
    col["unique"] = dtype not in ("bool", "const") and rng.random() < 0.25
    col["coerce"] = rng.random() < 0.25
    if not regex:
        col["required"] = rng.random() < 0.85
    if rich:
        col["title"] = rng.choice(TITLES)
        col["description"] = rng.choice(DESCS)
        col["metadata"] = copy.deepcopy(rng.choice(METAS))
        if rng.random() < p_drop:
            col["drop_invalid_rows"] = True
        if backend == "pandas" and rng.random() < 0.25:
            col["report_duplicates"] = rng.choice(["exclude_first", "exclude_last"])
        if col["nullable"] and dtype in ("int", "float", "str") and rng.random() < 0.4:
            col["default"] = POOL[dtype][0]
        if (backend == "pandas" and allow_custom and dtype in ("int", "float")
                and rng.random() < 0.12):
            col["parsers"] = [rng.choice(["parse_identity", "parse_abs"])]
    return col


NAMES = ["a", "b", "c", "d", "e"]


def gen_spec(rng, *, backend="pandas", kind=None, allow_flavors=True,
             min_cols=1, max_cols=4, allow_index=True, allow_regex=True,
             allow_custom=True, allow_dtz=True, p_drop=0.1, allow_groupby=True):
    """Random schema spec.  kind in frame | series | column | model."""
    if kind is None:
        if backend == "polars":
            kind = "frame" if rng.random() < 0.75 else "model"
        else:
            kind = rng.choice(["frame"] * 6 + ["model"] * 2 + ["series", "column"])
    spec = {"backend": backend, "kind": kind}
    rich = True
    if kind in ("series", "column"):
        dtype = rng.choice(["int", "float", "str", "dt"])
        col = gen_column(rng, "a", dtype, backend=backend, rich=rich,
                         allow_custom=allow_custom)
        col["required"] = True
        spec["columns"] = [col]
        if kind == "series" and allow_index and rng.random() < 0.4:
            spec["index"] = [gen_index_level(rng, "idx", "int")]
        return spec

    ncols = rng.randint(min_cols, max_cols)
    frame_dtype = None
    if kind == "frame" and rng.random() < 0.15:
        frame_dtype = rng.choice(["int", "float", "str"])
    cols = []
    for i in range(ncols):
        dt = frame_dtype
        if dt is None and allow_dtz and backend == "pandas" and kind == "frame" \
                and rng.random() < 0.1:
            dt = "dtz"
        if kind == "model" and dt is None:
            dt = rng.choice(["int", "float", "str", "bool", "int"])
        cols.append(gen_column(rng, NAMES[i], dt, backend=backend, rich=rich, p_drop=p_drop,
                               allow_custom=allow_custom and kind == "frame"))
    if allow_regex and not (backend == "polars" and kind == "model") \
            and rng.random() < 0.3:
        dt = frame_dtype or rng.choice(["int", "float", "str"])
        rc = gen_column(rng, "^r_.*$", dt, backend=backend, rich=rich, regex=True,
                        p_drop=p_drop, allow_custom=allow_custom and kind == "frame")
        rc["unique"] = rc["unique"] and False
        if not rc["checks"]:
            rc["checks"].append(gen_check(rng, dt))
        cols.append(rc)
    spec["columns"] = cols
    if frame_dtype:
        spec["dtype"] = frame_dtype
    plain = [c["name"] for c in cols if not c["regex"] and c["required"]]
    spec["strict"] = rng.choice([False, False, True, "filter"])
    spec["ordered"] = rng.random() < 0.2
    spec["coerce"] = rng.random() < 0.2
    spec["name"] = rng.choice([None, "schema_name"])
    spec["title"] = rng.choice(TITLES)
    spec["description"] = rng.choice(DESCS)
    spec["add_missing_columns"] = rng.random() < 0.15
    spec["drop_invalid_rows"] = rng.random() < p_drop
    if plain and rng.random() < 0.25:
        uq = [c["name"] for c in cols
              if c["name"] in plain and c["dtype"] in ("int", "float", "str", "dt")]
        if uq:
            spec["unique"] = rng.sample(uq, rng.randint(1, min(2, len(uq))))
    if kind == "frame":
        spec["metadata"] = copy.deepcopy(rng.choice(METAS))
        if backend == "pandas":
            spec["unique_column_names"] = rng.random() < 0.15
            if rng.random() < 0.2:
                spec["report_duplicates"] = rng.choice(["exclude_first", "exclude_last"])
        # dataframe-level checks
        dfc = []
        if backend == "pandas" and all(c["dtype"] in NUMERIC for c in cols) \
                and rng.random() < 0.5:
            for k, a, b in rng.sample([("ge", [0], -5), ("lt", [1000], 5000),
                                       ("ne", [777], 777)], rng.randint(1, 2)):
                c = {"kind": k, "args": a, "bad": b}
                if rng.random() < 0.3:
                    c["n_failure_cases"] = 2
                dfc.append(c)
        if backend == "pandas" and allow_custom and rng.random() < 0.2:
            dfc.append({"kind": "custom", "bad": None, "fn": rng.choice(
                ["ck_df_has_columns", "ck_df_first_col_notnull"])})
        if dfc:
            spec["df_checks"] = dfc
        if backend == "pandas" and allow_custom and rng.random() < 0.08:
            spec["parsers"] = ["parse_identity"]
        # groupby check on a column (pandas)
        if backend == "pandas" and allow_custom and allow_groupby \
                and rng.random() < 0.1:
            gcols = [c for c in cols if not c["regex"] and c["required"]
                     and c["dtype"] in ("str", "int", "const") and not c["nullable"]]
            tcols = [c for c in cols if not c["regex"] and c["dtype"] in ("int", "float")]
            if gcols and tcols and gcols[0] is not tcols[0]:
                tcols[0]["checks"].append({"kind": "custom", "fn": "ck_groups_nonempty",
                                           "bad": None, "groupby": gcols[0]["name"]})
        if backend == "pandas" and allow_index and rng.random() < 0.35:
            if rng.random() < 0.6:
                spec["index"] = [gen_index_level(rng, "idx", rng.choice(["int", "str"]))]
            else:
                spec["index"] = [gen_index_level(rng, "i0", "int"),
                                 gen_index_level(rng, "i1", "str")]
                for lv in spec["index"]:
                    lv["unique"] = False
            if any(c["kind"] != "custom" for c in dfc):
                # numeric frame-level checks: keep the index numeric as well
                # so that reset_index() of schema and frame stays acceptable
                spec["index"] = [gen_index_level(rng, lv["name"], "int")
                                 for lv in spec["index"]]
                if len(spec["index"]) > 1:
                    for lv in spec["index"]:
                        lv["unique"] = False
            if frame_dtype:      # a frame-level dtype also overrides the index
                spec["index"] = [gen_index_level(rng, lv["name"], frame_dtype)
                                 for lv in spec["index"]]
                if len(spec["index"]) > 1:
                    for lv in spec["index"]:
                        lv["unique"] = False
        if backend == "pandas" and allow_flavors and rng.random() < 0.12:
            cand = [c["name"] for c in cols if not c["regex"]]
            if cand:
                # public API: schema.columns[k].set_name(other)
                spec["keyname"] = {"key": rng.choice(cand), "name": "renamed_col"}
    return spec


def widen_dtype_less(rng, spec):
    """C05 only (separate random draws, gen_spec is shared with C15): columns
    that declare no dtype.  Under a dataframe-level dtype they are the columns
    whose dtype is only resolved while validating / drawing data; without one
    they are never type checked."""
    if spec["backend"] != "pandas" or spec["kind"] == "model":
        return spec
    cols = spec["columns"]
    if spec["kind"] == "frame" and spec.get("dtype"):
        if rng.random() < 0.65:
            picked = [c for c in cols if rng.random() < 0.5] or [rng.choice(cols)]
            for c in picked:
                c["no_dtype"] = True
    elif rng.random() < 0.1:
        c = rng.choice(cols)
        if c["dtype"] != "dtz":
            c["no_dtype"] = True
    return spec


def _time_checks(rng, dtype, rich=False):
    """1-2 checks with LIST / TUPLE valued statistics (+ sometimes a scalar one)."""
    out, kinds = [], set()
    for kind, args, bad in rng.sample(TIME_LIST_CHECKS[dtype], rng.randint(1, 2)):
        c = {"kind": kind, "args": copy.deepcopy(args), "bad": bad}
        r = rng.random()
        if r < 0.2:
            c["container"] = "tuple"
        if rich and rng.random() < 0.2:
            c["n_failure_cases"] = 1
        out.append(c)
        kinds.add(kind)
    if rng.random() < 0.35:
        kind, args, bad = rng.choice(TIME_SCALAR_CHECKS[dtype])
        out.append({"kind": kind, "args": copy.deepcopy(args), "bad": bad})
    return out


def _tzl_column(rng, name, tz, opts, regex=False):
    col = gen_column(rng, name, "dtl", backend="pandas", rich=True, regex=regex,
                     allow_custom=False, p_drop=0.0)
    col["checks"] = []
    if rng.random() < 0.4:
        # list-valued statistics of time zone AWARE values
        kind, args, bad = rng.choice(TIME_LIST_CHECKS["dt"])
        col["checks"].append({"kind": kind, "args": copy.deepcopy(args), "bad": bad,
                              "tz": tz})
    col["tz"], col["tz_opts"] = tz, copy.deepcopy(opts)
    col["coerce"] = rng.random() < 0.85
    col["nullable"] = rng.random() < 0.6
    col["unique"] = False
    col.pop("default", None)
    col["required"] = True
    return col


def widen_time(rng, spec, force=None):
    """C05 only (separate random draws, gen_spec is shared with C15).

    "list": columns / index levels of a datetime-like or timedelta-like dtype
            whose isin / notin checks hold LIST (or tuple) valued statistics -
            the values a serialiser has to convert item by item;
    "tzl":  time zone aware ``pandas_engine.DateTime`` columns / index levels /
            series, with and without their own ``tz_localize_kwargs``, that are
            coerced from NAIVE timestamps; the probes hold the wall-clock
            times of the DST transitions of the zone (the only data on which
            the localize options matter).
    ``force`` in (None, "list", "tzl", "tzl-default") makes the canary specs."""
    if spec["backend"] != "pandas" or spec["kind"] == "model":
        return spec
    kind, cols = spec["kind"], spec["columns"]
    r = rng.random()
    what = force or ("list" if r < 0.16 else "tzl" if r < 0.34 else None)
    if what is None:
        return spec
    if kind in ("series", "column"):
        c = cols[0]
        if what == "list":
            if c.get("no_dtype"):
                return spec
            c["dtype"] = rng.choice(["dt", "td"])
            c["checks"] = _time_checks(rng, c["dtype"], rich=True)
            c.pop("default", None)
            c.pop("parsers", None)
            spec["time_list"] = True
            if kind == "series" and rng.random() < 0.5:
                lv = gen_index_level(rng, "idx", rng.choice(["dt", "td"]))
                lv["checks"] = _time_checks(rng, lv["dtype"])
                spec["index"] = [lv]
        else:
            if c.get("regex"):
                return spec
            tz = rng.choice(sorted(TZ_DST))
            opts = {} if what == "tzl-default" else rng.choice(TZ_OPTS)
            new = _tzl_column(rng, c["name"], tz, opts)
            new["required"] = True
            cols[0] = new
            spec["tzl"] = True
        return spec
    if spec.get("dtype"):          # a frame-level dtype overrides the columns
        return spec
    if what == "list":
        for name in ["t", "t2"][: rng.choice([1, 1, 2])]:
            dt = rng.choice(["dt", "td"])
            c = gen_column(rng, name, dt, backend="pandas", rich=True,
                           allow_custom=False, p_drop=0.0)
            c["checks"] = _time_checks(rng, dt, rich=True)
            c["required"] = True
            cols.insert(rng.randrange(len(cols) + 1), c)
        if not spec.get("df_checks") and rng.random() < 0.5:
            lv = gen_index_level(rng, "idx", rng.choice(["dt", "td"]))
            lv["checks"] = _time_checks(rng, lv["dtype"])
            if spec.get("index") and len(spec["index"]) > 1:
                lv["name"], lv["unique"] = spec["index"][0]["name"], False
                spec["index"][0] = lv
            else:
                spec["index"] = [lv]
        spec["time_list"] = True
        return spec
    # "tzl": one or two tz-aware columns in one zone; their options differ
    tz = rng.choice(sorted(TZ_DST))
    n = 1 if what == "tzl-default" else rng.choice([1, 2, 2, 2])
    optss = [rng.choice(TZ_OPTS) for _ in range(n)]
    if what == "tzl-default":
        optss = [{}]
    elif n == 2 and rng.random() < 0.6:
        # the pair the options exist for: documented defaults next to own options
        optss = [{}, rng.choice([o for o in TZ_OPTS if o])]
        rng.shuffle(optss)
    at = rng.randrange(len(cols) + 1)
    for name, opts in zip(["u", "w"], optss):
        cols.insert(at, _tzl_column(rng, name, tz, opts))
        at += 1
    if what != "tzl-default" and not spec.get("df_checks") \
            and len(spec.get("index") or []) < 2 and rng.random() < 0.4:
        lv = gen_index_level(rng, "idx", "dt")
        lv["dtype"], lv["checks"], lv["unique"] = "dtl", [], False
        lv["tz"], lv["tz_opts"] = tz, copy.deepcopy(rng.choice(TZ_OPTS))
        lv["coerce"], lv["nullable"] = True, rng.random() < 0.6
        spec["index"] = [lv]
    spec["tzl"] = True
    return spec


def gen_index_level(rng, name, dtype):
    lv = {"name": name, "dtype": dtype, "checks": [], "nullable": False,
          "unique": rng.random() < 0.4, "coerce": rng.random() < 0.2}
    if rng.random() < 0.7:
        lv["checks"].append(gen_check(rng, dtype, rich=False))
    lv["title"] = rng.choice(TITLES)
    lv["description"] = rng.choice(DESCS)
    return lv


# --------------------------------------------------------------------------
# builders
# --------------------------------------------------------------------------
def _pd_dtype_of(col):
    """dtype of a column / index-level spec (the "dtl" tag carries parameters)."""
    if col["dtype"] == "dtl":
        from pandera.engines.pandas_engine import DateTime
        return DateTime(tz=col.get("tz", "UTC"),
                        tz_localize_kwargs=copy.deepcopy(col.get("tz_opts") or {}))
    return _pd_dtype(col["dtype"])


def _pd_dtype(dt):
    if dt == "td":
        return "timedelta64[ns]"
    if dt == "dtz":
        from pandera.engines.pandas_engine import DateTime
        return DateTime(tz="UTC", time_zone_agnostic=True)
    return {"int": "int64", "float": "float64", "str": str, "bool": bool,
            "dt": "datetime64[ns]", "const": "int64", None: None}[dt]


def _pl_dtype(dt):
    import polars as pl
    return {"int": pl.Int64, "float": pl.Float64, "str": pl.String,
            "bool": pl.Boolean, "dt": pl.Datetime("us"), "const": pl.Int64,
            None: None}[dt]


def _arg(dt, a, polars=False, tz=None):
    if isinstance(a, (list, tuple)) and dt in ("dt", "dtz", "td", "dtl"):
        return type(a)(_arg(dt, x, polars, tz) for x in a)
    if dt == "td" and isinstance(a, str):
        return pd.Timedelta(a)
    if dt == "dtl" and isinstance(a, str):
        return pd.Timestamp(a, tz=tz)
    if dt in ("dt", "dtz") and isinstance(a, str):
        if polars:
            import datetime
            return datetime.datetime.fromisoformat(a)
        return pd.Timestamp(a)
    return a


def build_check(pa, dt, c, polars=False):
    kw = {}
    for k in ("ignore_na", "n_failure_cases", "error", "title", "description",
              "raise_warning"):
        if k in c:
            kw[k] = c[k]
    if c["kind"] == "custom":
        fn = CALLABLES.get(c["fn"]) or _LAMBDAS[c["fn"]]
        if c.get("element_wise"):
            kw["element_wise"] = True
        if c.get("groupby"):
            kw["groupby"] = c["groupby"]
        return pa.Check(fn, name=c["fn"], **kw)
    args = [_arg(dt, a, polars, c.get("tz")) for a in c["args"]]
    if c.get("container") == "tuple":
        args = [tuple(a) if isinstance(a, list) else a for a in args]
    return getattr(pa.Check, c["kind"])(*args, **kw)


def column_kwargs(pa, col, polars=False, for_index=False):
    dt = col["dtype"]
    kw = dict(checks=[build_check(pa, dt, c, polars) for c in col["checks"]],
              nullable=col.get("nullable", False), unique=col.get("unique", False),
              coerce=col.get("coerce", False))
    for k in ("title", "description"):
        if col.get(k) is not None:
            kw[k] = col[k]
    if not for_index:
        kw["required"] = col.get("required", True)
        kw["regex"] = col.get("regex", False)
    for k in ("metadata", "default"):
        if col.get(k) is not None:
            kw[k] = copy.deepcopy(col[k])
    if col.get("drop_invalid_rows"):
        kw["drop_invalid_rows"] = True
    if col.get("report_duplicates") and not polars:
        kw["report_duplicates"] = col["report_duplicates"]
    if col.get("parsers") and not polars:
        kw["parsers"] = [pa.Parser(CALLABLES[p]) for p in col["parsers"]]
    return kw


def build_column(col, backend="pandas", name=None):
    if backend == "polars":
        import pandera.polars as pa
        return pa.Column(_pl_dtype(col["dtype"]), name=name,
                         **column_kwargs(pa, col, polars=True))
    import pandera as pa
    # "no_dtype": the column declares no dtype of its own (data, checks and
    # probes still follow the dtype tag)
    return pa.Column(None if col.get("no_dtype") else _pd_dtype_of(col),
                     name=name, **column_kwargs(pa, col))


def build_index(levels):
    import pandera as pa
    if not levels:
        return None
    ixs = [pa.Index(_pd_dtype_of(lv), name=lv["name"],
                    **column_kwargs(pa, lv, for_index=True)) for lv in levels]
    return ixs[0] if len(ixs) == 1 else pa.MultiIndex(ixs)


def frame_kwargs(pa, spec, polars=False):
    kw = dict(strict=spec.get("strict", False), ordered=spec.get("ordered", False),
              coerce=spec.get("coerce", False), name=spec.get("name"),
              title=spec.get("title"), description=spec.get("description"),
              metadata=copy.deepcopy(spec.get("metadata")),
              add_missing_columns=spec.get("add_missing_columns", False),
              drop_invalid_rows=spec.get("drop_invalid_rows", False),
              unique=copy.deepcopy(spec.get("unique")))
    if spec.get("dtype"):
        kw["dtype"] = _pl_dtype(spec["dtype"]) if polars else _pd_dtype(spec["dtype"])
    if not polars:
        kw["unique_column_names"] = spec.get("unique_column_names", False)
        kw["report_duplicates"] = spec.get("report_duplicates", "all")
        if spec.get("parsers"):
            kw["parsers"] = [pa.Parser(CALLABLES[p]) for p in spec["parsers"]]
    if spec.get("df_checks"):
        kw["checks"] = [build_check(pa, spec.get("dtype") or "int", c, polars)
                        for c in spec["df_checks"]]
    return kw


_FIELD_KW = {"gt": "gt", "ge": "ge", "lt": "lt", "le": "le", "eq": "eq", "ne": "ne",
             "isin": "isin", "notin": "notin", "str_startswith": "str_startswith",
             "str_endswith": "str_endswith", "str_contains": "str_contains",
             "str_matches": "str_matches", "unique_values_eq": "unique_values_eq"}


def build_model(spec):
    """DataFrameModel class (plain annotations: numpy-2.5 sandbox limit)."""
    polars = spec["backend"] == "polars"
    if polars:
        import pandera.polars as pa
    else:
        import pandera as pa
    ann, ns = {}, {}
    pytype = {"int": int, "float": float, "str": str, "bool": bool, "const": int}
    for i, col in enumerate(spec["columns"]):
        fkw = {}
        for c in col["checks"]:
            if c["kind"] in ("in_range", "str_length"):
                fkw[c["kind"]] = {"min_value": c["args"][0], "max_value": c["args"][1]}
            elif c["kind"] in _FIELD_KW:
                fkw[_FIELD_KW[c["kind"]]] = c["args"][0]
            for o in ("ignore_na", "n_failure_cases", "raise_warning"):
                if o in c:
                    fkw[o] = c[o]
        for k in ("nullable", "unique", "coerce"):
            fkw[k] = col.get(k, False)
        for k in ("title", "description", "metadata", "default"):
            if col.get(k) is not None:
                fkw[k] = copy.deepcopy(col[k])
        attr = f"f{i}"
        if col.get("regex"):
            fkw["alias"], fkw["regex"] = col["name"], True
        else:
            attr = col["name"]
        t = pytype[col["dtype"]]
        if not col.get("required", True) and not col.get("regex"):
            import typing
            t = typing.Optional[t]
        ann[attr] = t
        ns[attr] = pa.Field(**fkw)
    cfg = {k: spec[k] for k in ("strict", "ordered", "coerce", "name", "title",
                                "description", "add_missing_columns",
                                "drop_invalid_rows", "unique") if spec.get(k) is not None}
    ns["Config"] = type("Config", (), cfg)
    ns["__annotations__"] = ann
    ns["__module__"] = __name__
    # constant class name: the schema name defaults to it (verdicts mention it)
    return type("GenModel", (pa.DataFrameModel,), ns)


class Built:
    """The schema under observation plus what is needed to operate on it."""

    def __init__(self, spec, schema, model=None):
        self.spec, self.schema, self.model = spec, schema, model


def build(spec) -> Built:
    backend, kind = spec["backend"], spec["kind"]
    if kind == "model":
        m = build_model(spec)
        return Built(spec, m.to_schema(), m)
    if backend == "polars":
        import pandera.polars as pa
        cols = {c["name"]: build_column(c, "polars") for c in spec["columns"]}
        return Built(spec, pa.DataFrameSchema(cols, **frame_kwargs(pa, spec, True)))
    import pandera as pa
    if kind == "column":
        return Built(spec, build_column(spec["columns"][0], name=spec["columns"][0]["name"]))
    if kind == "series":
        c = spec["columns"][0]
        kw = column_kwargs(pa, c)
        kw.pop("required"), kw.pop("regex")
        return Built(spec, pa.SeriesSchema(None if c.get("no_dtype") else _pd_dtype_of(c),
                                           name=c["name"],
                                           index=build_index(spec.get("index")), **kw))
    cols = {c["name"]: build_column(c) for c in spec["columns"]}
    s = pa.DataFrameSchema(cols, index=build_index(spec.get("index")),
                           **frame_kwargs(pa, spec))
    if spec.get("keyname"):
        s.columns[spec["keyname"]["key"]].set_name(spec["keyname"]["name"])
    return Built(spec, s)


# --------------------------------------------------------------------------
# data: accepted frame by construction + targeted rejections
# --------------------------------------------------------------------------
N_ROWS = 3


def data_columns(spec):
    """[(data column label, column spec)] in schema order (regex expanded)."""
    out = []
    for c in spec["columns"]:
        if c["regex"]:
            out += [("r_0", c), ("r_1", c)]
        else:
            out.append((c["name"], c))
    return out


def _values(dt, vals, tz="UTC"):
    if dt == "td":
        return pd.to_timedelta(vals)
    if dt == "dtl":        # naive wall-clock times (mixed date / date-time text)
        return pd.DatetimeIndex([pd.NaT if v is None else pd.Timestamp(v)
                                 for v in vals])
    if dt == "dt":
        return pd.to_datetime(vals)
    if dt == "dtz":
        return pd.to_datetime(vals).tz_localize(tz)
    return list(vals)


def _pd_series(dt, vals, tz="UTC"):
    v = _values(dt, vals, tz)
    if dt in ("dt", "dtz", "td", "dtl"):
        return pd.Series(v)
    if dt == "str":
        return pd.Series(v, dtype=object)
    if any(x is None for x in vals):
        return pd.Series(v, dtype="float64" if dt in ("int", "float", "const")
                         else object)
    return pd.Series(v, dtype={"int": "int64", "float": "float64", "bool": bool,
                               "const": "int64"}[dt])


def _pd_index(levels, n, override=None):
    if not levels:
        return None
    arrs = []
    for lv in levels:
        vals = list(POOL[lv["dtype"]])[:n]
        if override and override[0] == lv["name"]:
            if isinstance(override[1], list):       # whole level, other dtype
                arrs.append(pd.Index(override[1][:n], name=lv["name"]))
                continue
            vals[-1] = override[1]
        arrs.append(pd.Index(_values(lv["dtype"], vals), name=lv["name"]))
    if len(arrs) == 1:
        return arrs[0]
    return pd.MultiIndex.from_arrays(arrs, names=[lv["name"] for lv in levels])


def good_table(spec):
    """{label: (dtype tag, [values])} of an accepted frame."""
    return {lab: (c["dtype"], list(POOL[c["dtype"]])) for lab, c in data_columns(spec)}


def to_pandas(spec, table, order=None, index_override=None, tz="UTC"):
    labels = order or list(table)
    data = {lab: _pd_series(table[lab][0], table[lab][1], tz) for lab in labels}
    df = pd.DataFrame(data, columns=labels)
    if spec.get("index") and spec["kind"] != "series":
        df.index = _pd_index(spec["index"], len(df), index_override)
    return df


def to_polars(spec, table, order=None):
    import datetime

    import polars as pl
    labels = order or list(table)
    cols = {}
    for lab in labels:
        dt, vals = table[lab]
        if dt == "dt":
            vals = [None if v is None else datetime.datetime.fromisoformat(v)
                    for v in vals]
            cols[lab] = pl.Series(lab, vals, dtype=pl.Datetime("us"))
        elif dt == "wrong":
            cols[lab] = pl.Series(lab, vals)
        else:
            cols[lab] = pl.Series(lab, vals, dtype=_pl_dtype(dt))
    return pl.DataFrame(cols)


def probes(spec, rng, max_probes=6):
    """[(tag, frame)]: first one accepted by construction, then targeted
    rejections (and benign variants).  Order is deterministic given rng."""
    kind, backend = spec["kind"], spec["backend"]
    base = good_table(spec)
    cand = []      # (tag, table, kwargs)

    def tab():
        return copy.deepcopy(base)

    dcols = data_columns(spec)
    for lab, c in dcols:
        for c_i, chk in enumerate(c["checks"]):
            if chk.get("bad") is None:
                continue
            t = tab()
            t[lab][1][-1] = chk["bad"]
            cand.append((f"bad_check:{'regex' if c['regex'] else 'plain'}:{chk['kind']}",
                         t, {}))
        t = tab()
        t[lab][1][1] = None
        cand.append((f"null:{'nullable' if c['nullable'] else 'nonnull'}", t, {}))
        if c["dtype"] == "dtl":
            # the wall-clock times of the DST transitions of the zone: the only
            # data on which the tz_localize options of the data type matter
            own = "own" if c.get("tz_opts") else "default"
            for which, when in sorted(TZ_DST[c["tz"]].items()):
                t = tab()
                t[lab][1][-1] = when
                cand.append((f"dst_{which}:{own}", t, {}))
        if c["dtype"] in ("int", "float", "const", "dt", "td", "dtl"):
            t = tab()
            t[lab] = ("str" if backend == "pandas" else "wrong", ["x", "y", "z"])
            cand.append(("wrong_dtype", t, {}))
        if c["dtype"] not in ("bool", "const"):
            t = tab()
            t[lab][1][2] = t[lab][1][0]
            cand.append((f"dup:{'unique' if c['unique'] else 'free'}", t, {}))
        if kind in ("frame", "model") and not c["regex"]:
            t = tab()
            del t[lab]
            cand.append((f"missing:{'required' if c['required'] else 'optional'}", t, {}))
    if kind in ("frame", "model"):
        t = tab()
        t["extra_col"] = ("int", [1, 2, 3])
        cand.append((f"extra:strict={spec.get('strict')}", t, {}))
        if len(base) > 1:
            cand.append((f"reordered:ordered={spec.get('ordered')}", tab(),
                         {"order": list(reversed(list(base)))}))
        if spec.get("unique"):
            t = tab()
            for lab in t:
                t[lab][1][2] = t[lab][1][0]
            cand.append(("dup_rows:joint_unique", t, {}))
        if any(c["dtype"] == "dtz" for _, c in dcols):
            cand.append(("tz_other:agnostic", tab(), {"tz": "Asia/Tokyo"}))
    if spec.get("index") and backend == "pandas" and kind == "frame":
        lv = spec["index"][0]
        if lv["dtype"] == "dtl":
            own = "own" if lv.get("tz_opts") else "default"
            for which, when in sorted(TZ_DST[lv["tz"]].items()):
                cand.append((f"dst_{which}:index-{own}", tab(),
                             {"index_override": (lv["name"], when)}))
        bad = next((c["bad"] for c in lv["checks"] if c.get("bad") is not None), None)
        if bad is not None:
            cand.append(("bad_index", tab(), {"index_override": (lv["name"], bad)}))
        lv = spec["index"][-1]
        other = [7, 8, 9] if lv["dtype"] == "str" else ["1", "2", "3"]
        cand.append((f"index_wrong_dtype:{'multi' if len(spec['index']) > 1 else 'single'}",
                     tab(), {"index_override": (lv["name"], other)}))

    # choose: always the accepted frame, then a spread of candidates that
    # prefers the hostile classes (regex / dtz / bad checks)
    rng.shuffle(cand)
    cand.sort(key=lambda x: -1 if (x[0].startswith("dst_") and x[0].endswith("default"))
              else 0 if (":regex" in x[0] or "tz_other" in x[0]
                         or "index_wrong" in x[0] or x[0].startswith("dst_")) else
              1 if x[0].startswith("bad_") else 2)
    seen, chosen = set(), []
    for tag, t, kw in cand:
        cls = tag.split(":")[0] + (":regex" if ":regex" in tag else "")
        if cls in seen and len(chosen) >= 2:
            continue
        seen.add(cls)
        chosen.append((tag, t, kw))
        if len(chosen) >= max_probes - 1:
            break
    out = [("ok", _frame(spec, base, {}))]
    for tag, t, kw in chosen:
        try:
            out.append((tag, _frame(spec, t, kw)))
        except Exception:      # e.g. polars cannot hold the hostile values
            continue
    return out


def _frame(spec, table, kw):
    if spec["backend"] == "polars":
        return to_polars(spec, table, kw.get("order"))
    df = to_pandas(spec, table, **kw)
    if spec["kind"] == "series":
        s = df.iloc[:, 0]
        if spec.get("index"):
            s.index = _pd_index(spec["index"], len(s))
        return s
    return df


def clone(frame):
    return frame.clone() if hasattr(frame, "clone") else frame.copy(deep=True)


def warm_up():
    """Register the pandas and polars backends (and with them every built-in
    check implementation) before any schema of a case is built.  pandera
    registers them lazily on the first validate; Check.__eq__ compares the
    byte code of all implementations registered in a check's dispatcher, so a
    schema copied before and one copied after the registration compare unequal.
    That timing effect is not what C05 / C15 are about."""
    import pandas as pd
    import pandera as pa
    import pandera.io  # noqa: F401
    import pandera.polars as pap
    import polars as pl
    pa.DataFrameSchema({"a": pa.Column(int, pa.Check.gt(0))},
                       index=pa.Index(int)).validate(pd.DataFrame({"a": [1]}))
    pa.SeriesSchema(int, pa.Check.gt(0)).validate(pd.Series([1]))
    pap.DataFrameSchema({"a": pap.Column(int, pap.Check.gt(0))}).validate(
        pl.DataFrame({"a": [1]}))
