"""Workloads with parsing options (coerce / default / add_missing_columns /
strict='filter' / drop_invalid_rows / idempotent custom parsers) for C03, C04,
C11 and C08.  Builds on gen/spec.py; specs carry extra keys:

  column["coerce"], column["default"], column["parser"] (name of an idempotent
  parser in PARSERS), spec["coerce"], spec["add_missing_columns"],
  spec["strict"] = "filter", spec["drop_invalid_rows"], spec["parser"].
"""
from __future__ import annotations

import copy

from . import spec as G
from .. import model

# idempotent parsers by dtype: name -> (pandas fn, pure-python fn on a value)
PARSERS = {
    "float64": {"abs": lambda s: s.abs(), "clip0": lambda s: s.clip(lower=0)},
    "int64": {"abs": lambda s: s.abs(), "clip0": lambda s: s.clip(lower=0)},
    "str": {"lower": lambda s: s.str.lower(), "strip": lambda s: s.str.strip()},
}


def _retype_for_coercion(rng, fs, col, numeric_only=False):
    """Give the column another physical type from which coercion to the
    declared dtype is exact.  numeric_only: only casts whose meaning does not
    depend on the engine (int <-> float <-> numeric string, int -> str)."""
    d = fs["dtype"]
    vals = col["values"]
    if numeric_only and d in ("datetime", "bool"):
        return
    if d == "int64" and all(v is not None for v in vals):
        how = rng.choice(["str", "float", "Int64"])
        if how == "Int64" and numeric_only:
            how = "float"
        if how == "str":
            col["phys"], col["values"] = "object", [str(v) for v in vals]
        elif how == "float":
            if all(abs(v) < 2 ** 50 for v in vals):
                col["phys"], col["values"] = "float64", [float(v) for v in vals]
        else:
            col["phys"] = "Int64"
    elif d == "float64":
        if all(v is not None and float(v).is_integer() and abs(v) < 2 ** 50 for v in vals) and rng.random() < 0.5:
            col["phys"], col["values"] = "int64", [int(v) for v in vals]
        elif all(v is not None for v in vals):
            col["phys"], col["values"] = "object", [repr(float(v)) for v in vals]
    elif d == "str" and all(v is not None for v in vals):
        # int column coerced to str: values become "1", "2" — checks may then
        # fail, which is a legitimate rejection
        if rng.random() < 0.3:
            col["phys"], col["values"] = "int64", [len(v) for v in vals]
            return "inexact:str_from_int"
    elif d == "datetime" and all(v is not None for v in vals):
        col["phys"], col["values"] = "object", list(vals)
    elif d == "bool":
        pass


def add_parse_options(rng, spec, table, *, neutral=False, allow_drop=True):
    """Mutates spec/table in place; returns the list of options applied."""
    opts = []
    # frame-level dtype / checks are exercised by C01/C02 without parsing
    # options; here "conforming by construction" is about the column schemas
    spec.pop("checks", None)
    if spec["kind"] == "frame":
        spec["dtype"] = None
    if spec["kind"] == "series":
        fs = spec["field"]
        col = table["columns"][0]
        if rng.random() < 0.6:
            fs["coerce"] = True
            if _retype_for_coercion(rng, fs, col):
                opts.append("inexact:str_from_int")
            opts.append("coerce")
        if fs["dtype"] in ("float64", "str", "datetime") and rng.random() < 0.4 and col["values"]:
            ok = G.satisfying(fs)
            if ok and col["phys"] == G.PHYS_OF[fs["dtype"]]:
                fs["default"] = rng.choice(ok)
                col["values"][rng.randrange(len(col["values"]))] = None
                opts.append("default")
        if spec.get("index") and rng.random() < 0.5 and table.get("index"):
            for ifs, lev in zip(spec["index"], table["index"]["levels"]):
                ifs["coerce"] = True
                if rng.random() < 0.7:
                    if _retype_for_coercion(rng, ifs, lev):
                        opts.append("inexact:str_from_int")
            opts.append("index_coerce")
        if allow_drop and rng.random() < 0.25:
            spec["drop_invalid_rows"] = True
            opts.append("drop_invalid_rows")
        return opts

    cols = {c["name"]: c for c in table["columns"]}
    r = rng.random()
    if r < 0.3:
        spec["coerce"] = True
        opts.append("schema_coerce")
    for fs in spec["columns"]:
        if fs["regex"]:
            if rng.random() < 0.3:
                fs["coerce"] = True
            matched = [c for c in table["columns"] if model.match_regex(fs["name"], c["name"])]
            if matched and fs["dtype"] in ("float64", "str", "datetime") and not fs["unique"] \
                    and rng.random() < 0.35:
                ok = G.satisfying(fs)
                col = rng.choice(matched)
                if ok and col["values"] and col["phys"] == G.PHYS_OF[fs["dtype"]]:
                    fs["default"] = rng.choice(ok)
                    col["values"][rng.randrange(len(col["values"]))] = None
                    opts.append("default")
                    opts.append("regex_default")
            continue
        col = cols.get(fs["name"])
        if (spec["coerce"] or rng.random() < 0.4):
            if not spec["coerce"]:
                fs["coerce"] = True
                opts.append("column_coerce")
            if col is not None and rng.random() < 0.75:
                if _retype_for_coercion(rng, fs, col, numeric_only=neutral):
                    opts.append("inexact:str_from_int")
        if col is not None and fs["dtype"] in ("float64", "str", "datetime") \
                and rng.random() < 0.3 and col["values"] \
                and col["phys"] == G.PHYS_OF[fs["dtype"]] and not fs["unique"]:
            ok = G.satisfying(fs)
            if ok:
                fs["default"] = rng.choice(ok)
                col["values"][rng.randrange(len(col["values"]))] = None
                opts.append("default")
        if not neutral and fs["dtype"] in PARSERS and rng.random() < 0.15:
            fs["parser"] = rng.choice(sorted(PARSERS[fs["dtype"]]))
            opts.append("column_parser")
            opts.append("inexact:parser_changes_values")
    if spec.get("index") and table.get("index") and (spec["coerce"] or rng.random() < 0.4):
        for ifs, lev in zip(spec["index"], table["index"]["levels"]):
            ifs["coerce"] = True
            if rng.random() < 0.7:
                if _retype_for_coercion(rng, ifs, lev):
                    opts.append("inexact:str_from_int")
        opts.append("index_coerce")
    if rng.random() < 0.3:
        spec["add_missing_columns"] = True
        opts.append("add_missing_columns")
        # drop some columns; give some of them defaults / nullable
        for fs in spec["columns"]:
            if fs["regex"] or fs["name"] not in cols or len(table["columns"]) <= 1:
                continue
            if rng.random() < 0.5:
                how = rng.random()
                if how < 0.45:
                    ok = G.satisfying(fs)
                    if ok and not fs["unique"]:
                        fs["default"] = rng.choice(ok)
                elif how < 0.8:
                    fs["nullable"] = True
                # else: neither -> ADD_MISSING_COLUMN_NO_DEFAULT expected
                if fs.get("default") is None and not fs["nullable"]:
                    opts.append("inexact:no_default_for_missing_column")
                elif fs.get("default") is None and (
                        fs["unique"] or fs["dtype"] in ("int64", "bool")
                        or any(not c.get("ignore_na", True) for c in fs["checks"])):
                    opts.append("inexact:added_all_null_column")
                table["columns"] = [c for c in table["columns"] if c["name"] != fs["name"]]
                cols.pop(fs["name"], None)
    if rng.random() < 0.3:
        spec["strict"] = "filter"
        opts.append("strict_filter")
        n = len(table["columns"][0]["values"]) if table["columns"] else 0
        for name in ("extra1", "extra2")[: rng.randint(1, 2)]:
            table["columns"].insert(rng.randint(0, len(table["columns"])),
                                    {"name": name, "phys": "int64",
                                     "values": [rng.randint(0, 3) for _ in range(n)]})
    if allow_drop and rng.random() < 0.25:
        spec["drop_invalid_rows"] = True
        opts.append("drop_invalid_rows")
    return opts


def strip(spec):
    """The same schema with every parsing option switched off ('filter' ->
    strict=True: a filtered output has no undeclared columns)."""
    s = copy.deepcopy(spec)
    s["drop_invalid_rows"] = False
    if s["kind"] == "series":
        s["field"]["coerce"] = False
        s["field"]["default"] = None
        s["field"].pop("parser", None)
    else:
        s["coerce"] = False
        s["add_missing_columns"] = False
        if s["strict"] == "filter":
            s["strict"] = True
        for fs in s["columns"]:
            fs["coerce"] = False
            fs["default"] = None
            fs.pop("parser", None)
    for fs in s.get("index") or []:
        fs["coerce"] = False
    return s


def gen_parse_case(rng, *, neutral=False, allow_drop=True, kind=None, mutate_p=0.35,
                   neutral_regex=False):
    spec = G.gen_spec(rng, neutral=neutral, kind=kind, neutral_regex=neutral_regex)
    spec.pop("checks", None)
    if spec["kind"] == "frame":
        spec["dtype"] = None
    table = G.gen_table(rng, spec)
    opts = add_parse_options(rng, spec, table, neutral=neutral, allow_drop=allow_drop)
    muts = []
    if rng.random() < mutate_p or spec.get("drop_invalid_rows"):
        muts = G.mutate(rng, spec, table, k=rng.choice([1, 1, 2]))
    return spec, table, opts, muts
