"""Workloads with parsing options (coerce / default / add_missing_columns /
strict='filter' / drop_invalid_rows / idempotent custom parsers) for C03, C04,
C11 and C08.  Builds on gen/spec.py; specs carry extra keys:

  column["coerce"], column["default"], column["parser"] (name of an idempotent
  parser in PARSERS), spec["coerce"], spec["add_missing_columns"],
  spec["strict"] = "filter", spec["drop_invalid_rows"], spec["parser"].
"""
from __future__ import annotations

import copy

from . import spec as G
from .. import model

# idempotent parsers by dtype: name -> (pandas fn, pure-python fn on a value)
PARSERS = {
    "float64": {"abs": lambda s: s.abs(), "clip0": lambda s: s.clip(lower=0)},
    "int64": {"abs": lambda s: s.abs(), "clip0": lambda s: s.clip(lower=0)},
    "str": {"lower": lambda s: s.str.lower(), "strip": lambda s: s.str.strip()},
}


def _retype_for_coercion(rng, fs, col, numeric_only=False):
    """Give the column another physical type from which coercion to the
    declared dtype is exact.  numeric_only: only casts whose meaning does not
    depend on the engine (int <-> float <-> numeric string, int -> str)."""
    d = fs["dtype"]
    vals = col["values"]
    if numeric_only and d in ("datetime", "bool"):
        return
    if d == "int64" and all(v is not None for v in vals):
        how = rng.choice(["str", "float", "Int64"])
        if how == "Int64" and numeric_only:
            how = "float"
        if how == "str":
            col["phys"], col["values"] = "object", [str(v) for v in vals]
        elif how == "float":
            if all(abs(v) < 2 ** 50 for v in vals):
                col["phys"], col["values"] = "float64", [float(v) for v in vals]
        else:
            col["phys"] = "Int64"
    elif d == "float64":
        if all(v is not None and float(v).is_integer() and abs(v) < 2 ** 50 for v in vals) and rng.random() < 0.5:
            col["phys"], col["values"] = "int64", [int(v) for v in vals]
        elif all(v is not None for v in vals):
            col["phys"], col["values"] = "object", [repr(float(v)) for v in vals]
    elif d == "str" and all(v is not None for v in vals):
        # int column coerced to str: values become "1", "2" — checks may then
        # fail, which is a legitimate rejection
        if rng.random() < 0.3:
            col["phys"], col["values"] = "int64", [len(v) for v in vals]
            return "inexact:str_from_int"
    elif d == "datetime" and all(v is not None for v in vals):
        col["phys"], col["values"] = "object", list(vals)
    elif d == "bool":
        pass


NULL_TEXT = {"float64": ["nan", "NaN", "nan", "None", ""],
             "datetime": ["NaT", "NaT", "nat", "None", ""]}


def _coercion_made_nulls(rng, spec, fs, col, p=0.45):
    """Cells that are *not* null in the input but become null through coercion
    (the texts "nan" / "NaT" / "None" / "" in an object column coerced to float
    / datetime), in a column that has a default: default filling has to cover
    the nulls that coercion creates, or the output is not a fixpoint.  Whether
    a given text is coercible at all is pandas' business - the case is marked
    inexact and only judged when validate returns."""
    if col is None or not col["values"] or col["phys"] != "object" \
            or fs["dtype"] not in NULL_TEXT or fs["unique"] or fs.get("regex") \
            or not (fs.get("coerce") or spec.get("coerce")) or rng.random() >= p:
        return False
    if not all(isinstance(v, str) for v in col["values"]):
        return False
    ok = G.satisfying(fs)
    if not ok:
        return False
    if fs.get("default") is None:
        fs["default"] = rng.choice(ok)
    if rng.random() < 0.75:
        fs["nullable"] = True
    for _ in range(rng.randint(1, 2)):
        col["values"][rng.randrange(len(col["values"]))] = rng.choice(NULL_TEXT[fs["dtype"]])
    return True


def force_index_combo(rng, spec, table):
    """drop_invalid_rows with a single-level Index schema whose check fails on
    some row TOGETHER with a column error on a row at a smaller position (the
    failure cases of an Index schema are positions: they go stale when rows are
    dropped error by error).  Row labels stay unique and non-null.  Mutates
    spec / table; returns True when the combination was produced."""
    if spec["kind"] != "frame" or not table["columns"]:
        return False
    n = len(table["columns"][0]["values"])
    if n < 3 or any(len(c["values"]) != n for c in table["columns"]):
        return False
    names = [c["name"] for c in table["columns"]]
    if len(set(names)) != len(names):
        return False
    # -- the column error: a failing check, else a null in a non-nullable column
    cands = []
    for fs in spec["columns"]:
        if fs["regex"]:
            continue
        for c in table["columns"]:
            if c["name"] == fs["name"] and c["phys"] == G.PHYS_OF[fs["dtype"]]:
                bad = G.violating(fs) if fs["checks"] else []
                if bad and not fs["unique"]:
                    cands.append((fs, c, "check", bad))
                elif not fs["nullable"] and c["phys"] in ("float64", "object", "datetime"):
                    cands.append((fs, c, "null", None))
    if not cands:
        return False
    # -- the index schema: one level, a check with >= n conforming and >= 1
    #    violating pool values
    ifs = None
    for _ in range(8):
        f = G.gen_field(rng, rng.choice(["i0", None]), rng.choice(["int64", "str", "float64", "datetime"]),
                        p_checks=1.0, max_checks=1)
        f["nullable"], f["unique"] = False, rng.random() < 0.3
        if len(G.satisfying(f)) >= n and G.violating(f):
            ifs = f
            break
    if ifs is None:
        return False
    good = rng.sample(G.satisfying(ifs), n)
    j = rng.randrange(1, n)
    i = rng.randrange(0, j)
    good[j] = rng.choice([x for x in G.violating(ifs)])
    spec["index"] = [ifs]
    table["index"] = {"levels": [{"name": ifs["name"], "phys": G.PHYS_OF[ifs["dtype"]],
                                  "values": good}]}
    fs, c, how, bad = rng.choice(cands)
    c["values"][i] = rng.choice(bad) if how == "check" else None
    if rng.random() < 0.4 and j + 1 < n:
        # a second index failure further down
        k = rng.randrange(j + 1, n)
        more = [x for x in G.violating(ifs) if x not in good]
        if more:
            good[k] = rng.choice(more)
    spec["drop_invalid_rows"] = True
    return True


def add_parse_options(rng, spec, table, *, neutral=False, allow_drop=True):
    """Mutates spec/table in place; returns the list of options applied."""
    opts = []
    # frame-level dtype / checks are exercised by C01/C02 without parsing
    # options; here "conforming by construction" is about the column schemas
    spec.pop("checks", None)
    if spec["kind"] == "frame":
        spec["dtype"] = None
    if spec["kind"] == "series":
        fs = spec["field"]
        col = table["columns"][0]
        if rng.random() < 0.6:
            fs["coerce"] = True
            if _retype_for_coercion(rng, fs, col):
                opts.append("inexact:str_from_int")
            opts.append("coerce")
        if fs["dtype"] in ("float64", "str", "datetime") and rng.random() < 0.4 and col["values"]:
            ok = G.satisfying(fs)
            if ok and col["phys"] == G.PHYS_OF[fs["dtype"]]:
                fs["default"] = rng.choice(ok)
                col["values"][rng.randrange(len(col["values"]))] = None
                opts.append("default")
        if _coercion_made_nulls(rng, spec, fs, col):
            opts.append("coercion_made_nulls")
            opts.append("inexact:coercion_makes_nulls")
        if spec.get("index") and rng.random() < 0.5 and table.get("index"):
            for ifs, lev in zip(spec["index"], table["index"]["levels"]):
                ifs["coerce"] = True
                if rng.random() < 0.7:
                    if _retype_for_coercion(rng, ifs, lev):
                        opts.append("inexact:str_from_int")
            opts.append("index_coerce")
        if allow_drop and rng.random() < 0.25:
            spec["drop_invalid_rows"] = True
            opts.append("drop_invalid_rows")
        return opts

    cols = {c["name"]: c for c in table["columns"]}
    r = rng.random()
    if r < 0.3:
        spec["coerce"] = True
        opts.append("schema_coerce")
    for fs in spec["columns"]:
        if fs["regex"]:
            if rng.random() < 0.3:
                fs["coerce"] = True
            matched = [c for c in table["columns"] if model.match_regex(fs["name"], c["name"])]
            if matched and fs["dtype"] in ("float64", "str", "datetime") and not fs["unique"] \
                    and rng.random() < 0.35:
                ok = G.satisfying(fs)
                col = rng.choice(matched)
                if ok and col["values"] and col["phys"] == G.PHYS_OF[fs["dtype"]]:
                    fs["default"] = rng.choice(ok)
                    col["values"][rng.randrange(len(col["values"]))] = None
                    opts.append("default")
                    opts.append("regex_default")
            continue
        col = cols.get(fs["name"])
        if (spec["coerce"] or rng.random() < 0.4):
            if not spec["coerce"]:
                fs["coerce"] = True
                opts.append("column_coerce")
            if col is not None and rng.random() < 0.75:
                if _retype_for_coercion(rng, fs, col, numeric_only=neutral):
                    opts.append("inexact:str_from_int")
        if col is not None and fs["dtype"] in ("float64", "str", "datetime") \
                and rng.random() < 0.3 and col["values"] \
                and col["phys"] == G.PHYS_OF[fs["dtype"]] and not fs["unique"]:
            ok = G.satisfying(fs)
            if ok:
                fs["default"] = rng.choice(ok)
                col["values"][rng.randrange(len(col["values"]))] = None
                opts.append("default")
        if not neutral and _coercion_made_nulls(rng, spec, fs, col):
            opts.append("coercion_made_nulls")
            opts.append("inexact:coercion_makes_nulls")
        if not neutral and fs["dtype"] in PARSERS and rng.random() < 0.15:
            fs["parser"] = rng.choice(sorted(PARSERS[fs["dtype"]]))
            opts.append("column_parser")
            opts.append("inexact:parser_changes_values")
    if spec.get("index") and table.get("index") and (spec["coerce"] or rng.random() < 0.4):
        for ifs, lev in zip(spec["index"], table["index"]["levels"]):
            ifs["coerce"] = True
            if rng.random() < 0.7:
                if _retype_for_coercion(rng, ifs, lev):
                    opts.append("inexact:str_from_int")
        opts.append("index_coerce")
    if rng.random() < 0.3:
        spec["add_missing_columns"] = True
        opts.append("add_missing_columns")
        # drop some columns; give some of them defaults / nullable
        for fs in spec["columns"]:
            if fs["regex"] or fs["name"] not in cols or len(table["columns"]) <= 1:
                continue
            if rng.random() < 0.5:
                how = rng.random()
                if how < 0.45:
                    ok = G.satisfying(fs)
                    if ok and not fs["unique"]:
                        fs["default"] = rng.choice(ok)
                elif how < 0.8:
                    fs["nullable"] = True
                # else: neither -> ADD_MISSING_COLUMN_NO_DEFAULT expected
                if fs.get("default") is None and not fs["nullable"]:
                    opts.append("inexact:no_default_for_missing_column")
                elif fs.get("default") is None and (
                        fs["unique"] or fs["dtype"] in ("int64", "bool")
                        or any(not c.get("ignore_na", True) for c in fs["checks"])):
                    opts.append("inexact:added_all_null_column")
                table["columns"] = [c for c in table["columns"] if c["name"] != fs["name"]]
                cols.pop(fs["name"], None)
    if rng.random() < 0.3:
        spec["strict"] = "filter"
        opts.append("strict_filter")
        n = len(table["columns"][0]["values"]) if table["columns"] else 0
        for name in ("extra1", "extra2")[: rng.randint(1, 2)]:
            table["columns"].insert(rng.randint(0, len(table["columns"])),
                                    {"name": name, "phys": "int64",
                                     "values": [rng.randint(0, 3) for _ in range(n)]})
    if allow_drop and rng.random() < 0.25:
        spec["drop_invalid_rows"] = True
        opts.append("drop_invalid_rows")
    return opts


def strip(spec):
    """The same schema with every parsing option switched off ('filter' ->
    strict=True: a filtered output has no undeclared columns)."""
    s = copy.deepcopy(spec)
    s["drop_invalid_rows"] = False
    if s["kind"] == "series":
        s["field"]["coerce"] = False
        s["field"]["default"] = None
        s["field"].pop("parser", None)
    else:
        s["coerce"] = False
        s["add_missing_columns"] = False
        if s["strict"] == "filter":
            s["strict"] = True
        for fs in s["columns"]:
            fs["coerce"] = False
            fs["default"] = None
            fs.pop("parser", None)
            fs.pop("col_drop", None)
    for fs in s.get("index") or []:
        fs["coerce"] = False
    if s.get("index_coerce"):
        s["index_coerce"] = False
    return s


def gen_parse_case(rng, *, neutral=False, allow_drop=True, kind=None, mutate_p=0.35,
                   neutral_regex=False, labels_p=0.25, index_combo_p=0.0, parser_combo_p=0.0,
                   same_component_p=0.0, unordered_mi_p=0.0):
    spec = G.gen_spec(rng, neutral=neutral, kind=kind, neutral_regex=neutral_regex)
    spec.pop("checks", None)
    if spec["kind"] == "frame":
        spec["dtype"] = None
    table = G.gen_table(rng, spec)
    opts = add_parse_options(rng, spec, table, neutral=neutral, allow_drop=allow_drop)
    muts = []
    if rng.random() < mutate_p or spec.get("drop_invalid_rows"):
        muts = G.mutate(rng, spec, table, k=rng.choice([1, 1, 2]))
    if index_combo_p and not neutral and rng.random() < index_combo_p \
            and force_index_combo(rng, spec, table):
        if "drop_invalid_rows" not in opts:
            opts.append("drop_invalid_rows")
        opts.append("combo:index_error_below_column_error")
        muts.append(("index_combo",))
    if parser_combo_p and not neutral and rng.random() < parser_combo_p \
            and force_parser_combo(rng, spec, table):
        if "drop_invalid_rows" not in opts:
            opts.append("drop_invalid_rows")
        for o in ("column_parser", "inexact:parser_changes_values", "combo:parser_column_fails_lazily"):
            if o not in opts:
                opts.append(o)
        muts.append(("parser_combo",))
    if same_component_p and rng.random() < same_component_p:
        how = force_same_component_errors(rng, spec, table)
        if how:
            spec["drop_invalid_rows"] = True
            if "drop_invalid_rows" not in opts:
                opts.append("drop_invalid_rows")
            opts.append("combo:same_component_errors")
            opts.append("combo:same_component_errors:" + how)
            muts.append(("same_component_errors", how))
    if unordered_mi_p and not neutral and rng.random() < unordered_mi_p:
        how = force_unordered_multiindex(rng, spec, table)
        if how:
            opts.append("index_coerce")
            opts.append("combo:unordered_multiindex_coerced")
            opts.append("combo:unordered_multiindex_coerced:" + how)
    if labels_p and G.relabel(rng, spec, table, p=labels_p, polars=neutral):
        opts.append("falsy_labels")
    return spec, table, opts, muts


# ------------------------------------------------ parser-stage failures
def inject_parser_failures(rng, spec, table, *, neutral=False):
    """Make the *parsing* stage fail (errors that are raised by the parsers
    whatever the validation depth is): a value that cannot be coerced in a
    coerce=True column, a default that does not fit the column, a missing
    column that add_missing_columns cannot fill, a single Index schema on a
    MultiIndex.  Mutates spec / table, returns the tags of what was injected."""
    tags = []
    if spec["kind"] == "series":
        fs, col = spec["field"], table["columns"][0]
        if fs["dtype"] in ("int64", "float64", "datetime") and col["values"] \
                and all(v is not None for v in col["values"]):
            fs["coerce"] = True
            col["phys"] = "object"
            col["values"] = [str(v) for v in col["values"]]
            col["values"][rng.randrange(len(col["values"]))] = rng.choice(["x?", "1.5.2", "not-a-date"])
            tags.append("uncoercible_value")
        return tags
    cols = {c["name"]: c for c in table["columns"]}
    plain = [fs for fs in spec["columns"] if not fs["regex"] and fs["name"] in cols]
    rng.shuffle(plain)
    want = rng.sample(["coerce", "coerce", "default", "missing", "index"], rng.randint(1, 2))
    for fs in plain:
        col = cols[fs["name"]]
        if "coerce" in want and fs["dtype"] in ("int64", "float64", "datetime") and col["values"] \
                and all(v is not None for v in col["values"]) and col["phys"] != "object":
            if not spec.get("coerce"):
                fs["coerce"] = True
            col["phys"] = "object"
            col["values"] = [str(v) for v in col["values"]]
            col["values"][rng.randrange(len(col["values"]))] = rng.choice(["x?", "1.5.2", "not-a-date"])
            tags.append("uncoercible_value")
            want.remove("coerce")
            continue
        if "default" in want and not neutral and fs["dtype"] == "int64" and col["values"] \
                and col["phys"] in ("int64", "Int64") and fs.get("default") is None:
            # a float default on a nullable-integer column cannot be filled in
            col["phys"] = "Int64"
            col["values"][rng.randrange(len(col["values"]))] = None
            fs["default"] = 0.5
            tags.append("unfillable_default")
            want.remove("default")
            continue
        if "missing" in want and len(table["columns"]) > 1:
            spec["add_missing_columns"] = True
            fs["default"] = None
            fs["nullable"] = False
            fs["required"] = True
            table["columns"] = [c for c in table["columns"] if c["name"] != fs["name"]]
            cols.pop(fs["name"], None)
            tags.append("missing_column_without_default")
            want.remove("missing")
            continue
    if "index" in want and not neutral and spec.get("index") and len(spec["index"]) == 1 \
            and table.get("index") and len(table["index"]["levels"]) == 1:
        n = len(table["index"]["levels"][0]["values"])
        table["index"]["levels"].append({"name": "extra_level", "phys": "int64",
                                         "values": list(range(n))})
        tags.append("index_schema_on_multiindex")
    return tags


def force_range_index(rng, spec, table, with_column_error=0.5):
    """drop_invalid_rows with an Index check failing on a frame whose index is a
    pd.RangeIndex that is NOT RangeIndex(0, n, 1) - a slice df.iloc[k:], a
    1-based or a stepped range: labels and positions differ although the index
    'is a RangeIndex'.  Optionally a column error on another row."""
    if spec["kind"] != "frame" or not table["columns"]:
        return False
    n = len(table["columns"][0]["values"])
    names = [c["name"] for c in table["columns"]]
    if n < 3 or any(len(c["values"]) != n for c in table["columns"]) or len(set(names)) != len(names):
        return False
    for _ in range(12):
        f = G.gen_field(rng, rng.choice(["i0", None]), "int64", p_checks=1.0, max_checks=1)
        f["nullable"], f["unique"] = False, rng.random() < 0.3
        start, step = rng.choice([(1, 1), (2, 1), (3, 1), (-2, 1), (0, 2), (1, 2), (0, 3), (5, -1), (7, 1)])
        vals = [start + i * step for i in range(n)]
        bad = [i for i, x in enumerate(vals) if not all(model.check_cell(c, x) for c in f["checks"])]
        if bad and len(bad) < n:
            break
    else:
        return False
    spec["index"] = [f]
    table["index"] = {"levels": [{"name": f["name"], "phys": "range", "start": start, "step": step,
                                  "values": vals}]}
    if rng.random() < with_column_error:
        good_rows = [i for i in range(n) if i not in bad]
        cands = []
        for fs in spec["columns"]:
            if fs["regex"] or fs["unique"] or not fs["checks"]:
                continue
            for c in table["columns"]:
                if c["name"] == fs["name"] and c["phys"] == G.PHYS_OF[fs["dtype"]] and G.violating(fs):
                    cands.append((fs, c))
        if cands and good_rows:
            fs, c = rng.choice(cands)
            c["values"][rng.choice(good_rows)] = rng.choice(G.violating(fs))
    spec["drop_invalid_rows"] = True
    return True


def add_whole_column_check(rng, spec, table, p_fail=0.6):
    """A check whose function returns ONE boolean for the whole column / frame
    (aggregate check) or raises: its violation cannot be attributed to rows, so
    drop_invalid_rows cannot repair it.  Appended to a random column / the
    series field / an index level / the frame.  Returns a tag or None."""
    def mk(nvalues):
        if rng.random() < 0.3:
            return {"kind": "custom_raise", "args": {}, "ignore_na": True}, "custom_raise"
        k = max(0, nvalues - 1) if rng.random() < p_fail else nvalues + rng.randint(0, 2)
        return ({"kind": "custom_agg", "args": {"fn": "len_le", "value": k}, "ignore_na": True},
                "custom_agg:" + ("fail" if k < nvalues else "pass"))
    if spec["kind"] == "series":
        col = table["columns"][0]
        chk, tag = mk(sum(1 for v in col["values"] if v is not None))
        spec["field"]["checks"].append(chk)
        return "series:" + tag
    where = rng.choice(["column", "column", "frame", "index"])
    if where == "index" and spec.get("index") and table.get("index") \
            and len(spec["index"]) == len(table["index"]["levels"]):
        k = rng.randrange(len(spec["index"]))
        lev = table["index"]["levels"][k]
        chk, tag = mk(sum(1 for v in lev["values"] if v is not None))
        spec["index"][k]["checks"].append(chk)
        return "index:" + tag
    if where == "frame" and table["columns"]:
        chk, tag = mk(len(table["columns"][0]["values"]))
        spec["checks"] = list(spec.get("checks") or []) + [chk]
        return "frame:" + tag
    cols = {c["name"]: c for c in table["columns"]}
    cands = [fs for fs in spec["columns"] if not fs["regex"] and fs["name"] in cols]
    if not cands:
        return None
    fs = rng.choice(cands)
    chk, tag = mk(sum(1 for v in cols[fs["name"]]["values"] if v is not None))
    fs["checks"].append(chk)
    return "column:" + tag


# ------------------------------------------------ forced combinations (round 3)
PY_PARSERS = {
    "abs": lambda x: abs(x),
    "clip0": lambda x: x if x >= 0 else type(x)(0),
    "lower": lambda x: x.lower(),
    "strip": lambda x: x.strip(),
}
# raw values a parser changes (on top of the dtype pool)
RAW_FOR_PARSER = {
    ("abs", "int64"): [-2, -4, -5, -7, -9], ("clip0", "int64"): [-2, -4, -5, -7, -9],
    ("abs", "float64"): [-2.5, -1.0, -3.0, -4.5, -2.0], ("clip0", "float64"): [-2.5, -1.0, -3.0, -4.5],
    ("lower", "str"): ["AB", "Ab", "B", "FOO", "Bar", "XB", "BA", "A.B"],
    ("strip", "str"): [" a", "b ", " ab ", "foo ", " bar", "\tabc", " xb ", " a.b", "  "],
}


def force_parser_combo(rng, spec, table):
    """drop_invalid_rows + a Column with a custom (idempotent) parser whose
    column STILL fails a check on one row after parsing (the column takes the
    lazy error path) while another row of the same column survives with a raw
    value that differs from its parsed value (the parsed column has to come
    back, not the raw one).  pandas DataFrameSchema columns and SeriesSchema.  Mutates spec / table; returns
    True when the combination was produced."""
    if not table["columns"]:
        return False
    n = len(table["columns"][0]["values"])
    names = [c["name"] for c in table["columns"]]
    if n < 2 or any(len(c["values"]) != n for c in table["columns"]) or len(set(names)) != len(names):
        return False
    cands = []
    if spec["kind"] == "series":
        # SeriesSchema(parsers=...) takes the same path
        fs, c = spec["field"], table["columns"][0]
        if fs["dtype"] in PARSERS and c["phys"] == G.PHYS_OF[fs["dtype"]]:
            cands.append((fs, c))
    else:
        listed = set(G._flat_unique(spec))
        for fs in spec["columns"]:
            if fs["regex"] or fs["dtype"] not in PARSERS or fs["name"] in listed:
                continue
            for c in table["columns"]:
                if c["name"] == fs["name"] and c["phys"] == G.PHYS_OF[fs["dtype"]]:
                    cands.append((fs, c))
    if not cands:
        return False
    fs, c = rng.choice(cands)
    for attempt in range(10):
        pname = fs.get("parser") if attempt == 0 and fs.get("parser") else rng.choice(sorted(PARSERS[fs["dtype"]]))
        checks = fs["checks"] if attempt < 2 and fs["checks"] else \
            [G.gen_check(rng, fs["dtype"]) for _ in range(rng.randint(1, 2))]
        f2 = dict(fs, checks=checks)
        fn = PY_PARSERS[pname]
        raws = list(G.POOL[fs["dtype"]]) + RAW_FOR_PARSER[(pname, fs["dtype"])]
        ok = lambda x: all(model.check_cell(k, x) for k in checks)
        changed_ok = [r for r in raws if fn(r) != r and ok(fn(r))]
        bad = [r for r in raws if not ok(fn(r))]
        fill = [r for r in G.POOL[fs["dtype"]] if ok(fn(r))]
        if changed_ok and bad and fill:
            break
    else:
        return False
    fs["checks"] = checks
    for k in checks:
        k["ignore_na"] = True
    fs["parser"] = pname
    fs["unique"] = False
    # every non-null cell conforms after parsing, then the two planted rows
    c["values"] = [v if v is None or ok(fn(v)) else rng.choice(fill) for v in c["values"]]
    i, j = rng.sample(range(n), 2)
    c["values"][i] = rng.choice(bad)
    c["values"][j] = rng.choice(changed_ok)
    if n >= 3 and rng.random() < 0.4:
        k = rng.choice([x for x in range(n) if x not in (i, j)])
        c["values"][k] = rng.choice(changed_ok + bad)
    spec["drop_invalid_rows"] = True
    return True


def force_same_component_errors(rng, spec, table, how=None):
    """Two row-level errors collected for the SAME schema component on
    DIFFERENT rows: (two_checks) two checks of one column, each failing on a row
    of its own; (null_and_check) a null in a non-nullable column + a value check
    failing on another row; (regex_nulls) nulls on different rows of two columns
    matched by one non-nullable regex column.  Backend-neutral (used for polars
    and pandas).  Mutates spec / table; returns the variant or None."""
    if spec["kind"] != "frame" or not table["columns"]:
        return None
    n = len(table["columns"][0]["values"])
    names = [c["name"] for c in table["columns"]]
    if n < 3 or any(len(c["values"]) != n for c in table["columns"]) or len(set(names)) != len(names):
        return None
    how = how or rng.choice(["two_checks", "null_and_check", "regex_nulls"])
    listed = set(G._flat_unique(spec))
    neutral = spec.get("_neutral", False)
    if how == "regex_nulls":
        rx = [fs for fs in spec["columns"] if fs["regex"]]
        fs = rx[0] if rx else None
        cols = [c for c in table["columns"] if fs and model.match_regex(fs["name"], c["name"])]
        if fs is None or len(cols) < 2 or fs["dtype"] not in ("float64", "str", "datetime") \
                or any(c["phys"] != G.PHYS_OF[fs["dtype"]] for c in cols):
            # (re)build the regex column: two matched columns of a nullable-capable type
            spec["columns"] = [f for f in spec["columns"] if not f["regex"]]
            table["columns"] = [c for c in table["columns"]
                                if not any(model.match_regex(f["name"], c["name"]) for f in rx)]
            fs = G.gen_field(rng, "r_.*", rng.choice(["float64", "str", "datetime"]), neutral=neutral,
                             allow_unique=False)
            fs["regex"] = True
            spec["columns"].append(fs)
            cols = [{"name": l, "phys": G.PHYS_OF[fs["dtype"]], "values": G.gen_values(rng, fs, n)}
                    for l in ("r_a", "r_bb")]
            table["columns"].extend(cols)
        fs["nullable"], fs["unique"], fs["required"] = False, False, True
        for k in fs["checks"]:
            k["ignore_na"] = True
        ok = G.satisfying(fs)
        if not ok:
            return None
        for c in cols:
            c["values"] = [v if v is not None else rng.choice(ok) for v in c["values"]]
        i, j = rng.sample(range(n), 2)
        cols[0]["values"][i] = None
        cols[1]["values"][j] = None
        return how
    cands = []
    for fs in spec["columns"]:
        if fs["regex"] or fs["name"] in listed or fs["dtype"] == "bool":
            continue
        for c in table["columns"]:
            if c["name"] == fs["name"] and c["phys"] == G.PHYS_OF[fs["dtype"]]:
                if how == "two_checks" or c["phys"] in ("float64", "object", "datetime"):
                    cands.append((fs, c))
    if not cands:
        return None
    fs, c = rng.choice(cands)
    pool = G.POOL[fs["dtype"]]
    for _ in range(16):
        k1 = G.gen_check(rng, fs["dtype"], neutral)
        k2 = G.gen_check(rng, fs["dtype"], neutral)
        only1 = [x for x in pool if not model.check_cell(k1, x) and model.check_cell(k2, x)]
        only2 = [x for x in pool if model.check_cell(k1, x) and not model.check_cell(k2, x)]
        both_ok = [x for x in pool if model.check_cell(k1, x) and model.check_cell(k2, x)]
        if how == "two_checks" and only1 and only2 and both_ok:
            break
        if how == "null_and_check" and both_ok and (only1 or only2):
            break
    else:
        return None
    fs["checks"] = [k1, k2] if how == "two_checks" or rng.random() < 0.5 else [k1 if only1 else k2]
    fs["unique"] = False
    if how == "null_and_check" and len(fs["checks"]) == 1:
        only = only1 if only1 else only2
        both_ok = [x for x in pool if model.check_cell(fs["checks"][0], x)]
    c["values"] = [rng.choice(both_ok) for _ in range(n)]
    i, j = rng.sample(range(n), 2)
    if how == "two_checks":
        c["values"][i] = rng.choice(only1)
        c["values"][j] = rng.choice(only2)
    else:
        fs["nullable"] = False
        c["values"][i] = None
        c["values"][j] = rng.choice(only1 or only2) if len(fs["checks"]) == 2 else rng.choice(only)
        if rng.random() < 0.5:
            # the null above the check failure / below it: both orders
            c["values"][i], c["values"][j] = c["values"][j], c["values"][i]
    return how


def force_unordered_multiindex(rng, spec, table):
    """MultiIndex(ordered=False) with named, COERCING levels (coerce on every
    level, on the MultiIndex or on the dataframe schema) validated on data whose
    level order differs from the order in which the schema lists its levels,
    the level values stored in a type that needs the (exact) coercion, and
    levels that accept each other's labels (same dtype, the same check): a
    coerced level that lands under another level's name raises nothing.
    pandas DataFrameSchema / SeriesSchema.  Mutates spec / table; returns the
    way coercion was requested, or None."""
    cols = table["columns"]
    n = len(cols[0]["values"]) if cols else 0
    if n < 2 or any(len(c["values"]) != n for c in cols):
        return None
    dtype = rng.choice(["int64", "int64", "float64", "str"])
    k = rng.choice([2, 2, 3])
    chk = None
    pool = list(G.POOL[dtype])
    if dtype == "int64":
        pool = [x for x in pool if abs(x) < 2 ** 31]
    for _ in range(6):
        c = G.gen_check(rng, dtype)
        ok = [x for x in pool if model.check_cell(c, x)]
        if len(ok) >= 2 * k and rng.random() < 0.7:
            chk, pool = c, ok
            break
    if len(pool) < 2 * k:
        return None
    rng.shuffle(pool)
    # disjoint value groups per level: a swap of two levels is visible
    groups = [pool[i::k] for i in range(k)]
    levels, fields = [], []
    for i in range(k):
        fs = G.gen_field(rng, "i%d" % i, dtype, p_checks=0.0)
        fs["nullable"], fs["unique"] = False, False
        fs["checks"] = [copy.deepcopy(chk)] if chk else []
        vals = [rng.choice(groups[i]) for _ in range(n)]
        fields.append(fs)
        levels.append({"name": fs["name"], "phys": G.PHYS_OF[dtype], "values": vals})
    # unique row labels: the first level enumerates when it can, else give up uniqueness
    tuples = list(zip(*[l["values"] for l in levels]))
    if len(set(tuples)) != len(tuples):
        if len(groups[0]) >= n:
            levels[0]["values"] = rng.sample(groups[0], n)
        else:
            return None
    how = rng.choice(["level", "level", "multiindex", "schema"] if spec["kind"] == "frame"
                     else ["level", "level", "multiindex"])
    for fs, lev in zip(fields, levels):
        if how == "level":
            fs["coerce"] = True
        # store the labels in a type that needs the coercion
        if dtype == "int64":
            t = rng.choice(["str", "float"])
            lev["phys"], lev["values"] = ("object", [str(v) for v in lev["values"]]) if t == "str" \
                else ("float64", [float(v) for v in lev["values"]])
        elif dtype == "float64":
            if all(float(v).is_integer() and abs(v) < 2 ** 50 for v in lev["values"]) and rng.random() < 0.5:
                lev["phys"], lev["values"] = "int64", [int(v) for v in lev["values"]]
            else:
                lev["phys"], lev["values"] = "object", [repr(float(v)) for v in lev["values"]]
        # str levels: already text (coercion is the identity; the ORDER is the point)
    if how == "multiindex":
        spec["index_coerce"] = True
    elif how == "schema":
        spec["coerce"] = True
    spec["index"] = fields
    spec["index_ordered"] = False
    perm = list(range(k))
    while perm == list(range(k)):
        rng.shuffle(perm)
    table["index"] = {"levels": [levels[i] for i in perm]}
    return how
