"""Backend-neutral schema specs and tables (plain JSON-able dicts).

spec (kind="frame"):
  columns: [ {name, dtype, nullable, unique, report_duplicates, required,
              regex, coerce, default, checks:[{kind,args,ignore_na}]} ]
  index:   None | [level field-schema, ...]      (1 level = Index, >1 = MultiIndex)
  strict: False|True|"filter", ordered, unique (joint), report_duplicates,
  unique_column_names, add_missing_columns, coerce, drop_invalid_rows, dtype
spec (kind="series"): field: {...}, index
table:
  columns: [ {name, phys, values} ], index: None | {levels:[{name,phys,values}]}
phys in int64 | Int64 | int32 | float64 | object | bool | datetime
"""
from __future__ import annotations

import copy

from .. import model

DTYPES = ["int64", "float64", "str", "bool", "datetime"]
PHYS_OF = {"int64": "int64", "float64": "float64", "str": "object",
           "bool": "bool", "datetime": "datetime"}

POOL = {
    "int64": [-3, -1, 0, 1, 2, 3, 4, 5, 7, 9, 2 ** 40],
    "float64": [-1.5, -0.5, 0.0, 0.5, 1.0, 1.5, 2.0, 2.5, 3.0, 4.5, 1e10],
    "str": ["a", "b", "ab", "abc", "ba", "xb", "", "a.b", "A", "é", "foo",
            "bar", "b1", "aa"],
    "bool": [True, False],
    "datetime": ["2020-01-%02d" % d for d in range(1, 13)],
}
PATTERNS = ["a", "a|b", "^a", "b$", "a.b", "[ab]+", "a*", "foo|bar", "^(a|x)b",
            ".", "b|^x", "a\\.b", "é", "\\w+$", "\\w"]
# flags of a *compiled* pattern (str_matches / str_contains accept re.Pattern):
# [] = compiled without flags
PATTERN_FLAGS = [["I"], ["I"], ["A"], ["I", "A"], []]
NAMES = ["a", "b", "c", "ab", "ba", "x", "col_1", "a b"]


def gen_check(rng, dtype, neutral=False):
    pool = POOL[dtype]
    if dtype == "bool":
        k = rng.choice(["eq", "isin", "ne"])
    elif dtype == "str":
        k = rng.choice(["eq", "ne", "isin", "notin", "str_matches", "str_contains",
                        "str_startswith", "str_endswith", "str_length",
                        "str_matches", "str_length"])
    else:
        k = rng.choice(["eq", "ne", "gt", "ge", "lt", "le", "in_range", "in_range",
                        "isin", "notin"])
    a = {}
    if k in ("eq", "ne"):
        a["value"] = rng.choice(pool)
    elif k in ("gt", "ge"):
        a["min_value"] = rng.choice(pool[:-1])
    elif k in ("lt", "le"):
        a["max_value"] = rng.choice(pool[1:])
    elif k == "in_range":
        lo, hi = sorted(rng.sample(pool, 2))
        a = {"min_value": lo, "max_value": hi,
             "include_min": rng.random() < 0.6, "include_max": rng.random() < 0.6}
    elif k == "isin":
        a["allowed_values"] = rng.sample(pool, rng.randint(1, min(5, len(pool))))
    elif k == "notin":
        a["forbidden_values"] = rng.sample(pool, rng.randint(1, min(3, len(pool))))
    elif k in ("str_matches", "str_contains"):
        a["pattern"] = rng.choice(PATTERNS)
        if not neutral and rng.random() < 0.3:
            a["flags"] = list(rng.choice(PATTERN_FLAGS))
    elif k in ("str_startswith", "str_endswith"):
        a["string"] = rng.choice(["a", "b", "ab", "a.b", "", "é"])
    elif k == "str_length":
        lo = rng.choice([None, 0, 0, 1, 2])
        hi = rng.choice([None, 0, 1, 2, 3])
        if lo is None and hi is None:
            lo = 1
        if lo is not None and hi is not None and lo > hi:
            lo, hi = hi, lo
        a = {"min_value": lo, "max_value": hi}
    chk = {"kind": k, "args": a, "ignore_na": True}
    return chk


def gen_field(rng, name, dtype=None, p_checks=0.7, max_checks=2, neutral=False,
              allow_unique=True):
    dtype = dtype or rng.choice(DTYPES)
    fs = {
        "name": name, "dtype": dtype,
        "nullable": rng.random() < 0.35,
        "unique": allow_unique and dtype != "bool" and rng.random() < 0.25,
        "report_duplicates": "all" if neutral else rng.choice(
            ["all", "all", "exclude_first", "exclude_last"]),
        "required": True, "regex": False, "coerce": False, "default": None,
        "checks": [],
    }
    if rng.random() < p_checks:
        for _ in range(rng.randint(1, max_checks)):
            fs["checks"].append(gen_check(rng, dtype, neutral))
    if (dtype == "float64" and fs["checks"] and not neutral
            and rng.random() < 0.3):
        c = fs["checks"][0]
        if c["kind"] in ("eq", "ne", "gt", "ge", "lt", "le", "in_range"):
            c["ignore_na"] = False
    return fs


def satisfying(fs):
    """Values of the dtype pool that satisfy every check of the field."""
    return [x for x in POOL[fs["dtype"]]
            if all(model.check_cell(c, x) for c in fs["checks"])]


def make_satisfiable(rng, fs, need=1):
    """Drop checks until at least ``need`` pool values satisfy the field."""
    while fs["checks"] and len(satisfying(fs)) < need:
        fs["checks"].pop(rng.randrange(len(fs["checks"])))
    return fs


def gen_spec(rng, *, neutral=False, kind=None, max_cols=4, allow_index=True,
             allow_regex=True, allow_frame_opts=True, neutral_regex=False):
    """neutral=True restricts to the vocabulary both backends support."""
    kind = kind or ("frame" if neutral or rng.random() < 0.85 else "series")
    if kind == "series":
        fs = gen_field(rng, rng.choice([None, "s", "a"]))
        spec = {"kind": "series", "field": fs, "index": None}
        if allow_index and rng.random() < 0.4:
            spec["index"] = gen_index(rng)
        return spec
    ncols = rng.randint(1, max_cols)
    names = rng.sample(NAMES[:6] if neutral else NAMES, ncols)
    cols = []
    for n in names:
        fs = gen_field(rng, n, neutral=neutral)
        if rng.random() < 0.2:
            fs["required"] = False
        cols.append(fs)
    if allow_regex and (not neutral or neutral_regex) and rng.random() < 0.2:
        # one regex column; its pattern must not capture other declared names
        # (polars anchors the pattern at both ends: only patterns that mean the
        # same under prefix and full matching are used there)
        pat = rng.choice(["r_.*", "r\\d"] if neutral else ["r_.*", "r\\d", "r_a|r_b", "r"])
        fs = gen_field(rng, pat, neutral=neutral)
        fs["regex"] = True
        fs["required"] = rng.random() < 0.7
        cols.insert(rng.randint(0, len(cols)), fs)
    spec = {
        "kind": "frame", "columns": cols, "index": None, "_neutral": neutral,
        "strict": False, "ordered": False, "unique": None,
        "report_duplicates": "all", "unique_column_names": False,
        "add_missing_columns": False, "coerce": False,
        "drop_invalid_rows": False, "dtype": None,
    }
    if allow_frame_opts:
        r = rng.random()
        if r < 0.25:
            spec["strict"] = True
        spec["ordered"] = rng.random() < 0.25
        if rng.random() < 0.2:
            plain = [c["name"] for c in cols if not c["regex"]]
            k = rng.randint(1, min(2, len(plain)))
            spec["unique"] = rng.sample(plain, k)
            if not neutral:
                spec["report_duplicates"] = rng.choice(
                    ["all", "exclude_first", "exclude_last"])
        if not neutral and rng.random() < 0.15:
            spec["unique_column_names"] = True
        if not neutral and all(c["dtype"] in ("int64", "float64") for c in cols):
            if rng.random() < 0.35:
                spec["checks"] = [gen_check(rng, "float64")]
            if rng.random() < 0.2:
                # frame-level dtype overrides the column dtypes
                spec["dtype"] = rng.choice(["int64", "float64"])
    if allow_index and not neutral and rng.random() < 0.3:
        spec["index"] = gen_index(rng)
    return spec


def gen_index(rng):
    n = 1 if rng.random() < 0.7 else 2
    levels = []
    for i in range(n):
        dtype = rng.choice(["int64", "str", "datetime", "float64"])
        fs = gen_field(rng, rng.choice(["i%d" % i, "i%d" % i, None]) if n == 1
                       else "i%d" % i, dtype)
        if n > 1 and rng.random() < 0.4:
            fs["unique"] = True        # per-level uniqueness vs tuple uniqueness
        levels.append(fs)
    return levels


# ---------------------------------------------------------------- tables
def gen_values(rng, fs, n):
    """n values conforming to the field (checks, nullable, unique)."""
    make_satisfiable(rng, fs, need=n if fs["unique"] else 1)
    ok = satisfying(fs)
    if fs["unique"]:
        if len(ok) < n:
            fs["unique"] = False
            vals = [rng.choice(ok) for _ in range(n)]
        else:
            vals = rng.sample(ok, n)
    else:
        # small sub-pool so that duplicates occur
        sub = rng.sample(ok, min(len(ok), rng.randint(1, 4)))
        vals = [rng.choice(sub) for _ in range(n)]
    if fs["nullable"] and n and rng.random() < 0.6 and fs["dtype"] != "bool" \
            and (fs["dtype"] != "int64" or fs.get("_phys") == "Int64"):
        for _ in range(rng.randint(1, 2)):
            i = rng.randrange(n)
            if fs["unique"] and any(v is None for v in vals):
                break
            if any(not c.get("ignore_na", True) for c in fs["checks"]):
                break
            vals[i] = None
    return vals


def phys_for(rng, fs, neutral=False):
    """Physical dtype for a conforming column: int64 columns are sometimes
    stored as the nullable extension dtype Int64 (can hold <NA>)."""
    if fs["dtype"] == "int64" and not neutral and rng.random() < 0.3:
        fs["_phys"] = "Int64"
        return "Int64"
    fs.pop("_phys", None)
    return PHYS_OF[fs["dtype"]]


def gen_table(rng, spec, nrows=None):
    """A table conforming to ``spec`` by construction (spec may be relaxed in
    place to stay satisfiable)."""
    n = rng.choice([0, 1, 2, 3, 4, 5, 6]) if nrows is None else nrows
    if spec["kind"] == "series":
        fs = spec["field"]
        t = {"columns": [{"name": fs["name"], "phys": PHYS_OF[fs["dtype"]],
                          "values": gen_values(rng, fs, n)}], "index": None}
        t["index"] = gen_table_index(rng, spec, n)
        return t
    cols = []
    for fs in spec["columns"]:
        if fs["regex"]:
            labels = {"r_.*": ["r_a", "r_bb"], "r\\d": ["r1", "r2"],
                      "r_a|r_b": ["r_a", "r_b"], "r": ["r", "rx"]}[fs["name"]]
            k = rng.randint(0 if not fs["required"] else 1, 2)
            for l in labels[:k]:
                # gen_values only ever relaxes fs (drops checks / unique), so
                # columns drawn earlier still conform
                cols.append({"name": l, "phys": PHYS_OF[fs["dtype"]],
                             "values": gen_values(rng, fs, n)})
            continue
        if not fs["required"] and rng.random() < 0.5:
            continue
        ph = phys_for(rng, fs, neutral=spec.get("_neutral", False))
        cols.append({"name": fs["name"], "phys": ph,
                     "values": gen_values(rng, fs, n)})
        fs.pop("_phys", None)
    if spec.get("checks") or spec.get("dtype"):
        # conform to the frame-level constraints as well (best effort)
        for fs in spec["columns"]:
            for c in cols:
                if c["name"] == fs["name"] or (fs["regex"] and model.match_regex(fs["name"], c["name"])):
                    d = spec.get("dtype") or fs["dtype"]
                    f2 = dict(fs, dtype=d, checks=fs["checks"] + list(spec.get("checks") or []))
                    try:
                        ok = satisfying(f2)
                    except (TypeError, AttributeError):
                        ok = []
                    if ok and (not fs["unique"] or len(ok) >= n):
                        c["values"] = rng.sample(ok, n) if fs["unique"] else [rng.choice(ok) for _ in range(n)]
                        c["phys"] = PHYS_OF[d]
    # undeclared extra column when allowed
    if not spec["strict"] and rng.random() < 0.3:
        cols.insert(rng.randint(0, len(cols)),
                    {"name": "zz", "phys": "int64",
                     "values": [rng.randint(0, 3) for _ in range(n)]})
    t = {"columns": cols, "index": gen_table_index(rng, spec, n)}
    fix_joint_unique(rng, spec, t)
    return t


def fix_joint_unique(rng, spec, t):
    uq = spec.get("unique")
    if not uq:
        return
    cols = [c for c in t["columns"] if c["name"] in uq]
    if not cols:
        return
    rows = list(zip(*[c["values"] for c in cols]))
    if len(set(rows)) != len(rows) or any(None in r for r in rows):
        spec["unique"] = None


def gen_table_index(rng, spec, n):
    ix = spec.get("index")
    if not ix:
        if rng.random() < 0.8:
            return None
        # arbitrary undeclared index (unique labels)
        return {"levels": [{"name": None, "phys": "int64",
                            "values": rng.sample(range(10, 40), n)}]}
    levels = []
    for fs in ix:
        levels.append({"name": fs["name"], "phys": PHYS_OF[fs["dtype"]],
                       "values": gen_values(rng, fs, n)})
    return {"levels": levels}


# ---------------------------------------------------------------- mutations
WRONG_PHYS = {
    "int64": ["float64", "object", "int32", "bool"],
    "float64": ["int64", "object"],
    "str": ["int64", "float64"],
    "bool": ["int64", "object"],
    "datetime": ["object", "int64"],
}


def violating(fs):
    return [x for x in POOL[fs["dtype"]]
            if not all(model.check_cell(c, x) for c in fs["checks"])]


def convert_phys(values, src_dtype, phys, rng):
    """Re-type a column's values to another physical dtype (for dtype
    mutations).  Returns values or None when not representable."""
    out = []
    for x in values:
        if x is None:
            if phys in ("int64", "int32", "bool"):
                return None
            out.append(None)
        elif phys in ("int64", "int32"):
            out.append(int(x) if isinstance(x, (int, float, bool)) and abs(x) < 2 ** 31
                       else (len(x) if isinstance(x, str) else 0))
        elif phys == "float64":
            out.append(float(x) if isinstance(x, (int, float, bool)) else 0.5)
        elif phys == "object":
            out.append(str(x))
        elif phys == "bool":
            out.append(bool(x))
        else:
            return None
    return out


def mutate(rng, spec, table, k=None):
    """Apply 1..3 targeted mutations; returns descriptors."""
    t = table
    done = []
    k = k or rng.choice([1, 1, 1, 2, 2, 3])
    fields = []   # (field schema, table column dict, where)
    if spec["kind"] == "series":
        fields.append((spec["field"], t["columns"][0], "column"))
    else:
        for fs in spec["columns"]:
            for c in t["columns"]:
                if (fs["regex"] and model.match_regex(fs["name"], c["name"])) or \
                        (not fs["regex"] and c["name"] == fs["name"]):
                    fields.append((fs, c, "column"))
    if spec.get("index") and t.get("index"):
        for fs, lev in zip(spec["index"], t["index"]["levels"]):
            fields.append((fs, lev, "index"))
    for _ in range(k):
        ops = ["check", "check", "null", "dup", "dtype"]
        if spec["kind"] == "frame":
            ops += ["drop_col", "extra_col", "reorder", "dup_label"]
        else:
            ops += ["rename"]
        if spec.get("index") and len(spec["index"]) == 1 and spec["index"][0]["name"] is not None \
                and t.get("index") and len(t["index"]["levels"]) == 1:
            ops += ["index_rename"]
        op = rng.choice(ops)
        if op in ("check", "null", "dup", "dtype") and not fields:
            continue
        if op == "check":
            cands = [(fs, c, w) for fs, c, w in fields if fs["checks"] and c["values"]
                     and violating(fs) and c["phys"] in (PHYS_OF[fs["dtype"]], "Int64")]
            if not cands:
                continue
            fs, c, w = rng.choice(cands)
            for _ in range(rng.randint(1, 2)):
                i = rng.randrange(len(c["values"]))
                c["values"][i] = rng.choice(violating(fs))
            done.append(("check", c["name"], w))
        elif op == "null":
            cands = [(fs, c, w) for fs, c, w in fields if c["values"]
                     and (c["phys"] in ("float64", "object", "datetime", "Int64")
                          or (c["phys"] == "int64" and w == "column" and not spec.get("_neutral")))]
            if not cands:
                continue
            fs, c, w = rng.choice(cands)
            if c["phys"] == "int64":
                c["phys"] = "Int64"      # nullable extension dtype holding <NA>
            c["values"][rng.randrange(len(c["values"]))] = None
            done.append(("null", c["name"], w))
        elif op == "dup":
            cands = [(fs, c, w) for fs, c, w in fields if len(c["values"]) >= 2
                     and c["phys"] in (PHYS_OF[fs["dtype"]], "Int64")]
            if not cands:
                continue
            fs, c, w = rng.choice(cands)
            i, j = rng.sample(range(len(c["values"])), 2)
            c["values"][j] = c["values"][i]
            if len(c["values"]) >= 3 and rng.random() < 0.4:
                c["values"][rng.randrange(len(c["values"]))] = c["values"][i]
            done.append(("dup", c["name"], w))
        elif op == "dtype":
            cands = [(fs, c, w) for fs, c, w in fields
                     if c["phys"] == PHYS_OF[fs["dtype"]]]
            if not cands:
                continue
            fs, c, w = rng.choice(cands)
            phys = rng.choice(WRONG_PHYS[fs["dtype"]])
            if w == "index" and phys in ("bool", "int32"):
                continue
            vals = convert_phys(c["values"], fs["dtype"], phys, rng)
            if vals is None:
                continue
            c["values"], c["phys"] = vals, phys
            done.append(("dtype", c["name"], phys, w))
        elif op == "drop_col" and t["columns"]:
            i = rng.randrange(len(t["columns"]))
            if len(t["columns"]) > 1:
                done.append(("drop_col", t["columns"][i]["name"]))
                del t["columns"][i]
        elif op == "extra_col":
            n = len(t["columns"][0]["values"]) if t["columns"] else 0
            if not any(c["name"] == "extra" for c in t["columns"]):
                t["columns"].insert(rng.randint(0, len(t["columns"])),
                                    {"name": "extra", "phys": "float64",
                                     "values": [0.5] * n})
                done.append(("extra_col",))
        elif op == "reorder" and len(t["columns"]) >= 2:
            if len({c["name"] for c in t["columns"]}) == len(t["columns"]):
                rng.shuffle(t["columns"])
                done.append(("reorder",))
        elif op == "dup_label" and t["columns"]:
            # adjacent duplicate label only (non-adjacent + ordered is not
            # specified by the docs)
            i = rng.randrange(len(t["columns"]))
            if sum(1 for c in t["columns"] if c["name"] == t["columns"][i]["name"]) == 1:
                t["columns"].insert(i + 1, copy.deepcopy(t["columns"][i]))
                done.append(("dup_label", t["columns"][i]["name"]))
        elif op == "rename":
            t["columns"][0]["name"] = rng.choice(["s", "other", None])
            done.append(("rename",))
        elif op == "index_rename":
            # a named single Index component against an index that carries
            # another name / no name
            lev = t["index"]["levels"][0]
            lev["name"] = rng.choice([None, None, "other", "i1"])
            done.append(("index_rename", lev["name"]))
    return done


def gen_dtype_only_case(rng):
    """A DataFrameSchema that declares only a dataframe-level dtype (no
    columns): every column of the frame must have that dtype.  Labels are
    arbitrary (relabelled to ints / falsy labels most of the time)."""
    dtype = rng.choice(DTYPES)
    spec = {"kind": "frame", "columns": [], "index": None, "_neutral": False,
            "strict": False, "ordered": False, "unique": None,
            "report_duplicates": "all", "unique_column_names": False,
            "add_missing_columns": False, "coerce": False,
            "drop_invalid_rows": False, "dtype": dtype}
    n = rng.choice([0, 1, 2, 3, 4])
    if dtype in ("int64", "float64") and rng.random() < 0.3:
        spec["checks"] = [gen_check(rng, "float64")]
    cols = []
    for name in rng.sample(NAMES, rng.randint(1, 4)):
        pool = POOL[dtype]
        if spec.get("checks") and rng.random() < 0.7:
            ok = [x for x in pool if model.check_cell(spec["checks"][0], x)]
            pool = ok or pool
        cols.append({"name": name, "phys": PHYS_OF[dtype],
                     "values": [rng.choice(pool) for _ in range(n)]})
    table = {"columns": cols, "index": gen_table_index(rng, spec, n)}
    muts = []
    if rng.random() < 0.5:
        c = rng.choice(cols)
        if rng.random() < 0.6:
            phys = rng.choice(WRONG_PHYS[dtype])
            vals = convert_phys(c["values"], dtype, phys, rng)
            if vals is not None:
                c["values"], c["phys"] = vals, phys
                muts.append(("dtype", c["name"], phys, "column"))
        elif c["values"] and c["phys"] in ("float64", "object", "datetime"):
            c["values"][rng.randrange(len(c["values"]))] = None
            muts.append(("null", c["name"], "column"))
    return spec, table, muts


def gen_case(rng, **kw):
    """(spec, table, mutations) — ~45 % conforming by construction."""
    spec = gen_spec(rng, **kw)
    table = gen_table(rng, spec)
    muts = []
    if rng.random() < 0.55:
        muts = mutate(rng, spec, table)
    return spec, table, muts


# ---------------------------------------------------------------- labels
# Labels that are legal in pandas but falsy in Python: the first default
# integer label, 0.0, False and the empty string.  `if name:` / `if key:`
# instead of `is not None` in the code under test treats them as "no label".
FALSY = [0, 0, 0.0, False, "", ""]


def _flat_unique(spec):
    uq = spec.get("unique") or []
    out = []
    for x in uq:
        out.extend(x if isinstance(x, (list, tuple)) else [x])
    return out


def relabel(rng, spec, *tables, p=0.3, polars=False):
    """With probability ``p`` rename column labels / index and level names /
    the Series name to falsy-but-legal labels, consistently in the spec and in
    every table given (tables must share their labels: a raw table and its
    typed twin).  Returns descriptors of what was renamed.

    * labels that a regex column matches keep their text (the pattern must go
      on matching) and so do the patterns themselves;
    * labels listed in the joint ``unique`` option may only become "" (the
      option is documented as a list of *str*);
    * at most one of 0 / 0.0 / False per frame (they are the same dict key);
    * polars: nothing is renamed.  Column names are strings there, and the one
      falsy string is not supported by polars itself: ``LazyFrame.cast({"":
      dtype})`` silently ignores the entry (polars 1.44), so a coerce / added
      column named "" is a polars matter, not a statement about pandera.
    """
    if polars or rng.random() >= p:
        return []
    done = []
    falsy = [""] if polars else FALSY
    if spec["kind"] == "series":
        fs = spec["field"]
        new = rng.choice(falsy)
        old = fs["name"]
        if old is not None:
            fs["name"] = new
            for t in tables:
                if t["columns"][0]["name"] == old:
                    t["columns"][0]["name"] = new
            done.append(("series_name", repr(new)))
        elif rng.random() < 0.5:
            for t in tables:
                t["columns"][0]["name"] = new
            done.append(("series_name_undeclared", repr(new)))
    else:
        patterns = [c["name"] for c in spec["columns"] if c.get("regex")]
        labels = []
        for c in spec["columns"]:
            if not c.get("regex") and c["name"] not in labels:
                labels.append(c["name"])
        for t in tables[:1]:
            for c in t["columns"]:
                if c["name"] not in labels:
                    labels.append(c["name"])
        free = [l for l in labels if isinstance(l, str)
                and not any(model.match_regex(pt, l) for pt in patterns)]
        joint = set(_flat_unique(spec))
        mapping = {}
        scheme = "one" if polars else rng.choice(["ints", "one", "one"])
        if scheme == "ints":
            k = 0
            for l in free:
                if l in joint:
                    continue
                mapping[l] = k
                k += 1
        elif free:
            l = rng.choice(free)
            mapping[l] = "" if l in joint else rng.choice(falsy)
        mapping = {k: v for k, v in mapping.items() if v not in labels or v == k}
        if mapping:
            for c in spec["columns"]:
                if not c.get("regex") and c["name"] in mapping:
                    c["name"] = mapping[c["name"]]
            if spec.get("unique"):
                spec["unique"] = [
                    [mapping.get(y, y) for y in x] if isinstance(x, (list, tuple))
                    else mapping.get(x, x) for x in spec["unique"]]
            for t in tables:
                for c in t["columns"]:
                    if isinstance(c["name"], str) and c["name"] in mapping:
                        c["name"] = mapping[c["name"]]
            done.append(("columns:" + scheme, sorted(map(repr, mapping.values()))))
    if polars:
        return done
    # index / level names
    ix = spec.get("index")
    tlev = [(t.get("index") or {}).get("levels") for t in tables]
    if ix and rng.random() < 0.6:
        if len(ix) == 1:
            old = ix[0]["name"]
            if old is not None:
                new = rng.choice(falsy)
                ix[0]["name"] = new
                for lv in tlev:
                    if lv and len(lv) == 1 and lv[0]["name"] == old:
                        lv[0]["name"] = new
                done.append(("index_name", repr(new)))
        else:
            names = [f["name"] for f in ix]
            if all(lv and [l["name"] for l in lv] == names for lv in tlev):
                if rng.random() < 0.5:
                    new = list(range(len(ix)))        # level names == level numbers
                else:
                    new = list(names)
                    new[rng.randrange(len(new))] = ""
                for f, n in zip(ix, new):
                    f["name"] = n
                for lv in tlev:
                    for l, n in zip(lv, new):
                        l["name"] = n
                done.append(("level_names", repr(new)))
    elif not ix and tlev and tlev[0] and rng.random() < 0.4:
        # an index the schema does not declare
        if len(tlev[0]) == 1:
            new = rng.choice(falsy)
            for lv in tlev:
                lv[0]["name"] = new
            done.append(("undeclared_index_name", repr(new)))
        else:
            for lv in tlev:
                for i, l in enumerate(lv):
                    l["name"] = i
            done.append(("undeclared_level_names", "ints"))
    return done
