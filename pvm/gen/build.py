"""spec/table -> real pandas / polars schema and data objects."""
from __future__ import annotations

import numpy as np
import pandas as pd

PD_DTYPE = {"int64": "int64", "float64": "float64", "str": str, "bool": bool,
            "datetime": "datetime64[ns]"}


def _val(dtype, x):
    if dtype == "datetime" and isinstance(x, str):
        return pd.Timestamp(x)
    return x


def _args(dtype, args):
    out = {}
    if "flags" in args:
        # a compiled pattern carrying its flags ([] = compiled, no flags)
        import re
        f = 0
        for name in args["flags"]:
            f |= getattr(re, name)
        args = {k: v for k, v in args.items() if k != "flags"}
        args["pattern"] = re.compile(args["pattern"], f)
    for k, v in args.items():
        if isinstance(v, list):
            out[k] = [_val(dtype, x) for x in v]
        else:
            out[k] = _val(dtype, v)
    return out


def _boom(obj):
    raise RuntimeError("check function raised")


def build_check(pa, dtype, chk):
    if chk["kind"] == "custom_raise":
        return pa.Check(_boom, name="custom_raise")
    if chk["kind"] == "custom_agg":
        k = chk["args"]["value"]
        # one boolean for the whole column / frame
        return pa.Check(lambda obj: bool(len(obj) <= k), name=f"custom_len_le_{k}",
                        **({} if chk.get("ignore_na", True) else {"ignore_na": False}))
    kw = {}
    if not chk.get("ignore_na", True):
        kw["ignore_na"] = False
    for opt in ("n_failure_cases", "raise_warning", "name", "error"):
        if opt in chk:
            kw[opt] = chk[opt]
    return getattr(pa.Check, chk["kind"])(**_args(dtype, chk["args"]), **kw)


def _field_kwargs(pa, fs, polars=False):
    kw = dict(
        checks=[build_check(pa, fs["dtype"], c) for c in fs.get("checks", [])],
        nullable=fs.get("nullable", False), unique=fs.get("unique", False),
        coerce=fs.get("coerce", False),
    )
    if not polars:
        kw["report_duplicates"] = fs.get("report_duplicates", "all")
    if fs.get("default") is not None:
        kw["default"] = _val(fs["dtype"], fs["default"])
    if fs.get("col_drop") and not polars:
        kw["drop_invalid_rows"] = True       # Column-level option (frame columns only)
    if fs.get("parser") and not polars:
        from .parse import PARSERS
        kw["parsers"] = [pa.Parser(PARSERS[fs["dtype"]][fs["parser"]])]
    return kw


def pd_dtype(d):
    return None if d is None else PD_DTYPE[d]


def pandas_schema(spec, parsers=None):
    import pandera as pa
    index = None
    if spec.get("index"):
        levels = [pa.Index(pd_dtype(fs["dtype"]), name=fs["name"],
                           **_field_kwargs(pa, fs)) for fs in spec["index"]]
        index = levels[0] if len(levels) == 1 else pa.MultiIndex(
            levels, ordered=spec.get("index_ordered", True), coerce=bool(spec.get("index_coerce", False)))
    if spec["kind"] == "series":
        fs = spec["field"]
        return pa.SeriesSchema(pd_dtype(fs["dtype"]), name=fs["name"], index=index,
                               drop_invalid_rows=spec.get("drop_invalid_rows", False),
                               **_field_kwargs(pa, fs))
    cols = {}
    for fs in spec["columns"]:
        cols[fs["name"]] = pa.Column(
            pd_dtype(fs["dtype"]), required=fs.get("required", True),
            regex=fs.get("regex", False), **_field_kwargs(pa, fs))
    return pa.DataFrameSchema(
        cols, index=index, strict=spec.get("strict", False),
        ordered=spec.get("ordered", False), unique=spec.get("unique"),
        report_duplicates=spec.get("report_duplicates", "all"),
        unique_column_names=spec.get("unique_column_names", False),
        add_missing_columns=spec.get("add_missing_columns", False),
        coerce=spec.get("coerce", False),
        drop_invalid_rows=spec.get("drop_invalid_rows", False),
        dtype=pd_dtype(spec.get("dtype")),
        checks=[build_check(pa, "float64", c) for c in spec.get("checks") or []],
    )


def _pd_array(phys, values):
    if phys in ("int64", "range"):
        return np.array(values, dtype="int64")
    if phys == "int32":
        return np.array(values, dtype="int32")
    if phys == "Int64":
        return pd.array(values, dtype="Int64")
    if phys == "float64":
        return np.array([np.nan if v is None else v for v in values], dtype="float64")
    if phys == "bool":
        return np.array(values, dtype="bool")
    if phys == "datetime":
        return pd.to_datetime(pd.Series(values, dtype="object")).to_numpy(dtype="datetime64[ns]") \
            if values else np.array([], dtype="datetime64[ns]")
    if phys == "object":
        a = np.empty(len(values), dtype=object)
        for i, v in enumerate(values):
            a[i] = v
        return a
    raise KeyError(phys)


def pandas_index(tindex, n):
    if not tindex:
        return pd.RangeIndex(n)
    levels = tindex["levels"]
    if len(levels) == 1:
        lv = levels[0]
        if lv["phys"] == "range":
            # a RangeIndex that is not RangeIndex(0, n, 1): a slice df.iloc[k:],
            # a 1-based or a stepped range
            r = pd.RangeIndex(lv["start"], lv["start"] + len(lv["values"]) * lv["step"], lv["step"],
                              name=lv["name"])
            assert list(r) == list(lv["values"]), (list(r), lv)
            return r
        return pd.Index(_pd_array(lv["phys"], lv["values"]), name=lv["name"])
    return pd.MultiIndex.from_arrays(
        [pd.Index(_pd_array(lv["phys"], lv["values"])) for lv in levels],
        names=[lv["name"] for lv in levels])


def pandas_table(spec, table):
    cols = table["columns"]
    n = len(cols[0]["values"]) if cols else 0
    idx = pandas_index(table.get("index"), n)
    if spec["kind"] == "series":
        c = cols[0]
        return pd.Series(_pd_array(c["phys"], c["values"]), index=idx, name=c["name"])
    if not cols:
        return pd.DataFrame(index=idx)
    parts = [pd.Series(_pd_array(c["phys"], c["values"]), index=idx, name=c["name"])
             for c in cols]
    df = pd.concat(parts, axis=1)
    df.columns = [c["name"] for c in cols]
    return df


# ---------------------------------------------------------------- polars
def pl_dtype(d):
    import polars as pl
    return {None: None, "int64": pl.Int64, "float64": pl.Float64, "str": pl.String,
            "bool": pl.Boolean, "datetime": pl.Datetime("us")}[d]


def pl_phys(phys):
    import polars as pl
    return {"int64": pl.Int64, "Int64": pl.Int64, "int32": pl.Int32,
            "float64": pl.Float64, "object": pl.String, "bool": pl.Boolean,
            "datetime": pl.Datetime("us")}[phys]


def _pl_val(dtype, x):
    import datetime as dt
    if dtype == "datetime" and isinstance(x, str):
        return dt.datetime.fromisoformat(x)
    return x


def _pl_args(dtype, args):
    out = {}
    for k, v in args.items():
        out[k] = [_pl_val(dtype, x) for x in v] if isinstance(v, list) else _pl_val(dtype, v)
    return out


def polars_schema(spec):
    import pandera.polars as pa
    cols = {}
    for fs in spec["columns"]:
        kw = dict(
            checks=[getattr(pa.Check, c["kind"])(**_pl_args(fs["dtype"], c["args"]))
                    for c in fs.get("checks", [])],
            nullable=fs.get("nullable", False), unique=fs.get("unique", False),
            coerce=fs.get("coerce", False), required=fs.get("required", True),
            regex=fs.get("regex", False),
        )
        if fs.get("default") is not None:
            kw["default"] = _pl_val(fs["dtype"], fs["default"])
        cols[fs["name"]] = pa.Column(pl_dtype(fs["dtype"]), **kw)
    return pa.DataFrameSchema(
        cols, strict=spec.get("strict", False), ordered=spec.get("ordered", False),
        unique=spec.get("unique"),
        add_missing_columns=spec.get("add_missing_columns", False),
        coerce=spec.get("coerce", False),
        drop_invalid_rows=spec.get("drop_invalid_rows", False),
        dtype=pl_dtype(spec.get("dtype")),
        checks=[pl_frame_check(pa, c) for c in spec.get("pl_frame_checks") or []] or None,
    )


def pl_frame_check(pa, c):
    """Custom dataframe-level checks for polars whose result depends on ALL the
    columns the check function is shown (their number, their names, a
    horizontal aggregate over every column), whatever the column types are."""
    import polars as pl
    k, v = c["kind"], c["value"]
    if k == "width_eq":
        return pa.Check(lambda data: len(data.lazyframe.collect_schema().names()) == v,
                        name=f"width_eq_{v}")
    if k == "columns_eq":
        return pa.Check(lambda data: list(data.lazyframe.collect_schema().names()) == list(v),
                        name="columns_eq")
    if k == "row_null_count_le":
        return pa.Check(lambda data: data.lazyframe.select(
            pl.sum_horizontal(pl.all().is_null().cast(pl.Int64)).le(v)), name=f"row_null_count_le_{v}")
    if k == "row_non_null_count_le":
        return pa.Check(lambda data: data.lazyframe.select(
            pl.sum_horizontal(pl.all().is_not_null().cast(pl.Int64)).le(v)),
            name=f"row_non_null_count_le_{v}")
    raise KeyError(k)


def polars_table(table, lazy=False):
    import datetime as dt
    import polars as pl
    data = {}
    for c in table["columns"]:
        vals = c["values"]
        if c["phys"] == "datetime":
            vals = [None if v is None else dt.datetime.fromisoformat(v) for v in vals]
        data[c["name"]] = pl.Series(c["name"], vals, dtype=pl_phys(c["phys"]))
    df = pl.DataFrame(data)
    return df.lazy() if lazy else df
