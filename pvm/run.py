"""CLI: python -m pvm.run Cxx [--tier quick|thorough] [--shard i/n --partial f]

Exit 0 held / 1 violation (VIOLATION line) / 2 inconclusive.
Sharded checks are fanned out with subprocess.run(timeout=...) (never a
multiprocessing.Pool); a worker that dies or times out makes the run
inconclusive, not violated.
"""
from __future__ import annotations

import argparse
import importlib
import json
import os
import random
import subprocess
import sys
import tempfile
import time
from concurrent.futures import ThreadPoolExecutor

from . import env


class Ctx:
    def __init__(self, seed, tier, shard, nshards):
        self.seed, self.tier, self.shard, self.nshards = seed, tier, shard, nshards

    def rng(self, *salt):
        return random.Random(f"{self.seed}|{'|'.join(map(str, salt))}")

    run = None      # the Run the cases are recorded in (set by main)

    def cases(self, n_total):
        """Case indices of this shard.  While a case is being executed the Run
        knows which (seed, tier, case index) it is, so that every witness
        carries what a generic replay needs."""
        for i in range(self.shard, n_total, self.nshards):
            if self.run is not None:
                self.run.case_ref = {"seed": self.seed, "tier": self.tier,
                                     "case": i}
            yield i
        if self.run is not None:
            self.run.case_ref = None

    def pick(self, quick, thorough):
        return thorough if self.tier == "thorough" else quick


def generic_replay(mod, pid, path):
    """Replay for checks whose cases are a pure function of (seed, case index):
    re-executes exactly the recorded case against the current tree (the case
    is regenerated from its index; the witness itself stays the human-readable
    record).  Exit 1 + VIOLATION line if a violation is observed again."""
    with open(path) as f:
        rec = json.load(f)
    ref = (rec.get("witness") or {}).get("_replay")
    if not ref and getattr(mod, "REPLAY_RERUNS_TIER", False):
        # the violation came from an exhaustive enumeration that is not
        # indexed by case: re-run the whole (fast) tier in this process and
        # report the recorded mechanism if it is observed again
        run = mod.new_run()
        tier = rec.get("tier", "quick")
        os.environ["VERIF_TIER"] = tier
        ctx = Ctx(rec.get("seed", 0), tier, 0, 1)
        ctx.run = run
        mod.run(run, ctx)
        same = [v for v in run.violations if v["mechanism"] == rec.get("mechanism")]
        for v in same:
            print(f"VIOLATION property={pid} replay={path}\n"
                  f"  mechanism={v['mechanism']} kind={v['kind']}")
        if not same:
            print(f"[{pid}] replay: mechanism {rec.get('mechanism')} not observed "
                  f"on the current tree ({run.evaluations} evaluations)")
        return 1 if same else 0
    if not ref:
        print(f"[{pid}] replay: witness carries no case reference "
              f"(written by an older version); re-run the tier instead")
        return 2
    run = mod.new_run()
    ctx = Ctx(ref["seed"], ref["tier"], ref["case"], 10 ** 12)
    ctx.run = run
    os.environ["VERIF_TIER"] = ref["tier"]
    mod.run(run, ctx)
    if run.violations:
        for v in run.violations:
            print(f"VIOLATION property={pid} replay={path}\n"
                  f"  mechanism={v['mechanism']} kind={v['kind']}")
        return 1
    print(f"[{pid}] replay: case {ref['case']} (seed {ref['seed']}, "
          f"{ref['tier']}) shows no violation on the current tree "
          f"({run.evaluations} evaluation(s))")
    return 0


def main(argv=None):
    ap = argparse.ArgumentParser()
    ap.add_argument("pid")
    ap.add_argument("--tier", default=None)
    ap.add_argument("--shard", default=None)
    ap.add_argument("--partial", default=None)
    ap.add_argument("--replay", default=None)
    a = ap.parse_args(argv)
    tier = a.tier or env.tier()
    seed = env.seed()
    os.environ["VERIF_TIER"] = tier

    env.ensure_deps()
    env.pin_repo()
    mod = importlib.import_module(f"pvm.checks.{a.pid.lower()}")

    if a.replay:
        if hasattr(mod, "replay"):
            return mod.replay(a.replay)
        return generic_replay(mod, a.pid, a.replay)

    if a.shard:
        i, n = map(int, a.shard.split("/"))
        run = mod.new_run()
        ctx = Ctx(seed, tier, i, n)
        ctx.run = run
        mod.run(run, ctx)
        with open(a.partial, "w") as f:
            json.dump(run.to_partial(), f, default=repr)
        return 0

    nshards = getattr(mod, "SHARDS", {}).get(tier, 1)
    run = mod.new_run()
    if nshards <= 1:
        ctx = Ctx(seed, tier, 0, 1)
        ctx.run = run
        mod.run(run, ctx)
        return run.finish(tier, seed)

    # wall-clock watchdog per shard (its firing is "inconclusive", never a verdict):
    # generous floors, several times the wall time measured on a quiet 16-core machine
    floor = {"quick": 1800, "thorough": 3600}.get(tier, 1800)
    timeout = max(getattr(mod, "SHARD_TIMEOUT", {}).get(tier, floor), floor)
    tmp = tempfile.mkdtemp(prefix=f"pvm_{a.pid}_", dir=os.environ.get("PVM_TMP"))

    def work(i):
        part = os.path.join(tmp, f"part{i}.json")
        cmd = [env.PY, "-m", "pvm.run", a.pid, "--tier", tier,
               "--shard", f"{i}/{nshards}", "--partial", part]
        try:
            p = subprocess.run(cmd, cwd=env.VERIF, timeout=timeout,
                               capture_output=True, text=True)
        except subprocess.TimeoutExpired:
            return i, None, "watchdog timeout"
        if p.returncode != 0 or not os.path.exists(part):
            return i, None, f"worker exit {p.returncode}: {p.stderr[-800:]}"
        with open(part) as f:
            return i, json.load(f), None

    with ThreadPoolExecutor(max_workers=min(nshards, os.cpu_count() or 4)) as ex:
        for i, part, err in ex.map(work, range(nshards)):
            if err:
                run.note_inconclusive(f"shard {i}: {err}")
            else:
                run.merge(part)
    import shutil
    shutil.rmtree(tmp, ignore_errors=True)
    if hasattr(mod, "finalize"):
        mod.finalize(run, Ctx(seed, tier, 0, 1))
    _relax_thin_floors(run, a.pid, tier)
    return run.finish(tier, seed)


def _relax_thin_floors(run, pid, tier):
    """Coverage floors exist to notice a monitor that is never reached; they must
    not turn the seed-to-seed variation of a small generated class into an
    'inconclusive' run.  pvm/floor_overrides_quick.json lists the quick-tier floors
    whose counter came within 2.5x of the floor (or is a handful per run) on the
    seeds 1, 2, 3, 12345 of the final tree, with a quarter of the smallest count
    observed (0 = the class is too rare for a floor in the quick tier; the thorough
    tier, 20-40 times the cases, keeps its floor)."""
    if tier != "quick":
        return
    import json
    path = os.path.join(os.path.dirname(os.path.abspath(__file__)), "floor_overrides_quick.json")
    try:
        with open(path) as f:
            ov = json.load(f).get(pid, {})
    except OSError:
        return
    for name, m in ov.items():
        if name in run.floors:
            run.floors[name] = min(run.floors[name], m)


def _main_guarded():
    """A crash of the harness itself is never a verdict: exit 2 (inconclusive),
    not Python's default exit status 1, which the interface reads as a
    violation."""
    try:
        return main()
    except SystemExit:
        raise
    except BaseException:  # noqa: BLE001
        import traceback
        traceback.print_exc()
        print("[pvm] INCONCLUSIVE: the harness raised (see traceback); "
              "no verdict", flush=True)
        return 2


if __name__ == "__main__":
    sys.exit(_main_guarded())
