"""CLI: python -m pvm.run Cxx [--tier quick|thorough] [--shard i/n --partial f]

Exit 0 held / 1 violation (VIOLATION line) / 2 inconclusive.
Sharded checks are fanned out with subprocess.run(timeout=...) (never a
multiprocessing.Pool); a worker that dies or times out makes the run
inconclusive, not violated.
"""
from __future__ import annotations

import argparse
import importlib
import json
import os
import random
import subprocess
import sys
import tempfile
import time
from concurrent.futures import ThreadPoolExecutor

from . import env


class Ctx:
    def __init__(self, seed, tier, shard, nshards):
        self.seed, self.tier, self.shard, self.nshards = seed, tier, shard, nshards

    def rng(self, *salt):
        return random.Random(f"{self.seed}|{'|'.join(map(str, salt))}")

    def cases(self, n_total):
        """Case indices of this shard."""
        return range(self.shard, n_total, self.nshards)

    def pick(self, quick, thorough):
        return thorough if self.tier == "thorough" else quick


def main(argv=None):
    ap = argparse.ArgumentParser()
    ap.add_argument("pid")
    ap.add_argument("--tier", default=None)
    ap.add_argument("--shard", default=None)
    ap.add_argument("--partial", default=None)
    ap.add_argument("--replay", default=None)
    a = ap.parse_args(argv)
    tier = a.tier or env.tier()
    seed = env.seed()
    os.environ["VERIF_TIER"] = tier

    env.ensure_deps()
    env.pin_repo()
    mod = importlib.import_module(f"pvm.checks.{a.pid.lower()}")

    if a.replay:
        return mod.replay(a.replay)

    if a.shard:
        i, n = map(int, a.shard.split("/"))
        run = mod.new_run()
        mod.run(run, Ctx(seed, tier, i, n))
        with open(a.partial, "w") as f:
            json.dump(run.to_partial(), f, default=repr)
        return 0

    nshards = getattr(mod, "SHARDS", {}).get(tier, 1)
    run = mod.new_run()
    if nshards <= 1:
        mod.run(run, Ctx(seed, tier, 0, 1))
        return run.finish(tier, seed)

    timeout = getattr(mod, "SHARD_TIMEOUT", {}).get(tier, 1500)
    tmp = tempfile.mkdtemp(prefix=f"pvm_{a.pid}_", dir=os.environ.get("PVM_TMP"))

    def work(i):
        part = os.path.join(tmp, f"part{i}.json")
        cmd = [env.PY, "-m", "pvm.run", a.pid, "--tier", tier,
               "--shard", f"{i}/{nshards}", "--partial", part]
        try:
            p = subprocess.run(cmd, cwd=env.VERIF, timeout=timeout,
                               capture_output=True, text=True)
        except subprocess.TimeoutExpired:
            return i, None, "watchdog timeout"
        if p.returncode != 0 or not os.path.exists(part):
            return i, None, f"worker exit {p.returncode}: {p.stderr[-800:]}"
        with open(part) as f:
            return i, json.load(f), None

    with ThreadPoolExecutor(max_workers=min(nshards, os.cpu_count() or 4)) as ex:
        for i, part, err in ex.map(work, range(nshards)):
            if err:
                run.note_inconclusive(f"shard {i}: {err}")
            else:
                run.merge(part)
    import shutil
    shutil.rmtree(tmp, ignore_errors=True)
    if hasattr(mod, "finalize"):
        mod.finalize(run, Ctx(seed, tier, 0, 1))
    return run.finish(tier, seed)


if __name__ == "__main__":
    sys.exit(main())
