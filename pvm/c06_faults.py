"""Fault injection at user callbacks (DESIGN 4/C06 part B).

``Faults`` hands out counting wrappers for every user callback of a case
(check fn - vectorised / element-wise / groupby, groupby fn, parser fn, custom
DataType.check / coerce).  A counting run establishes N (total invocations);
a fault run raises one ``InjectedFault`` object at exactly the k-th
invocation.  The exception *object* is kept, so "the injected object itself
propagated" is an identity test, not a guess from a message.
"""
from __future__ import annotations

from collections import Counter

import pandas as pd

CHECK_KINDS = ("check_vec", "check_elem", "check_groupby", "check_frame",
               "check_frame_row")
OTHER_KINDS = ("groupby_fn", "parser", "parser_elem", "parser_frame",
               "dtype_check", "dtype_coerce")


class InjectedFault(Exception):
    """Base of the injected exceptions (never raised by pandera itself)."""


# the injected exception also inherits from a builtin a user function could
# realistically raise; pandera has handlers for some of these internally
FAULT_BASES = {
    "Exception": InjectedFault,
    "ValueError": type("InjectedValueError", (InjectedFault, ValueError), {}),
    "TypeError": type("InjectedTypeError", (InjectedFault, TypeError), {}),
    "KeyError": type("InjectedKeyError", (InjectedFault, KeyError), {}),
    "AttributeError": type("InjectedAttributeError",
                           (InjectedFault, AttributeError), {}),
}


class Faults:
    def __init__(self, target=None, base="Exception"):
        self.count = 0
        self.by_kind = Counter()
        self.target = target
        self.base = base
        self.fired = None        # (kind, exception object)
        self.log = []            # kind per invocation (bounded)

    def call(self, kind):
        self.count += 1
        self.by_kind[kind] += 1
        if len(self.log) < 256:
            self.log.append(kind)
        if self.target is not None and self.count == self.target:
            exc = FAULT_BASES[self.base](
                f"injected fault at invocation {self.count} ({kind})")
            self.fired = (kind, exc)
            raise exc

    def wrap(self, kind, fn, name=None):
        def user_callback(*a, **k):
            self.call(kind)
            return fn(*a, **k)
        user_callback.__name__ = name or f"user_{kind}"
        user_callback.__qualname__ = user_callback.__name__
        return user_callback


# the custom dtypes are classes (registered once); they reach the Faults
# object of the case being executed through this slot
CURRENT = [None]


def _hook(kind):
    f = CURRENT[0]
    if f is not None:
        f.call(kind)


# ------------------------------------------------------------------ predicates
def _all_true(s):
    return pd.Series(True, index=s.index)


def _all_false(s):
    return pd.Series(False, index=s.index)


PD_VEC = {
    "true": _all_true,
    "never": _all_false,
    "notnull": lambda s: s.notna(),
    "short": lambda s: s.astype(str).str.len() <= 3,
    "scalar_true": lambda s: True,
    "scalar_false": lambda s: False,
}
PD_ELEM = {
    "true": lambda x: True,
    "never": lambda x: False,
    "notnull": lambda x: x == x and x is not None,
    "short": lambda x: len(str(x)) <= 3,
}
PD_GROUP = {   # receives {group key: Series}
    "true": lambda g: True,
    "never": lambda g: False,
    "notnull": lambda g: all(v.notna().all() for v in g.values()),
    "short": lambda g: len(g) <= 3,
}
PD_FRAME = {
    "true": lambda df: True,
    "never": lambda df: False,
    "notnull": lambda df: df.notna().all(axis=1),
    "short": lambda df: df.notna(),
    "scalar_true": lambda df: df.shape[1] >= 0,
    "scalar_false": lambda df: df.shape[1] < 0,
}
PD_ROW = {
    "true": lambda row: True,
    "never": lambda row: False,
    "notnull": lambda row: bool(row.notna().all()),
    "short": lambda row: len(row) <= 64,
}
PD_PARSER = {
    "identity": lambda s: s,
    "copy": lambda s: s.copy(),
    "fill0": lambda s: s.fillna(0) if s.dtype.kind in "fi" else s,
}
PD_PARSER_ELEM = {
    "identity": lambda x: x,
}


def pl_preds():
    import polars as pl
    vec = {
        "true": lambda d: d.lazyframe.select(pl.col(d.key).is_null().or_(
            pl.col(d.key).is_not_null())),
        "never": lambda d: d.lazyframe.select(pl.col(d.key).is_null().and_(
            pl.col(d.key).is_not_null())),
        "notnull": lambda d: d.lazyframe.select(pl.col(d.key).is_not_null()),
        "scalar_true": lambda d: d.lazyframe.select(pl.lit(True)),
        "scalar_false": lambda d: d.lazyframe.select(pl.lit(False)),
    }
    elem = {
        "true": lambda x: True,
        "never": lambda x: False,
        "notnull": lambda x: x is not None,
    }
    frame = {
        "true": lambda d: d.lazyframe.select(pl.all().is_null().or_(
            pl.all().is_not_null())),
        "never": lambda d: d.lazyframe.select(pl.all().is_null().and_(
            pl.all().is_not_null())),
        "scalar_true": lambda d: d.lazyframe.select(pl.lit(True)),
        "scalar_false": lambda d: d.lazyframe.select(pl.lit(False)),
    }
    return vec, elem, frame


# ------------------------------------------------------------------ custom dtypes
_DT = {}


def pandas_faulty_int():
    """A user-defined pandas DataType whose check/coerce are user callbacks."""
    if "pd" in _DT:
        return _DT["pd"]
    from pandera import dtypes
    from pandera.engines import pandas_engine

    @pandas_engine.Engine.register_dtype
    @dtypes.immutable
    class FaultyInt64(pandas_engine.INT64):
        """int64 with user-overridden check / coerce."""

        def check(self, pandera_dtype, data_container=None):
            _hook("dtype_check")
            return super().check(pandera_dtype, data_container)

        def coerce(self, data_container):
            _hook("dtype_coerce")
            return super().coerce(data_container)

    _DT["pd"] = FaultyInt64
    return FaultyInt64


def polars_faulty_int():
    if "pl" in _DT:
        return _DT["pl"]
    from pandera import dtypes
    from pandera.engines import polars_engine

    @polars_engine.Engine.register_dtype
    @dtypes.immutable
    class PlFaultyInt64(polars_engine.Int64):
        """Int64 with user-overridden check / coerce."""

        def check(self, pandera_dtype, data_container=None):
            _hook("dtype_check")
            return super().check(pandera_dtype, data_container)

        def coerce(self, data_container):
            _hook("dtype_coerce")
            return super().coerce(data_container)

    _DT["pl"] = PlFaultyInt64
    return PlFaultyInt64
