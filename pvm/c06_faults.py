"""Fault injection at user callbacks (DESIGN 4/C06 part B).

``Faults`` hands out counting wrappers for every user callback of a case
(check fn - vectorised / element-wise / groupby, groupby fn, parser fn, custom
DataType.check / coerce).  A counting run establishes N (total invocations);
a fault run raises one ``InjectedFault`` object at exactly the k-th
invocation.  The exception *object* is kept, so "the injected object itself
propagated" is an identity test, not a guess from a message.
"""
from __future__ import annotations

from collections import Counter

import pandas as pd

CHECK_KINDS = ("check_vec", "check_elem", "check_groupby", "check_frame",
               "check_frame_row")
OTHER_KINDS = ("groupby_fn", "parser", "parser_elem", "parser_frame",
               "dtype_check", "dtype_coerce", "dtype_coerce_value")
# callbacks whose exception is, by the documentation, *information* for
# pandera and therefore has to be reported through SchemaError(s):
# docs/source/dtypes.md "Defining the coerce_value method": coerce_value is
# how pandera finds out which values cannot be coerced "to correctly report
# coercion errors" - a coerce_value that raises (the documented example raises
# TypeError, no exception class is prescribed) marks a failure case
REPORTED_KINDS = ("dtype_coerce_value",)


class InjectedFault(Exception):
    """Base of the injected exceptions (never raised by pandera itself)."""


# the injected exception also inherits from a builtin a user function could
# realistically raise; pandera has handlers for some of these internally
def _mix(name, base):
    return type("Injected" + name, (InjectedFault, base), {})


FAULT_BASES = {
    "Exception": InjectedFault,
    "RuntimeError": _mix("RuntimeError", RuntimeError),
    "ZeroDivisionError": _mix("ZeroDivisionError", ZeroDivisionError),
    "IndexError": _mix("IndexError", IndexError),
    "NotImplementedError": _mix("NotImplementedError", NotImplementedError),
    "ValueError": type("InjectedValueError", (InjectedFault, ValueError), {}),
    "TypeError": type("InjectedTypeError", (InjectedFault, TypeError), {}),
    "KeyError": type("InjectedKeyError", (InjectedFault, KeyError), {}),
    "AttributeError": type("InjectedAttributeError",
                           (InjectedFault, AttributeError), {}),
}
# further builtin classes a user function realistically raises; only used by
# the second ("shape") run of a fault point, so that the first run of every
# fault point keeps the class drawn for the case
MORE_BASES = {
    "AssertionError": _mix("AssertionError", AssertionError),
    "LookupError": _mix("LookupError", LookupError),
    "OverflowError": _mix("OverflowError", OverflowError),
    "OSError": _mix("OSError", OSError),
    "UnicodeError": _mix("UnicodeError", UnicodeError),
    "ImportError": _mix("ImportError", ImportError),
    "EOFError": _mix("EOFError", EOFError),
}
ALL_BASES = {**FAULT_BASES, **MORE_BASES}

# ------------------------------------------------------------------ shapes
# HOW the exception object is made.  "message" is what fault injectors usually
# do (one str argument).  Python code raises many other shapes: a bare
# ``assert cond`` / ``raise ValueError`` / ``raise KeyError()`` carry no
# argument at all, ``raise MyError(code, detail)`` several, ``KeyError(7)`` /
# ``IndexError((0, 1))`` a non-string one, a user-defined class may take
# keyword-only arguments (args == ()), messages contain quotes / braces / %
# / newlines, exceptions are chained (raise .. from ..), or come out of a
# nested ``other_schema.validate(...)`` inside the callback.
MARKUP = 'say "{0}" {x!r} %s %(y)d \\ \'q\'\n\tline2 \u00e9\u4e2d {{}}'
_KWONLY = {}


def _kwonly(cls):
    """subclass of cls whose constructor takes one keyword-only argument and
    passes nothing on (args == ()), with its own __str__."""
    if cls not in _KWONLY:
        def __init__(self, *, code):
            self.code = code

        def __str__(self):
            return f"user error code={self.code}"
        _KWONLY[cls] = type(cls.__name__ + "KwOnly", (cls,),
                            {"__init__": __init__, "__str__": __str__})
    return _KWONLY[cls]


SHAPES = {
    "message": lambda cls, text: cls(text),
    "no_args": lambda cls, text: cls(),
    "two_args": lambda cls, text: cls(text, 7),
    "three_args": lambda cls, text: cls(2, text, None),
    "int_arg": lambda cls, text: cls(7),
    "zero_arg": lambda cls, text: cls(0),
    "none_arg": lambda cls, text: cls(None),
    "tuple_arg": lambda cls, text: cls(("a", 1)),
    "empty_tuple_arg": lambda cls, text: cls(()),
    "bytes_arg": lambda cls, text: cls(b"\xff\x00raw"),
    "exception_arg": lambda cls, text: cls(KeyError("inner")),
    "empty_message": lambda cls, text: cls(""),
    "markup_message": lambda cls, text: cls(MARKUP),
    "kwonly_init": lambda cls, text: _kwonly(cls)(code=3),
}
# shapes that are produced by running real statements (the class is not ours;
# the object is still captured, so identity tests keep working)
NATURAL_SHAPES = ("bare_assert", "bare_raise_class", "chained", "in_handler",
                  "nested_validate", "nested_validate_lazy")
ALL_SHAPES = tuple(SHAPES) + NATURAL_SHAPES
# shapes whose exception carries no argument (exc.args == ())
ARGLESS_SHAPES = ("no_args", "kwonly_init", "bare_assert", "bare_raise_class")
NESTED_SHAPES = ("nested_validate", "nested_validate_lazy")


def _nested_validate(lazy, backend="pandas"):
    """what a callback that validates something with another schema (of the
    same backend) raises: SchemaError, or SchemaErrors when lazy"""
    if backend == "polars":
        import pandera.polars as pa
        import polars as pl
        data = pl.DataFrame({"inner_col": [1, -1]})
    else:
        import pandera as pa
        data = pd.DataFrame({"inner_col": [1, -1]})
    inner = pa.DataFrameSchema({"inner_col": pa.Column(int, pa.Check.gt(0))})
    inner.validate(data, lazy=lazy)
    raise AssertionError("inner schema accepted invalid data")


class Faults:
    def __init__(self, target=None, base="Exception", shape="message",
                 backend="pandas"):
        self.backend = backend
        self.count = 0
        self.by_kind = Counter()
        self.target = target
        self.base = base
        self.shape = shape
        self.fired = None        # (kind, exception object)
        self.fired_meta = {}     # meta of the callback the fault fired in
        self.log = []            # kind per invocation (bounded)
        self.mutations = 0       # in-place edits made by callbacks so far
        self.mutated_by = Counter()

    def _raise(self, kind):
        cls = ALL_BASES[self.base]
        text = f"injected fault at invocation {self.count} ({kind})"
        shape = self.shape
        try:
            if shape in SHAPES:
                raise SHAPES[shape](cls, text)
            if shape == "bare_assert":
                assert self.count < 0
            elif shape == "bare_raise_class":
                raise cls            # ``raise ValueError``: python instantiates
            elif shape == "chained":
                try:
                    {}[kind]
                except KeyError as inner:
                    raise cls(text) from inner
            elif shape == "in_handler":
                try:
                    int("x")
                except ValueError:
                    raise cls(text)  # implicit __context__  # noqa: B904
            elif shape in NESTED_SHAPES:
                _nested_validate(shape.endswith("lazy"), self.backend)
            raise RuntimeError(f"unknown fault shape {shape}")
        except BaseException as exc:
            self.fired = (kind, exc)
            raise

    def call(self, kind, meta=None):
        self.count += 1
        self.by_kind[kind] += 1
        if len(self.log) < 256:
            self.log.append(kind)
        if self.target is not None and self.count == self.target:
            self.fired_meta = dict(meta or {})
            self._raise(kind)

    def wrap(self, kind, fn, name=None, meta=None):
        def user_callback(*a, **k):
            self.call(kind, meta)
            return fn(*a, **k)
        user_callback.__name__ = name or f"user_{kind}"
        user_callback.__qualname__ = user_callback.__name__
        return user_callback


# the custom dtypes are classes (registered once); they reach the Faults
# object of the case being executed through this slot
CURRENT = [None]


def _hook(kind):
    f = CURRENT[0]
    if f is not None:
        f.call(kind)


def _note_mutation(kind):
    f = CURRENT[0]
    if f is not None:
        f.mutations += 1
        f.mutated_by[kind] += 1


# ------------------------------------------------------------------ callbacks
# that edit the object they are handed IN PLACE (a legal, common user habit:
# ``s[s < 0] = 0; return s``).  They never raise by themselves and only write
# values the container already holds (or 0 into a numeric one), so the dtype
# never changes.  Each real edit is noted in the Faults object of the case.
def _differs(a, b):
    """a and b are certainly different scalars (False when undecidable, e.g.
    pd.NA comparisons: then the callback simply does not edit)."""
    try:
        if a is b:
            return False
        return not bool(a == b) and not (bool(a != a) and bool(b != b))
    except Exception:
        return False


def _edit_first(s, kind):
    """s.iloc[0] = s.iloc[-1] when that changes something."""
    if len(s) > 1:
        a, b = s.iloc[0], s.iloc[-1]
        if _differs(a, b):
            s.iloc[0] = b
            _note_mutation(kind)
    return s


def _edit_reverse(s, kind):
    if len(s) > 1:
        vals = list(s)
        rev = vals[::-1]
        if any(_differs(x, y) for x, y in zip(vals, rev)):
            for i, v in enumerate(rev):
                s.iloc[i] = v
            _note_mutation(kind)
    return s


def _edit_clip(s, kind):
    """the textbook in-place parser: s[s < 0] = 0 (numeric data only)."""
    if getattr(s.dtype, "kind", "O") in "if" and len(s):
        m = s < 0
        if bool(m.any()):
            s[m] = 0
            _note_mutation(kind)
        elif len(s) > 1:
            return _edit_first(s, kind)
    else:
        return _edit_first(s, kind)
    return s


def _edit_frame_cell(df, kind):
    """df.iloc[0, j] = df.iloc[-1, j] for the first column where it matters."""
    if df.shape[0] > 1:
        for j in range(df.shape[1]):
            a, b = df.iloc[0, j], df.iloc[-1, j]
            if _differs(a, b):
                df.iloc[0, j] = b
                _note_mutation(kind)
                break
    return df


def _edit_frame_loc(df, kind):
    """df.loc[mask, col] = 0 on the first numeric column holding a negative
    or positive value (label based write, like the pandas docs recommend)."""
    for j in range(df.shape[1]):
        col = df.iloc[:, j]
        if getattr(col.dtype, "kind", "O") in "if" and len(col):
            m = (col != 0) & col.notna()
            if bool(m.any()):
                df.iloc[m.to_numpy().nonzero()[0], j] = 0
                _note_mutation(kind)
                return df
    return _edit_frame_cell(df, kind)


def _mut_vec(s):
    _edit_first(s, "check_vec")
    return pd.Series(True, index=s.index)


def _mut_frame(df):
    _edit_frame_cell(df, "check_frame")
    return True


def _mut_group(g):
    for v in g.values():
        _edit_first(v, "check_groupby")
        break
    return True


# ------------------------------------------------------------------ predicates
def _all_true(s):
    return pd.Series(True, index=s.index)


def _all_false(s):
    return pd.Series(False, index=s.index)


PD_VEC = {
    "true": _all_true,
    "never": _all_false,
    "notnull": lambda s: s.notna(),
    "short": lambda s: s.astype(str).str.len() <= 3,
    "scalar_true": lambda s: True,
    "scalar_false": lambda s: False,
    "mut_true": _mut_vec,
}
PD_ELEM = {
    "true": lambda x: True,
    "never": lambda x: False,
    "notnull": lambda x: x == x and x is not None,
    "short": lambda x: len(str(x)) <= 3,
}
PD_GROUP = {   # receives {group key: Series}
    "true": lambda g: True,
    "never": lambda g: False,
    "notnull": lambda g: all(v.notna().all() for v in g.values()),
    "short": lambda g: len(g) <= 3,
    "mut_true": _mut_group,
}
PD_FRAME = {
    "true": lambda df: True,
    "never": lambda df: False,
    "notnull": lambda df: df.notna().all(axis=1),
    "short": lambda df: df.notna(),
    "scalar_true": lambda df: df.shape[1] >= 0,
    "scalar_false": lambda df: df.shape[1] < 0,
    "mut_true": _mut_frame,
}
PD_ROW = {
    "true": lambda row: True,
    "never": lambda row: False,
    "notnull": lambda row: bool(row.notna().all()),
    "short": lambda row: len(row) <= 64,
}
PD_PARSER = {
    "identity": lambda s: s,
    "copy": lambda s: s.copy(),
    "fill0": lambda s: s.fillna(0) if s.dtype.kind in "fi" else s,
    "inplace_first": lambda s: _edit_first(s, "parser"),
    "inplace_reverse": lambda s: _edit_reverse(s, "parser"),
    "inplace_clip": lambda s: _edit_clip(s, "parser"),
}
PD_PARSER_FRAME = {
    "identity": lambda df: df,
    "copy": lambda df: df.copy(),
    "inplace_cell": lambda df: _edit_frame_cell(df, "parser_frame"),
    "inplace_loc": lambda df: _edit_frame_loc(df, "parser_frame"),
}
INPLACE = ("mut_true", "inplace_first", "inplace_reverse", "inplace_clip",
           "inplace_cell", "inplace_loc")
PD_PARSER_ELEM = {
    "identity": lambda x: x,
}


def pl_preds():
    import polars as pl
    vec = {
        "true": lambda d: d.lazyframe.select(pl.col(d.key).is_null().or_(
            pl.col(d.key).is_not_null())),
        "never": lambda d: d.lazyframe.select(pl.col(d.key).is_null().and_(
            pl.col(d.key).is_not_null())),
        "notnull": lambda d: d.lazyframe.select(pl.col(d.key).is_not_null()),
        "scalar_true": lambda d: d.lazyframe.select(pl.lit(True)),
        "scalar_false": lambda d: d.lazyframe.select(pl.lit(False)),
    }
    elem = {
        "true": lambda x: True,
        "never": lambda x: False,
        "notnull": lambda x: x is not None,
    }
    frame = {
        "true": lambda d: d.lazyframe.select(pl.all().is_null().or_(
            pl.all().is_not_null())),
        "never": lambda d: d.lazyframe.select(pl.all().is_null().and_(
            pl.all().is_not_null())),
        "scalar_true": lambda d: d.lazyframe.select(pl.lit(True)),
        "scalar_false": lambda d: d.lazyframe.select(pl.lit(False)),
    }
    return vec, elem, frame


# ------------------------------------------------------------------ custom dtypes
_DT = {}


def pandas_faulty_int():
    """A user-defined pandas DataType whose check/coerce are user callbacks."""
    if "pd" in _DT:
        return _DT["pd"]
    from pandera import dtypes
    from pandera.engines import pandas_engine

    @pandas_engine.Engine.register_dtype
    @dtypes.immutable
    class FaultyInt64(pandas_engine.INT64):
        """int64 with user-overridden check / coerce."""

        def check(self, pandera_dtype, data_container=None):
            _hook("dtype_check")
            return super().check(pandera_dtype, data_container)

        def coerce(self, data_container):
            _hook("dtype_coerce")
            return super().coerce(data_container)

        def coerce_value(self, value):
            # only reached on the error path: after coerce() failed, pandera
            # asks value by value which cells cannot be coerced
            _hook("dtype_coerce_value")
            return super().coerce_value(value)

    _DT["pd"] = FaultyInt64
    return FaultyInt64


def pandas_faulty_int_inplace():
    """The same, written by a user who edits the container he is handed in
    place before converting / inspecting it."""
    if "pd_inplace" in _DT:
        return _DT["pd_inplace"]
    from pandera import dtypes
    from pandera.engines import pandas_engine
    base = pandas_faulty_int()

    def edit(data_container, kind):
        if isinstance(data_container, pd.Series):
            _edit_first(data_container, kind)
        elif isinstance(data_container, pd.DataFrame):
            _edit_frame_cell(data_container, kind)

    @pandas_engine.Engine.register_dtype
    @dtypes.immutable
    class FaultyInt64InPlace(base):
        """int64 whose check / coerce edit their argument in place."""

        def check(self, pandera_dtype, data_container=None):
            out = super().check(pandera_dtype, data_container)
            edit(data_container, "dtype_check")
            return out

        def coerce(self, data_container):
            _hook("dtype_coerce")
            edit(data_container, "dtype_coerce")
            return pandas_engine.INT64.coerce(self, data_container)

    _DT["pd_inplace"] = FaultyInt64InPlace
    return FaultyInt64InPlace


def polars_faulty_int():
    if "pl" in _DT:
        return _DT["pl"]
    from pandera import dtypes
    from pandera.engines import polars_engine

    @polars_engine.Engine.register_dtype
    @dtypes.immutable
    class PlFaultyInt64(polars_engine.Int64):
        """Int64 with user-overridden check / coerce."""

        def check(self, pandera_dtype, data_container=None):
            _hook("dtype_check")
            return super().check(pandera_dtype, data_container)

        def coerce(self, data_container):
            _hook("dtype_coerce")
            return super().coerce(data_container)

    _DT["pl"] = PlFaultyInt64
    return PlFaultyInt64
