"""C18, part 1 — scoping of ``config_context``.

Oracle: a pure-Python *save stack*.  ``cur`` is the configuration in force;
entering a context saves ``cur`` and overrides the options that were given
(``None`` = not given); leaving it — normally or through an exception —
restores exactly the saved value; ``reset_config_context()`` (documented:
"reset the context configuration to the global configuration") sets ``cur``
to the global configuration.  The real ``pandera.config`` is driven through
the same program and compared with the model after every step.

A *program* is a tree of nodes
    {"kw": {...}, "body": [item, ...], "raise": None|"exc"|"base", "catch": bool}
``body`` items are child nodes or leaf ops (strings).  ``raise`` makes the body
end with an exception; ``catch`` (on a *child*) means the parent catches the
child's exception and carries on, otherwise it propagates further out.
"""
from __future__ import annotations

import itertools

FIELDS = ("validation_enabled", "validation_depth", "cache_dataframe",
          "keep_cached_dataframe")
DEPTHS = (None, "SCHEMA_ONLY", "DATA_ONLY", "SCHEMA_AND_DATA")
BOOLS = (None, True, False)

#: all 108 keyword settings of one context level
SETTINGS = [dict(zip(FIELDS, v))
            for v in itertools.product(BOOLS, DEPTHS, BOOLS, BOOLS)]


class Boom(Exception):
    """Raised inside context bodies."""


class BaseBoom(BaseException):
    """Non-``Exception`` exception (like KeyboardInterrupt) inside a body."""


def _cfg():
    import pandera.config as c
    return c


def to_kwargs(kw):
    c = _cfg()
    out = {}
    for k, v in kw.items():
        if v is None:
            continue
        out[k] = c.ValidationDepth[v] if k == "validation_depth" else v
    return out


def read(conf):
    """PanderaConfig -> plain dict (depth as name or None)."""
    d = {f: getattr(conf, f) for f in FIELDS}
    vd = d["validation_depth"]
    d["validation_depth"] = None if vd is None else vd.name
    return d


def actual():
    return read(_cfg().get_config_context(validation_depth_default=None))


def actual_defaulted():
    return read(_cfg().get_config_context())


def override(cur, kw):
    new = dict(cur)
    for k, v in kw.items():
        if v is not None:
            new[k] = v
    return new


class Monitor:
    """Compares the real configuration with the model after every step."""

    def __init__(self, run):
        c = _cfg()
        self.run = run
        self.config_obj = c.CONFIG
        self.config0 = read(c.CONFIG)
        self.mismatch = None     # first mismatch of the current program

    def observe(self, cur, where):
        c = _cfg()
        self.run.count("scope:observation")
        a = actual()
        if a != cur and self.mismatch is None:
            self.mismatch = {"at": where, "expected": cur, "actual": a}
        # documented default: depth None is read as SCHEMA_AND_DATA
        ad = actual_defaulted()
        exp = dict(cur)
        if exp["validation_depth"] is None:
            exp["validation_depth"] = "SCHEMA_AND_DATA"
        if ad != exp and self.mismatch is None:
            self.mismatch = {"at": where + " (get_config_context default)",
                             "expected": exp, "actual": ad}
        # the global configuration is never touched by a context
        if (c.CONFIG is not self.config_obj
                or c.get_config_global() is not self.config_obj
                or read(c.CONFIG) != self.config0) and self.mismatch is None:
            self.mismatch = {"at": where + " (CONFIG changed)",
                             "expected": self.config0,
                             "actual": read(c.CONFIG)}


def execute(node, cur, mon, leaf=None, path="0"):
    """Run ``node`` for real, mirroring it in the model.  ``cur`` is the model
    configuration in force outside the node.  Returns nothing; raises what the
    program raises."""
    c = _cfg()
    inner = override(cur, node["kw"])
    with c.config_context(**to_kwargs(node["kw"])):
        mon.observe(inner, f"enter {path}")
        state = {"cur": inner}
        for j, item in enumerate(node["body"]):
            p = f"{path}.{j}"
            if isinstance(item, str):
                if item == "reset":
                    c.reset_config_context()
                    state["cur"] = dict(mon.config0)
                    mon.run.count("scope:op:reset")
                elif leaf is not None:
                    leaf(item, state["cur"], p)
                mon.observe(state["cur"], f"after op {item} {p}")
                continue
            if item.get("catch"):
                try:
                    execute(item, state["cur"], mon, leaf, p)
                except (Boom, BaseBoom):
                    mon.run.count("scope:exception_caught_by_parent")
            else:
                try:
                    execute(item, state["cur"], mon, leaf, p)
                except (Boom, BaseBoom):
                    # propagating: our own exit must still restore
                    mon.observe(state["cur"], f"after exit-by-exception {p}")
                    raise
            mon.observe(state["cur"], f"after exit {p}")
        if node.get("raise") == "exc":
            raise Boom(path)
        if node.get("raise") == "base":
            raise BaseBoom(path)


def run_program(prog, mon, leaf=None):
    """prog: list of top-level items.  Returns the first mismatch or None."""
    c = _cfg()
    c.reset_config_context()
    mon.mismatch = None
    cur = dict(mon.config0)
    mon.observe(cur, "start")
    for j, item in enumerate(prog):
        if isinstance(item, str):
            if item == "reset":
                c.reset_config_context()
                cur = dict(mon.config0)
            elif leaf is not None:
                leaf(item, cur, str(j))
            mon.observe(cur, f"after top op {item}")
            continue
        try:
            execute(item, cur, mon, leaf, str(j))
        except (Boom, BaseBoom):
            mon.run.count("scope:exception_left_outermost_context")
        mon.observe(cur, f"after top exit {j}")
    m = mon.mismatch
    if m is not None:
        c.reset_config_context()      # do not let one defect cascade
    return m


# ---------------------------------------------------------------- programs
def node(kw, body=(), raise_=None, catch=False):
    return {"kw": kw, "body": list(body), "raise": raise_, "catch": catch}


#: exception shapes of a depth-2 nesting (inner raise, caught by outer?, outer raise)
SHAPES2 = [
    ("none", None, False, None),
    ("inner_caught", "exc", True, None),
    ("inner_propagates", "exc", False, None),
    ("outer_after_inner", None, False, "exc"),
    ("inner_caught_then_outer", "exc", True, "exc"),
]


def depth1_programs(outer_indices):
    for i in outer_indices:
        for r in (None, "exc"):
            yield ("d1", i, None, r or "none"), [node(SETTINGS[i], raise_=r)]


def depth2_programs(outer_indices):
    for i in outer_indices:
        for j in range(len(SETTINGS)):
            for name, ir, caught, orr in SHAPES2:
                yield (("d2", i, j, name),
                       [node(SETTINGS[i],
                             [node(SETTINGS[j], raise_=ir, catch=caught)],
                             raise_=orr)])


LEAF_OPS = ["reset", "pd_dtype", "pd_check", "pl_dtype", "pl_check",
            "pl_lazy_dtype", "pl_lazy_check", "pd_ok", "pl_ok"]


def random_program(rng, max_depth, p_leaf=0.35):
    """Sampled deeper programs: sibling sequences, exceptions of both kinds at
    any level, leaf ops (real validate calls, reset) in between."""
    def rnode(depth):
        kw = dict(rng.choice(SETTINGS)) if rng.random() < 0.85 else \
            dict.fromkeys(FIELDS, None)
        body = []
        n = rng.choice([0, 1, 1, 2, 3])
        for _ in range(n):
            if depth < max_depth and rng.random() > p_leaf:
                body.append(rnode(depth + 1))
            else:
                body.append(rng.choice(LEAF_OPS if rng.random() < 0.85
                                       else ["reset"]))
        # make sure the requested depth is reached on one path
        if depth < max_depth and not any(isinstance(b, dict) for b in body):
            body.insert(rng.randint(0, len(body)), rnode(depth + 1))
        r = rng.choice([None, None, "exc", "base"])
        return node(kw, body, raise_=r, catch=rng.random() < 0.5)
    prog = []
    for _ in range(rng.choice([1, 1, 2])):
        prog.append(rnode(1))
        if rng.random() < 0.3:
            prog.append(rng.choice(LEAF_OPS))
    return prog


def prog_depth(prog):
    def d(item):
        if isinstance(item, str):
            return 0
        return 1 + max([d(b) for b in item["body"]] + [0])
    return max([d(i) for i in prog] + [0])


# ---------------------------------------------------------------- leaf probes
class Probes:
    """Real ``validate`` calls used as leaf ops: the configuration in force
    (per the model) must be *honoured* and must be unchanged afterwards."""

    def __init__(self, run):
        import pandas as pd
        import polars as pl
        import pandera as pa
        import pandera.polars as pp
        self.run = run
        self.pd_schema = pa.DataFrameSchema(
            {"a": pa.Column(int, pa.Check.gt(0))})
        self.pl_schema = pp.DataFrameSchema(
            {"a": pp.Column(pl.Int64, pp.Check.gt(0))})
        self.data = {
            "pd_ok": pd.DataFrame({"a": [1, 2]}),
            "pd_dtype": pd.DataFrame({"a": [1.5, 2.5]}),
            "pd_check": pd.DataFrame({"a": [1, -2]}),
            "pl_ok": pl.DataFrame({"a": [1, 2]}),
            "pl_dtype": pl.DataFrame({"a": [1.5, 2.5]}),
            "pl_check": pl.DataFrame({"a": [1, -2]}),
            "pl_lazy_dtype": pl.LazyFrame({"a": [1.5, 2.5]}),
            "pl_lazy_check": pl.LazyFrame({"a": [1, -2]}),
        }
        self.violations = []

    def expected_reject(self, op, cur, global_depth):
        """None = must return the very object (validation disabled)."""
        if not cur["validation_enabled"]:
            return None
        d = cur["validation_depth"] or global_depth
        if d is None:
            d = "SCHEMA_ONLY" if op.startswith("pl_lazy") else "SCHEMA_AND_DATA"
        if op.endswith("_ok"):
            return False
        if op.endswith("_dtype"):
            return d in ("SCHEMA_ONLY", "SCHEMA_AND_DATA")
        return d in ("DATA_ONLY", "SCHEMA_AND_DATA")

    def __call__(self, op, cur, path):
        import pandera.errors as pe
        import polars as pl
        schema = self.pd_schema if op.startswith("pd_") else self.pl_schema
        obj = self.data[op]
        gd = _cfg().CONFIG.validation_depth
        exp = self.expected_reject(op, cur, gd.name if gd else None)
        self.run.count(f"scope:op:{op}")
        real = actual()       # what pandera itself says is in force
        try:
            res = schema.validate(obj)
            if isinstance(res, pl.LazyFrame) and exp is not None:
                res.collect()
            got, reason = False, None
        except (pe.SchemaError, pe.SchemaErrors) as e:
            got, res = True, None
            reason = getattr(getattr(e, "reason_code", None), "name", None)
        self.run.count("scope:probe_evaluated")
        bad = None
        if exp is None:
            self.run.count("scope:probe_under_validation_disabled")
            if got or res is not obj:
                bad = "validation-disabled-but-validate-did-not-return-argument"
        elif got != exp:
            bad = ("config-in-force-not-honoured:expected-"
                   + ("reject" if exp else "accept"))
        if bad:
            self.violations.append(
                {"kind": bad, "op": op, "config_in_force": dict(cur),
                 "config_reported_by_pandera": real,
                 "at": path, "rejected": got, "reason": reason})
