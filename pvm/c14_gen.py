"""C14 workload: JSON-able descriptions of pandas frames / series.

``column(cls, rng, n)`` draws one column description of a named class,
``build_obj(spec)`` makes the pandas object, ``describe(series)`` computes the
data-derived flags the classifier uses (never the generator's label).
"""
from __future__ import annotations

import math

import numpy as np
import datetime as _dt

import pandas as pd

T, TD = pd.Timestamp, pd.Timedelta


# ---------------------------------------------------------------------------
# value encoding

def enc(v):
    if v is None:
        return None
    if isinstance(v, pd.Timestamp):
        return {"$ts": v.tz_localize(None).isoformat() if v.tz is not None
                else v.isoformat(), "tz": None if v.tz is None else str(v.tz)}
    if isinstance(v, pd.Timedelta):
        return {"$td": int(v.value)}
    if isinstance(v, float):
        return {"$f": repr(v)}
    if isinstance(v, complex):
        return {"$c": [v.real, v.imag]}
    # plain python date/time objects (object columns)
    if isinstance(v, _dt.datetime):
        return {"$pydt": v.isoformat()}
    if isinstance(v, _dt.date):
        return {"$pydate": v.isoformat()}
    if isinstance(v, _dt.time):
        return {"$pytime": v.isoformat()}
    if isinstance(v, _dt.timedelta):
        return {"$pytd": [v.days, v.seconds, v.microseconds]}
    return v


def dec(v):
    if isinstance(v, dict):
        if "$ts" in v:
            t = pd.Timestamp(v["$ts"])
            return t.tz_localize(v["tz"]) if v.get("tz") else t
        if "$td" in v:
            return pd.Timedelta(v["$td"], unit="ns")
        if "$f" in v:
            return float(v["$f"])
        if "$c" in v:
            return complex(*v["$c"])
        if "$nan" in v:
            return float("nan")
        if "$pydt" in v:
            return _dt.datetime.fromisoformat(v["$pydt"])
        if "$pydate" in v:
            return _dt.date.fromisoformat(v["$pydate"])
        if "$pytime" in v:
            return _dt.time.fromisoformat(v["$pytime"])
        if "$pytd" in v:
            return _dt.timedelta(*v["$pytd"])
    return v


# ---------------------------------------------------------------------------
# column classes: name -> (pandas dtype for construction, value pool, null)

I64 = [0, 1, -1, 7, -13, 100, 12345]
BIG = [2 ** 53 + 1, -(2 ** 53) - 1, 2 ** 63 - 1, -2 ** 63, 2 ** 62 + 3,
       9007199254740993, 2 ** 53]
F64 = [0.0, 1.5, -2.25, 3.0, 1e300, -1e-300, 0.1]
TS = [T("2020-01-01"), T("2021-06-30 12:34:56"), T("1999-12-31 23:59:59"),
      T("2262-04-11 23:47:16"), T("1677-09-22 00:12:44")]
TS_SUB = [T("2020-01-01 00:00:00.5"), T("2021-06-30 12:34:56.123456789"),
          T("2000-02-29 00:00:00.000000001"), T("2010-10-10 10:10:10.999999")]
TDS = [TD(5, "s"), TD(1, "ns"), TD(-3, "D"), TD("1 days 02:03:04.000005"),
       TD(0)]
STRS = ["a", "bb", "it's", "", "ünï", "x y", "None", "1", "nan"]

CLASSES = {
    # numeric
    "int64": ("int64", I64, None),
    "int64-big": ("int64", BIG + I64[:2], None),
    "int8-limits": ("int8", [127, -128, 0, 5], None),
    "int16-limits": ("int16", [32767, -32768, 0], None),
    "int32-limits": ("int32", [2 ** 31 - 1, -2 ** 31, 0], None),
    "uint8": ("uint8", [0, 255, 7], None),
    "uint16": ("uint16", [0, 65535, 9], None),
    "uint32": ("uint32", [0, 2 ** 32 - 1, 9], None),
    "uint64": ("uint64", [0, 5, 2 ** 53 + 1, 2 ** 64 - 1, 2 ** 63], None),
    "float64": ("float64", F64, "nan"),
    "float64-inf": ("float64", F64[:3] + [float("inf"), float("-inf")],
                    "nan"),
    "float64-negzero": ("float64", [-0.0, 0.0, -0.0, 1.0], "nan"),
    "float64-subnormal": ("float64", [5e-324, 1e-310, 0.0, -5e-324], "nan"),
    "float32": ("float32", [0.0, 1.5, 0.1, 3.4028235e38, -2.5], "nan"),
    "float16": ("float16", [0.0, 1.5, 65504.0, -2.5], "nan"),
    "bool": ("bool", [True, False], None),
    "complex128": ("complex128", [1 + 2j, 0j, -3.5 + 0j], None),
    # strings / object
    "str": ("object", STRS, "None"),
    "str-nan": ("object", STRS, "nan"),
    "string-ext": ("string", STRS, "NA"),
    "obj-int-str": ("object", [1, "x", 2, "y"], "None"),
    "obj-float-str": ("object", [1.5, "x", 2.5], "None"),
    "obj-int-float": ("object", [1, 2.5, 3, -0.5], "None"),
    "obj-int": ("object", I64, "None"),
    "obj-bigint": ("object", [2 ** 70, -2 ** 65, 1], "None"),
    "obj-int-big": ("object", [2 ** 53 + 1, 2 ** 62 + 3, -(2 ** 53) - 1, 1],
                    "None"),
    "obj-bool": ("object", [True, False], "None"),
    "obj-timestamp": ("object", TS[:3], "None"),
    "obj-timedelta": ("object", TDS[:3], "None"),
    # datetime-like python objects that nanosecond resolution cannot hold (or
    # that have no pandas dtype): the column must stay an object column
    "obj-pydatetime-out-of-ns-bounds": (
        "object", [_dt.datetime(1500, 1, 1), _dt.datetime(2020, 1, 1, 12),
                   _dt.datetime(3000, 6, 30)], "None"),
    "obj-timestamp-mixed-tz": (
        "object", [T("2020-01-01", tz="UTC"), T("2020-01-01", tz="Asia/Tokyo"),
                   T("2021-05-05 05:05", tz="Europe/Berlin")], "None"),
    "obj-pytime": ("object", [_dt.time(1, 2, 3), _dt.time(23, 59, 59),
                              _dt.time(0)], "None"),
    "obj-pydate": ("object", [_dt.date(2020, 1, 1), _dt.date(1500, 1, 1),
                              _dt.date(2999, 12, 31)], "None"),
    "obj-pytimedelta-huge": (
        "object", [_dt.timedelta(days=200000), _dt.timedelta(days=1),
                   _dt.timedelta(days=-150000)], "None"),
    # categorical
    "cat-str": ("category", ["a", "b", "c d"], "cat-null"),
    "cat-int": ("category", [1, 2, 30], "cat-null"),
    # datetimes / timedeltas
    "datetime": ("datetime64[ns]", TS, "NaT"),
    "datetime-subsecond": ("datetime64[ns]", TS_SUB + TS[:1], "NaT"),
    "datetime-tz-utc": ("datetime64[ns, UTC]", TS[:3], "NaT"),
    "datetime-tz-berlin": ("datetime64[ns, Europe/Berlin]", TS[:3], "NaT"),
    "datetime-s": ("datetime64[s]", TS[:3], "NaT"),
    "timedelta": ("timedelta64[ns]", TDS, "NaT"),
    # nullable extension dtypes
    "Int64": ("Int64", I64, "NA"),
    "Int64-big": ("Int64", BIG[:4] + [1], "NA"),
    "UInt8": ("UInt8", [0, 255, 3], "NA"),
    "Float64": ("Float64", F64[:4], "NA"),
    "boolean": ("boolean", [True, False], "NA"),
    # exotic but registered in the pandas engine
    "period": ("period[D]", ["2020-01-01", "2021-06-30"], "NaT"),
    "interval": ("interval", [(0, 1), (1, 5)], None),
}
JUDGED_EXOTIC = {"period", "interval", "complex128"}
COMMON = ["int64", "float64", "str", "bool", "datetime", "timedelta",
          "cat-str", "Int64"]


def column(cls, rng, n, mode=None):
    """Draw a column description.  mode: None|'nulls'|'allnull'|'empty'."""
    dtype, pool, null = CLASSES[cls]
    if mode == "empty":
        n = 0
    vals = [rng.choice(pool) for _ in range(n)]
    mask = [False] * n
    if null is not None:
        if mode == "allnull":
            mask = [True] * n
        elif mode == "nulls" and n:
            mask = [rng.random() < 0.4 for _ in range(n)]
            if not any(mask):
                mask[rng.randrange(n)] = True
            if all(mask) and n > 1:
                mask[rng.randrange(n)] = False
    d = {"cls": cls, "dtype": dtype, "null": null,
         "values": [None if m else enc(v) for v, m in zip(vals, mask)]}
    if dtype == "category":
        cats = list(dict.fromkeys(pool))
        variant = rng.choice(["used", "unused", "ordered", "reversed"])
        if variant == "used":
            cats = [c for c in cats if c in vals and True] or cats[:1]
        elif variant == "reversed":
            cats = cats[::-1]
        d["categories"] = cats
        d["ordered"] = variant in ("ordered", "reversed")
    return d


def build_values(c):
    """Column description -> pandas array-like (Series without name)."""
    dtype, null = c["dtype"], c["null"]
    vals = [dec(v) for v in c["values"]]
    if dtype == "category":
        return pd.Series(pd.Categorical(
            vals, categories=c["categories"], ordered=c["ordered"]))
    if dtype == "interval":
        return pd.Series(pd.arrays.IntervalArray.from_tuples(
            [v if v is None else tuple(v) for v in vals] or [],
        )) if vals else pd.Series(pd.arrays.IntervalArray.from_tuples([]))
    if dtype.startswith("period"):
        return pd.Series(pd.PeriodIndex(
            [pd.NaT if v is None else v for v in vals], freq="D"))
    if dtype == "object":
        fill = float("nan") if null == "nan" else None
        return pd.Series([fill if v is None else v for v in vals],
                         dtype=object)
    if dtype.startswith(("datetime64", "timedelta64")):
        s = pd.Series([pd.NaT if v is None else v for v in vals])
        if not len(vals):
            return pd.Series([], dtype=dtype)
        if dtype == "datetime64[s]":
            return s.astype("datetime64[s]")
        if s.dtype == object or str(s.dtype) != dtype:
            s = pd.Series(pd.array([pd.NaT if v is None else v for v in vals],
                                   dtype=dtype))
        return s
    if dtype in ("float64", "float32", "float16"):
        return pd.Series([float("nan") if v is None else v for v in vals],
                         dtype=dtype)
    if dtype in ("Int64", "UInt8", "Float64", "boolean", "string"):
        return pd.Series(pd.array([pd.NA if v is None else v for v in vals],
                                  dtype=dtype))
    return pd.Series(vals, dtype=dtype)


def build_index(ix, n):
    if ix is None:
        return pd.RangeIndex(n)
    lv = []
    for l in ix["levels"]:
        c = l["col"]
        if c["dtype"] == "range":
            lv.append(pd.RangeIndex(*c["range"], name=l["name"]))
            continue
        if c["dtype"] == "date_range":
            lv.append(pd.date_range(dec(c["start"]), periods=n,
                                    freq=c["freq"], tz=c.get("tz"),
                                    name=l["name"]))
            continue
        if c["dtype"] == "timedelta_range":
            lv.append(pd.timedelta_range(dec(c["start"]), periods=n,
                                         freq=c["freq"], name=l["name"]))
            continue
        s = build_values(c)
        lv.append(pd.Index(s.array if hasattr(s, "array") else s,
                           name=l["name"]))
    if len(lv) == 1:
        return lv[0]
    return pd.MultiIndex.from_arrays(lv, names=[l["name"]
                                                for l in ix["levels"]])


def build_obj(spec):
    n = spec["n"]
    if spec["kind"] == "series":
        s = build_values(spec["columns"][0]["col"])
        s.name = spec["columns"][0]["name"]
        s.index = build_index(spec["index"], n)
        return apply_derive(s, spec.get("derive"))
    data = [build_values(c["col"]) for c in spec["columns"]]
    names = [c["name"] for c in spec["columns"]]
    if not data:
        df = pd.DataFrame(index=range(n))
    else:
        df = pd.concat([d.reset_index(drop=True) for d in data], axis=1)
        df.columns = names
    df.index = build_index(spec["index"], n)
    return apply_derive(df, spec.get("derive"))


def apply_derive(obj, ops):
    """The object handed to infer_schema is often not a freshly built one but
    a slice / reordering / selection of one: apply such a sequence.  Ops that
    pandas refuses for the data at hand (unsortable values) are skipped."""
    for op in ops or []:
        k = op[0]
        if k == "slice":
            obj = obj.iloc[slice(op[1], op[2], op[3])]
        elif k == "take":
            obj = obj.iloc[list(op[1])]
        elif k == "reset_index":
            obj = obj.reset_index(drop=True)
        elif k == "sort_index":
            try:
                obj = obj.sort_index(ascending=op[1])
            except Exception:
                pass
        elif k == "sort_values":
            try:
                if isinstance(obj, pd.Series):
                    obj = obj.sort_values(ascending=op[2])
                elif obj.shape[1]:
                    obj = obj.sort_values(
                        by=obj.columns[op[1] % obj.shape[1]], ascending=op[2])
            except Exception:
                pass
        elif k == "column_to_frame":
            if isinstance(obj, pd.Series):
                obj = obj.to_frame()
            elif obj.shape[1]:
                obj = obj.iloc[:, op[1] % obj.shape[1]].to_frame()
        else:
            raise ValueError(op)
    return obj


# ---------------------------------------------------------------------------
# specs

NAMES = ["a", "b", "col c", "it's", "ünï", 1, "d", "e"]
IDX_CLASSES = ["int64", "int64-big", "str", "float64", "datetime",
               "datetime-subsecond", "datetime-tz-utc", "timedelta", "cat-str",
               "uint8", "bool", "Int64"]


def _index(rng, n, shape):
    if shape == "range":
        return None

    def lvl(name):
        cls = rng.choice(IDX_CLASSES)
        mode = "nulls" if (CLASSES[cls][2] and rng.random() < 0.15) else None
        return {"name": name, "col": column(cls, rng, n, mode)}
    if shape == "named":
        return {"levels": [lvl("idx")]}
    if shape == "unnamed":
        return {"levels": [lvl(None)]}
    if shape == "mi-named":
        return {"levels": [lvl("i"), lvl("j")]}
    if shape == "mi-unnamed":
        return {"levels": [lvl(None), lvl(None)]}
    if shape == "mi-partial":
        return {"levels": [lvl("i"), lvl(None), lvl("k")]}
    if shape == "mi-repeated":
        return {"levels": [lvl("i"), lvl("i")]}
    raise ValueError(shape)


INDEX_SHAPES = ["range", "range", "range", "named", "unnamed", "mi-named",
                "mi-unnamed", "mi-partial", "mi-repeated"]
MODES = [None, None, None, "nulls", "allnull", "empty"]


def catalogue():
    """Deterministic sweep: every class x mode alone, every index shape."""
    import random
    out = []
    for cls in CLASSES:
        for mode in (None, "nulls", "allnull", "empty"):
            if mode in ("nulls", "allnull") and CLASSES[cls][2] is None:
                continue
            for kind in ("frame", "series"):
                rng = random.Random(f"c14cat|{cls}|{mode}|{kind}")
                n = 0 if mode == "empty" else 4
                out.append((f"{kind}:{cls}:{mode}", {
                    "kind": kind, "n": n, "index": None,
                    "columns": [{"name": "a", "col": column(cls, rng, n,
                                                            mode)}]}))
    for shape in sorted(set(INDEX_SHAPES) - {"range"}):
        for cls in IDX_CLASSES:
            rng = random.Random(f"c14cat|idx|{shape}|{cls}")
            n = 3
            ix = _index(rng, n, shape)
            ix["levels"][0]["col"] = column(cls, rng, n)
            out.append((f"index:{shape}:{cls}", {
                "kind": "frame", "n": n, "index": ix,
                "columns": [{"name": "a", "col": column("int64", rng, n)}]}))
        rng = random.Random(f"c14cat|sidx|{shape}")
        out.append((f"series-index:{shape}", {
            "kind": "series", "n": 3, "index": _index(rng, 3, shape),
            "columns": [{"name": "s", "col": column("int64", rng, 3)}]}))
    out.append(("frame:no-columns", {"kind": "frame", "n": 3, "index": None,
                                     "columns": []}))
    out.append(("frame:no-columns-no-rows", {"kind": "frame", "n": 0,
                                             "index": None, "columns": []}))
    return out


def random_spec(rng):
    kind = "series" if rng.random() < 0.2 else "frame"
    n = rng.choice([1, 2, 3, 3, 4, 5])
    all_cls = sorted(CLASSES)
    if kind == "series":
        cls = rng.choice(all_cls)
        mode = rng.choice(MODES)
        if mode in ("nulls", "allnull") and CLASSES[cls][2] is None:
            mode = None
        if mode == "empty":
            n = 0
        return {"kind": kind, "n": n,
                "index": _index(rng, n, rng.choice(INDEX_SHAPES)),
                "columns": [{"name": rng.choice([None, "s", 3, "x y"]),
                             "col": column(cls, rng, n, mode)}]}
    ncols = rng.choice([1, 2, 3, 4])
    if rng.random() < 0.1:
        n = 0
    names = rng.sample(NAMES, ncols)
    cols = []
    for nm in names:
        cls = rng.choice(COMMON if rng.random() < 0.4 else all_cls)
        mode = rng.choice(MODES)
        if mode in ("nulls", "allnull") and CLASSES[cls][2] is None:
            mode = None
        if mode == "empty" and n:
            mode = None
        cols.append({"name": nm, "col": column(cls, rng, n, mode)})
    return {"kind": kind, "n": n,
            "index": _index(rng, n, rng.choice(INDEX_SHAPES)),
            "columns": cols}


# ---------------------------------------------------------------------------
# indexes that carry structure (RangeIndex, regular DatetimeIndex /
# TimedeltaIndex with a freq) and objects derived from a built one

RANGE_STARTS = [0, 0, 0, 1, 5, -4, 100, 2 ** 53 + 1, -(2 ** 62)]
RANGE_STEPS = [1, 1, 2, 3, 7, -1, -1, -2, -3, -7]
DR_STARTS = [T("2020-01-30"), T("2021-06-30 12:34:56"),
             T("1999-12-31 23:59:59.5"), T("2000-02-29 00:00:00.000000001")]
DR_FREQS = ["D", "-1D", "h", "-3h", "MS", "-1MS", "500ms", "-1500ms", "B",
            "W", "-2W"]
TDR_STARTS = [TD(0), TD(1, "h"), TD(-3, "D"), TD(1, "ns")]
TDR_FREQS = ["h", "-30min", "D", "-1D", "250ms", "-1ns"]


def range_level(rng, n, name, step=None, start=None):
    """A RangeIndex of exactly n labels; the stop is not always aligned."""
    step = rng.choice(RANGE_STEPS) if step is None else step
    start = rng.choice(RANGE_STARTS) if start is None else start
    if n:
        slack = rng.randrange(abs(step))
        stop = start + step * n - (slack if step > 0 else -slack)
    else:
        stop = start - step * rng.choice([0, 1, 2])
    assert len(range(start, stop, step)) == n
    return {"name": name, "col": {"cls": "range", "dtype": "range",
                                  "null": None, "values": [],
                                  "range": [start, stop, step]}}


def freq_level(rng, n, name, kind=None, freq=None):
    kind = kind or rng.choice(["date_range", "date_range", "timedelta_range"])
    if kind == "date_range":
        return {"name": name, "col": {
            "cls": "date_range", "dtype": "date_range", "null": None,
            "values": [], "start": enc(rng.choice(DR_STARTS)),
            "freq": freq or rng.choice(DR_FREQS),
            "tz": rng.choice([None, None, "UTC", "Europe/Berlin"])}}
    return {"name": name, "col": {
        "cls": "timedelta_range", "dtype": "timedelta_range", "null": None,
        "values": [], "start": enc(rng.choice(TDR_STARTS)),
        "freq": freq or rng.choice(TDR_FREQS)}}


INDEX_NAMES = ["idx", None, "", 0, "x y"]


def derive_ops(rng, n, kind, ncols):
    """1-3 operations of the slice / reorder / select family on n rows."""
    ops = []
    for _ in range(rng.choice([1, 1, 1, 2, 2, 3])):
        k = rng.choice(["slice", "slice", "slice", "slice", "take",
                        "sort_index", "sort_values", "reset_index",
                        "column_to_frame"])
        if k == "slice":
            step = rng.choice([None, 1, 2, 3, -1, -1, -1, -2, -3])
            start = rng.choice([None, None, None, 0, 1, 2, n - 1, n - 2, -1])
            stop = rng.choice([None, None, None, 0, 1, n - 1, n, -1])
            if rng.random() < 0.5:
                start = stop = None       # the whole frame, every k-th row
            ops.append(["slice", start, stop, step])
        elif k == "take":
            if n == 0:
                ops.append(["take", []])
                continue
            m = rng.choice(["perm", "subset-sorted", "subset-desc", "repeat"])
            pos = list(range(n))
            if m == "perm":
                rng.shuffle(pos)
            elif m == "repeat":
                pos = [rng.randrange(n) for _ in range(rng.randrange(1, n + 2))]
            else:
                pos = sorted(rng.sample(pos, rng.randrange(1, n + 1)),
                             reverse=(m == "subset-desc"))
            ops.append(["take", pos])
        elif k == "sort_index":
            ops.append(["sort_index", rng.random() < 0.5])
        elif k == "sort_values":
            ops.append(["sort_values", rng.randrange(max(ncols, 1)),
                        rng.random() < 0.5])
        elif k == "reset_index":
            if ops:                       # only meaningful after another op
                ops.append(["reset_index"])
            else:
                ops.append(["slice", None, None, -1])
        else:
            ops.append(["column_to_frame", rng.randrange(max(ncols, 1))])
            ncols = 1
        # the number of rows the next op sees
        if ops[-1][0] == "slice":
            n = len(range(n)[slice(*ops[-1][1:])])
        elif ops[-1][0] == "take":
            n = len(ops[-1][1])
    return ops


def derived_spec(rng):
    """A frame / series with a structured or default index, sliced, reordered
    or narrowed before it is handed to infer_schema."""
    kind = "series" if rng.random() < 0.2 else "frame"
    n = rng.choice([0, 1, 2, 3, 4, 5, 6, 7, 8, 8])
    r = rng.random()
    if r < 0.40:
        index = None
    elif r < 0.62:
        index = {"levels": [range_level(rng, n, rng.choice(INDEX_NAMES))]}
    elif r < 0.76:
        index = {"levels": [freq_level(rng, n, rng.choice(INDEX_NAMES))]}
    elif r < 0.82:
        # a structured level inside a MultiIndex (materialised by pandas)
        other = _index(rng, n, "named")["levels"][0]
        lv = [range_level(rng, n, "r") if rng.random() < 0.5
              else freq_level(rng, n, "r"), dict(other, name="o")]
        if rng.random() < 0.5:
            lv.reverse()
        index = {"levels": lv}
    else:
        index = _index(rng, n, rng.choice(
            [s for s in INDEX_SHAPES if s != "range"]))
    all_cls = sorted(CLASSES)
    if kind == "series":
        ncols = 1
        names = [rng.choice([None, "s", 3, "x y"])]
    else:
        ncols = rng.choice([0, 1, 1, 2, 2, 3])
        names = rng.sample(NAMES, ncols)
    cols = []
    for nm in names:
        cls = rng.choice(COMMON if rng.random() < 0.6 else all_cls)
        mode = rng.choice([None, None, None, "nulls"])
        if mode == "nulls" and CLASSES[cls][2] is None:
            mode = None
        cols.append({"name": nm, "col": column(cls, rng, n, mode)})
    structured = index is not None and index["levels"][0]["col"]["dtype"] in (
        "range", "date_range", "timedelta_range") and len(index["levels"]) == 1
    spec = {"kind": kind, "n": n, "index": index, "columns": cols}
    if not (structured and rng.random() < 0.4):
        spec["derive"] = derive_ops(rng, n, kind, ncols)
    return spec


def derived_catalogue():
    """Deterministic sweep of the structured-index / derived-object family."""
    import random
    out = []

    def base(rng, n, index, kind="frame"):
        if kind == "series":
            cols = [{"name": "s", "col": column("float64", rng, n)}]
        else:
            cols = [{"name": "x", "col": column("int64", rng, n)},
                    {"name": "y", "col": column("float64", rng, n)},
                    {"name": "s", "col": column("str", rng, n)}]
        return {"kind": kind, "n": n, "index": index, "columns": cols}

    for kind in ("frame", "series"):
        for step in sorted(set(RANGE_STEPS)):
            for start in (0, 5, -4):
                for n in (0, 1, 6):
                    for name in (None, "idx"):
                        rng = random.Random(
                            f"c14dcat|{kind}|{step}|{start}|{n}|{name}")
                        ix = {"levels": [range_level(rng, n, name, step,
                                                     start)]}
                        out.append((f"{kind}:rangeindex:step={step}",
                                    base(rng, n, ix, kind)))
        for fk, freqs in (("date_range", DR_FREQS),
                          ("timedelta_range", TDR_FREQS)):
            for f in freqs:
                for n in (0, 1, 5):
                    rng = random.Random(f"c14dcat|{kind}|{fk}|{f}|{n}")
                    ix = {"levels": [freq_level(rng, n, "t", fk, f)]}
                    out.append((f"{kind}:{fk}:freq={f}", base(rng, n, ix,
                                                              kind)))
        ops = [[["slice", None, None, -1]], [["slice", None, None, -3]],
               [["slice", 5, 1, -1]], [["slice", None, None, 2]],
               [["slice", None, 3, None]], [["slice", 4, None, None]],
               [["slice", None, 0, None]], [["slice", 1, None, 3]],
               [["slice", None, None, -1], ["slice", None, None, -1]],
               [["slice", None, None, -1], ["slice", None, None, 2]],
               [["slice", None, None, -1], ["reset_index"]],
               [["slice", None, None, -1], ["column_to_frame", 1]],
               [["take", [3, 0, 6, 1]]], [["take", [1, 2, 5]]],
               [["take", [5, 2, 1]]], [["take", [2, 2, 0]]],
               [["sort_values", 1, False]], [["sort_values", 1, True]],
               [["slice", None, None, -1], ["sort_index", True]],
               [["sort_index", False]], [["column_to_frame", 0]]]
        for j, o in enumerate(ops):
            rng = random.Random(f"c14dcat|{kind}|ops|{j}")
            out.append((f"{kind}:derived:" + "+".join(x[0] for x in o),
                        dict(base(rng, 7, None, kind), derive=o)))
        # the same reversals on every materialised index shape
        for shape in sorted(set(INDEX_SHAPES) - {"range"}):
            for o in ([["slice", None, None, -1]], [["slice", None, None, 2]],
                      [["take", [2, 0]]], [["sort_index", False]]):
                rng = random.Random(f"c14dcat|{kind}|{shape}|{o}")
                out.append((f"{kind}:derived-index:{shape}:{o[0][0]}",
                            dict(base(rng, 4, _index(rng, 4, shape), kind),
                                 derive=o)))
    return out


def describe_index(ix):
    """Structure flags of a real pandas Index (one level)."""
    flags = set()
    flags.add("index-type:" + type(ix).__name__)
    if isinstance(ix, pd.RangeIndex):
        flags.add("rangeindex")
        if ix.step < 0:
            flags.add("range-step<0")
        if abs(ix.step) > 1:
            flags.add("range-|step|>1")
        if ix.start != 0:
            flags.add("range-start!=0")
        if len(ix) and (ix.stop - ix.start) % ix.step:
            flags.add("range-stop-unaligned")
    freq = getattr(ix, "freq", None)
    if freq is not None:
        flags.add("freq")
        if getattr(freq, "n", 1) < 0:
            flags.add("freq-negative")
    if len(ix) > 1:
        try:
            if ix.is_monotonic_increasing:
                flags.add("monotonic-increasing")
            elif ix.is_monotonic_decreasing:
                flags.add("monotonic-decreasing")
            else:
                flags.add("non-monotonic")
        except Exception:
            pass
        try:
            if ix.has_duplicates:
                flags.add("has-duplicates")
        except Exception:
            pass
    return sorted(flags)


# ---------------------------------------------------------------------------
# data-derived description (what the classifier may look at)

def describe(s):
    """Flags computed from a pandas Series / Index of real data."""
    flags = set()
    dt = str(s.dtype)
    flags.add("dtype:" + dt)
    n = len(s)
    isna = pd.isna(s)
    nn = int(isna.sum()) if n else 0
    if n == 0:
        flags.add("empty")
    elif nn == n:
        flags.add("all-null")
    elif nn:
        flags.add("some-null")
    vals = [v for v, m in zip(list(s), list(isna)) if not m] if n else []
    kinds = sorted({type(v).__name__ for v in vals})
    if dt == "object":
        flags.add("object-of:" + ("+".join(kinds) if kinds else "nothing"))
        if n:
            flags.add("inferred:" + pd.api.types.infer_dtype(s, skipna=False))
    ints = [int(v) for v in vals if isinstance(v, (int, np.integer))
            and not isinstance(v, (bool, np.bool_))]
    if ints and max(abs(v) for v in ints) > 2 ** 53:
        flags.add("abs>2**53")
    fl = [float(v) for v in vals if isinstance(v, (float, np.floating))]
    if any(math.isinf(v) for v in fl):
        flags.add("inf")
    if any(v == 0 and math.copysign(1, v) < 0 for v in fl):
        flags.add("negzero")
    if any(v != 0 and abs(v) < 2.2250738585072014e-308 for v in fl):
        flags.add("subnormal")
    ts = [v for v in vals if isinstance(v, pd.Timestamp)]
    if ts:
        if any(v.tz is not None for v in ts):
            flags.add("tz-aware")
        if any(v.value % 10 ** 9 for v in ts):
            flags.add("subsecond")
        if max(ts).value % 10 ** 9:
            flags.add("max-subsecond")
        if min(ts).value % 10 ** 9:
            flags.add("min-subsecond")
    if isinstance(s.dtype, pd.CategoricalDtype):
        flags.add("categorical")
        if s.dtype.ordered:
            flags.add("ordered")
        used = set(vals)
        if any(c not in used for c in s.dtype.categories):
            flags.add("unused-categories")
        flags.add("categories-of:" + "+".join(sorted(
            {type(c).__name__ for c in s.dtype.categories})))
    if any(isinstance(v, complex) for v in vals):
        flags.add("complex")
        if any(complex(v).imag != 0 for v in vals if isinstance(v, complex)):
            flags.add("imag-nonzero")
    return sorted(flags)
