"""Structural fingerprint of a schema object graph (DESIGN 3.2).

Walks ``__dict__`` generically so attributes added later are picked up.
``fp(schema)`` returns a JSON-able tree, ``diff(a, b)`` the first differing
path.  ``ident=False`` drops function identity (used when comparing a model's
schema with an independently built one).
"""
from __future__ import annotations

import dataclasses
import enum
import functools
import types

SKIP_KEYS = {"_backend", "__orig_class__", "_class", "_BACKEND_REGISTRY"}


def _fn(f, ident):
    if isinstance(f, functools.partial):
        return {"partial": _fn(f.func, ident), "args": [repr(a) for a in f.args],
                "kw": {k: repr(v) for k, v in (f.keywords or {}).items()}}
    name = getattr(f, "__qualname__", None) or getattr(f, "__name__", None) \
        or type(f).__name__
    out = {"fn": name}
    if ident:
        out["id"] = id(f)
    return out


def fp(o, ident=True, _depth=0, _seen=None):
    from pandera.api.base.checks import BaseCheck
    from pandera.api.function_dispatch import Dispatcher
    from pandera.dtypes import DataType
    if _seen is None:
        _seen = set()
    if _depth > 14:
        return "<deep>"
    if o is None or isinstance(o, (bool, int, str, bytes)):
        return o if not isinstance(o, bytes) else repr(o)
    if isinstance(o, float):
        return repr(o)
    if isinstance(o, enum.Enum):
        return f"{type(o).__name__}.{o.name}"
    if isinstance(o, (list, tuple)):
        return [fp(x, ident, _depth + 1, _seen) for x in o]
    if isinstance(o, (set, frozenset)):
        return sorted((repr(fp(x, ident, _depth + 1, _seen)) for x in o))
    if isinstance(o, dict):
        # order-preserving: keys and their order matter (columns)
        return {"__dict_items__": [[repr(k), fp(v, ident, _depth + 1, _seen)]
                                   for k, v in o.items()]}
    if isinstance(o, Dispatcher):
        return {"dispatcher": getattr(o, "_name", None) or
                sorted(getattr(f, "__name__", "?")
                       for f in getattr(o, "_function_registry", {}).values())[:1]}
    if isinstance(o, (types.FunctionType, types.BuiltinFunctionType,
                      types.MethodType, functools.partial)):
        return _fn(o, ident)
    if isinstance(o, type):
        return f"<class {o.__module__}.{o.__qualname__}>"
    if isinstance(o, DataType):
        d = {"__dtype__": f"{type(o).__module__}.{type(o).__qualname__}",
             "str": str(o)}
        try:
            d["hash"] = hash(o)
        except Exception as e:  # unhashable dtype is itself information
            d["hash"] = f"!{type(e).__name__}"
        if dataclasses.is_dataclass(o):
            for f in dataclasses.fields(o):
                try:
                    d["f:" + f.name] = repr(getattr(o, f.name))
                except Exception as e:
                    d["f:" + f.name] = f"!{type(e).__name__}"
        for k, v in getattr(o, "__dict__", {}).items():
            d["d:" + k] = repr(v)
        return d
    if id(o) in _seen:
        return "<cycle>"
    if hasattr(o, "__dict__") and (
            type(o).__module__.startswith("pandera") or isinstance(o, BaseCheck)):
        _seen = _seen | {id(o)}
        d = {"__class__": f"{type(o).__module__}.{type(o).__qualname__}"}
        for k, v in vars(o).items():
            if k in SKIP_KEYS:
                continue
            d[k] = fp(v, ident, _depth + 1, _seen)
        return d
    # pandas / numpy / polars values used as check arguments etc.
    return f"<{type(o).__name__}> {repr(o)[:200]}"


def diff(a, b, path="$"):
    if type(a) is not type(b):
        return f"{path}: {repr(a)[:100]} != {repr(b)[:100]}"
    if isinstance(a, dict):
        ka, kb = list(a), list(b)
        if set(ka) != set(kb):
            return f"{path}: keys {sorted(set(ka) ^ set(kb))} differ"
        for k in ka:
            d = diff(a[k], b[k], f"{path}.{k}")
            if d:
                return d
        return None
    if isinstance(a, list):
        if len(a) != len(b):
            return f"{path}: len {len(a)} != {len(b)}"
        for i, (x, y) in enumerate(zip(a, b)):
            d = diff(x, y, f"{path}[{i}]")
            if d:
                return d
        return None
    if a != b:
        return f"{path}: {repr(a)[:100]} != {repr(b)[:100]}"
    return None
