"""C12 workload: JSON-able schema specs over every serialisable attribute.

A *spec* is a plain dict (see ``base_spec``); ``build(spec)`` turns it into a
real ``pandera.DataFrameSchema``.  Every non-default entry of a spec is a
*feature* (``c12_oracle.removal_order`` lists them); ``neutralise(spec,
feature)`` resets one of them, ``tokens(spec)`` describes the remaining ones
by class (used by the classifier after the witness has been minimised).

Two workload parts:
  * ``catalogue()``  deterministic sweep: one benign base schema + exactly one
    feature (every frame / column / index attribute with every adversarial
    value class, every builtin check with every option subset on every value
    family, every dtype alias, duplicated check kinds, ...)
  * ``random_spec(rng)``  random bases with 1-4 adversarial features combined
    (check statistics from the pools or, ``wide_values``, from a wide range).
Cross-type part (``_xtype_catalogue`` / ``XVALUES``): statistics whose python
type is not the value type of the component's dtype (float bounds on every
integer dtype, integers on every float dtype, numbers on untyped components);
``xtype_class`` names the pair, ``tokens`` reports it as ``<place>.xtype:*``.
History part (what a read returns may not depend on earlier reads of the same
process): ``_history_catalogue`` / ``_add_sibling`` put the same check (kind,
dtype, fresh statistics) with different options on two components of one
schema; ``seq:*`` catalogue entries and ``random_sequence`` are *lists* of
closely related specs that the check executes in order (``random_case``
returns either a spec or such a list).
"""
from __future__ import annotations

import copy
import itertools
import math
import re

import pandas as pd

# ---------------------------------------------------------------------------
# value encoding (specs stay JSON-able)


def enc(v):
    if isinstance(v, pd.Timestamp):
        return {"$ts": v.tz_localize(None).isoformat() if v.tz is not None
                else v.isoformat(),
                "tz": None if v.tz is None else str(v.tz)}
    if isinstance(v, pd.Timedelta):
        return {"$td": int(v.value)}
    if isinstance(v, float) and (math.isinf(v) or math.isnan(v)):
        return {"$f": repr(v)}
    if isinstance(v, list):
        return [enc(x) for x in v]
    return v


def dec(v):
    if isinstance(v, dict):
        if "$ts" in v:
            t = pd.Timestamp(v["$ts"])
            return t.tz_localize(v["tz"]) if v.get("tz") else t
        if "$td" in v:
            return pd.Timedelta(v["$td"], unit="ns")
        if "$f" in v:
            return float(v["$f"])
        raise ValueError(v)
    if isinstance(v, list):
        return [dec(x) for x in v]
    return v


# ---------------------------------------------------------------------------
# string classes

STR = {
    "plain": ["abc", "x1", "some_name"],
    "space": ["My title", "two words here"],
    "squote": ["it's"],
    "dquote": ['say "hi"'],
    "backslash": ["a\\b", "x\\ty", "tail\\"],
    "newline": ["l1\nl2"],
    "keyword": ["None", "True", "filter", "int"],
    "unicode": ["ünï cödé", "日本"],
    "brace": ["{x}", "a{0}b"],
    "empty": [""],
    "yamlish": ["yes", "null", "~", "1e3", "2020-01-01", " lead", "trail ",
                "x: y", "- x", "a #b", "123", "1.5"],
    # words that are also bare names / calls in a generated script
    "pyword": ["nan", "inf", "-inf", "is nan or inf", "NaT", "Timestamp",
               "Timedelta", "Check.isin"],
    # characters a text format may treat as structure instead of content.
    # The first value of each class combines its members (the quick tier
    # takes one value per class), the others isolate them.
    # unicode line breaks other than \n: NEL, LINE / PARAGRAPH SEPARATOR
    "ulinebreak": ["a\x85b\u2028c\u2029d", "c\x85d", "a\u2028b", "a\u2029b",
                   "\x85lead", "trail\x85", "two\x85\x85nel", "sp \x85 sp"],
    # C0 / C1 control characters and DEL; \r and \r\n
    "control": ["a\tb\x00c\x1bd\x7fe\x9ff\rg", "a\tb", "a\rb", "a\r\nb",
                "a\x00b", "a\x1bb", "a\x7fb", "a\x9fb", "\x07"],
    # characters without a glyph: BOM, no-break space, zero width, bidi
    "invisible": ["\ufeffa\xa0b\u200dc\u202ed\u200b", "\ufeffab", "a\ufeffb",
                  "a\xa0b", "a\u200db", "\u202eabc", "e\u0301"],
    # outside the basic multilingual plane (a surrogate pair in UTF-16)
    "astral": ["ok \U0001F600", "\U00010348x", "\uffff\ufffe"],
    # white space at the edges / white space only / runs of white space
    "edgews": [" \ta\n", " ", "a  b", "\ta", "a\t", "a\n", "\na", "\n",
               "a \n b", "a\n\nb", "  two", "two  "],
    # longer than the line width of the text formats (folding / wrapping)
    "long": ["word " * 30 + "end", "x" * 200, "ab  " * 30,
             "word " * 20 + "\x85" + "x", "it's \"q\" " * 12],
}
ULINEBREAK = "\x85\u2028\u2029"
INVISIBLE = "\ufeff\xa0\u200b\u200c\u200d\u200e\u200f\u202a\u202b\u202c" \
    "\u202d\u202e\u2060"
PYWORD = re.compile(r"\b(nan|inf|NaT|NA|Timestamp|Timedelta|Check|Column|"
                    r"Index|DataFrameSchema)\b")


def str_class(s):
    """Classes of an arbitrary string (sorted list, never empty)."""
    if not isinstance(s, str):
        return ["nonstr:" + type(s).__name__]
    out = set()
    if s == "":
        out.add("empty")
    if "'" in s:
        out.add("squote")
    if '"' in s:
        out.add("dquote")
    if "\\" in s:
        out.add("backslash")
    if "\n" in s or "\r" in s:
        out.add("newline")
    if "{" in s or "}" in s:
        out.add("brace")
    if any(ord(c) > 127 for c in s):
        out.add("unicode")
    if any(c in ULINEBREAK for c in s):
        out.add("ulinebreak")
    if any((ord(c) < 32 and c not in "\n\r") or 127 <= ord(c) < 160
           and c != "\x85" for c in s):
        out.add("control")
    if any(c in INVISIBLE for c in s):
        out.add("invisible")
    if any(ord(c) > 0xFFFF for c in s):
        out.add("astral")
    if s and (s != s.strip() or "  " in s):
        out.add("edgews")
    if len(s) > 80:
        out.add("long")
    if s in STR["keyword"]:
        out.add("keyword")
    if s in STR["yamlish"]:
        out.add("yamlish")
    if PYWORD.search(s):
        out.add("pyword")
    if " " in s and not out:
        out.add("space")
    if not out:
        out.add("plain" if s.isidentifier() else "other")
    return sorted(out)


# ---------------------------------------------------------------------------
# dtypes

DTYPES = [
    "int64", "int32", "int16", "int8", "uint8", "uint16", "uint32", "uint64",
    "float64", "float32", "float16", "bool", "str", "object", "string",
    "string[python]", "string[pyarrow]", "category", "datetime64[ns]",
    "datetime64[ns, UTC]", "datetime64[ns, Europe/Berlin]", "timedelta64[ns]",
    "Int64", "Int8", "UInt8", "Float64", "boolean", "complex128", "period[D]",
    "interval[int64, right]", "Sparse[int64, 0]", "datetime64[s]",
    "timedelta64[ms]", "date", "int64[pyarrow]", "timestamp[ns][pyarrow]",
]
# parametrised dtype objects whose parameters are not part of str(dtype)
PARAM_DTYPES = [
    {"$cat": ["a", "b"], "ordered": False},
    {"$cat": ["b", "a"], "ordered": True},
    {"$datetime": {"unit": "s"}},
    {"$datetime": {"tz": "UTC", "time_zone_agnostic": True}},
]
COMMON = ["int64", "float64", "str", "bool", "datetime64[ns]",
          "timedelta64[ns]", "category", "Int64", None]


def family(dtype):
    if dtype is None:
        return "int"
    if isinstance(dtype, dict):
        return "cat" if "$cat" in dtype else "datetime"
    d = dtype.lower()
    if d.startswith(("datetime64", "timestamp")):
        return "datetime_tz" if "," in d else "datetime"
    if d.startswith(("timedelta", "duration")):
        return "timedelta"
    if d.startswith(("int", "uint")):
        return "int"
    if d.startswith(("float",)):
        return "float"
    if d.startswith("bool"):
        return "bool"
    if d in ("str", "object") or d.startswith("string"):
        return "str"
    if d == "category":
        return "cat"
    return "other"


def build_dtype(d):
    if d is None or isinstance(d, str):
        return d
    from pandera.engines import pandas_engine as pe
    if "$cat" in d:
        return pd.CategoricalDtype(d["$cat"], ordered=d["ordered"])
    if "$datetime" in d:
        return pe.DateTime(**d["$datetime"])
    raise ValueError(d)


# ---------------------------------------------------------------------------
# checks

ALIASES = {"equal_to": "eq", "not_equal_to": "ne", "greater_than": "gt",
           "greater_than_or_equal_to": "ge", "less_than": "lt",
           "less_than_or_equal_to": "le", "in_range": "between"}
OPTS = {"ignore_na": [False], "raise_warning": [True],
        "n_failure_cases": [0, 1, 3]}
T = pd.Timestamp
TD = pd.Timedelta

# value pools per family: (value-class, value)
VALUES = {
    "int": [("int", 0), ("int", 3), ("int", -7), ("bigint", 2 ** 53 + 1),
            ("bigint", 2 ** 63 - 1), ("bigint", -2 ** 63)],
    "float": [("float", 1.5), ("float", -2.25), ("negzero", -0.0),
              ("subnormal", 1e-320), ("float", 1e300), ("inf", float("inf")),
              ("inf", float("-inf")), ("intval", 2)],
    "bool": [("bool", True), ("bool", False)],
    "datetime": [("ts-second", T("2020-01-01")),
                 ("ts-second", T("2021-06-30 12:34:56")),
                 ("ts-subsecond", T("2020-01-01 00:00:00.5")),
                 ("ts-subsecond", T("2021-06-30 12:34:56.123456789"))],
    "datetime_tz": [("ts-tz", T("2020-01-01", tz="UTC")),
                    ("ts-tz", T("2021-06-30 12:34:56", tz="UTC"))],
    "timedelta": [("td", TD(5, "s")), ("td", TD(1, "ns")),
                  ("td", TD(-3, "D")), ("td", TD("1 days 02:03:04.000005"))],
}
for _k, _v in STR.items():
    VALUES.setdefault("str", []).extend((f"str-{_k}", s) for s in _v)
VALUES["cat"] = [("str-plain", "a"), ("str-plain", "b"), ("str-space", "c d")]
PATTERNS = [("str-plain", "abc"), ("str-regex", r"^a\d+$"),
            ("str-regex", r"[a-z]{2,}\.x"), ("str-squote", "a'b"),
            ("str-dquote", 'x"y'), ("str-backslash", "\\\\d"),
            ("str-pyword", "nan|inf"), ("str-ulinebreak", "c\x85d|\u2028"),
            ("str-control", "a\tb|\x00"), ("str-unicode", "\xe9+\xa0?")]


# statistics whose python type is not the one of the component's dtype: a
# float bound on integer data (less_than(2.5), in_range(-0.5, inf), whole
# floats), an integer / a bool on float data (bigints that a float cannot
# hold), numbers on untyped / object data.  All of them are ordinary uses of
# the builtin checks; a reader or writer that converts statistics "to the
# column's dtype" shows only here.
XVALUES = {
    "int": [("float-frac", 2.5), ("float-whole", 3.0), ("float-frac", -0.5),
            ("nonfinite", float("inf")), ("float-frac", 0.1), ("int", 1),
            ("float-whole", 1e300), ("negzero", -0.0), ("float-frac", 254.5),
            ("nonfinite", float("-inf")), ("float-whole", -7.0), ("int", -7),
            ("bool", True), ("float-frac", 1e-320)],
    "float": [("int", 2), ("bigint", 2 ** 53 + 1), ("int", 0), ("float", 1.5),
              ("bigint", 2 ** 63 - 1), ("int", -7), ("bigint", -2 ** 63),
              ("bigint", 10 ** 30), ("bool", True), ("float", -2.25)],
}
XVALUES["untyped"] = XVALUES["int"][:6] + XVALUES["float"][:3] + [
    ("str-plain", "abc"), ("str-yamlish", "1.5")]
INT_DTYPES = ["int64", "uint8", "Int64", "int16", "UInt32", "int8", "int32",
              "uint16", "uint32", "uint64", "Int8", "Int16", "Int32", "UInt8",
              "UInt16", "UInt64", "int64[pyarrow]"]
FLOAT_DTYPES = ["float64", "float32", "Float64", "float16", "Float32",
                "double[pyarrow]"]
XKINDS = ["less_than", "greater_than_or_equal_to", "in_range", "isin",
          "equal_to", "greater_than", "less_than_or_equal_to", "notin",
          "not_equal_to", "unique_values_eq"]


def xtype_class(dtype, v):
    """Class of a statistic whose python type differs from the value type
    of the dtype family (None when they agree / not applicable)."""
    if isinstance(v, list):
        cs = sorted({c for c in (xtype_class(dtype, x) for x in v) if c})
        return "+".join(cs) if cs else None
    if isinstance(dtype, dict) or isinstance(v, (pd.Timestamp, pd.Timedelta)):
        return None
    fam = family(dtype) if dtype is not None else "untyped"
    if dtype in ("object",):
        fam = "untyped"
    num = isinstance(v, (int, float)) and not isinstance(v, bool)
    if fam == "int":
        if isinstance(v, bool):
            return "bool-on-int"
        if isinstance(v, float):
            if math.isinf(v) or math.isnan(v):
                return "nonfinite-on-int"
            return "float-whole-on-int" if v.is_integer() else \
                "float-frac-on-int"
        if isinstance(v, str):
            return "str-on-int"
    elif fam == "float":
        if isinstance(v, bool):
            return "bool-on-float"
        if isinstance(v, int):
            return "bigint-on-float" if abs(v) > 2 ** 53 else "int-on-float"
        if isinstance(v, str):
            return "str-on-float"
    elif fam == "untyped":
        if isinstance(v, float):     # an int there is the generator's default
            return "float-on-untyped"
    elif fam in ("str", "cat") and (num or isinstance(v, bool)):
        return "number-on-" + fam
    return None


def _ordered(fam):
    return fam in ("int", "float", "datetime", "datetime_tz", "timedelta")


def check_kinds(fam):
    ks = ["equal_to", "not_equal_to", "isin", "notin", "unique_values_eq"]
    if _ordered(fam):
        ks += ["greater_than", "greater_than_or_equal_to", "less_than",
               "less_than_or_equal_to", "in_range"]
    if fam in ("str", "cat"):
        ks += ["str_matches", "str_contains", "str_startswith", "str_endswith",
               "str_length"]
    if fam == "bool":
        ks = ["equal_to", "not_equal_to", "isin"]
    return ks


def wide_values(fam, rng, n=4):
    """``n`` values of the family drawn from a wide range (not the pool), so
    that the same (check, statistics) pair is unlikely to have been seen by
    this process before; same (class, value) layout as VALUES[fam]."""
    out = []
    for _ in range(n):
        k = rng.randrange(-10 ** 6, 10 ** 6)
        if fam == "float":
            v = k / 8 + rng.choice([0.0, 0.1, 1e-9])
        elif fam == "bool":
            v = bool(k % 2)
        elif fam in ("str", "cat"):
            v = rng.choice(["v", "k_", "item ", "nan ", "é"]) + str(abs(k))
        elif fam in ("datetime", "datetime_tz"):
            v = T("2001-01-01") + TD(abs(k) * rng.choice(
                [1, 10 ** 3, 10 ** 6, 10 ** 9, 86400 * 10 ** 9 // 1000]), "ns")
            if fam == "datetime_tz":
                v = v.tz_localize("UTC")
        elif fam == "timedelta":
            v = TD(k * rng.choice([1, 10 ** 3, 10 ** 6, 10 ** 9]) +
                   rng.choice([0, 1, 7, 999]), "ns")
        else:
            v = k
        out.append(("wide", v))
    return out


def fresh_values(fam, token):
    """Deterministic counterpart of ``wide_values``: values derived from an
    integer token that no other catalogue entry uses."""
    k = int(token)
    if fam == "float":
        vs = [k + 0.5, k + 1.25]
    elif fam in ("str", "cat"):
        vs = [f"v{k}", f"w{k}"]
    elif fam in ("datetime", "datetime_tz"):
        vs = [T("2001-01-01") + TD(k, "s"), T("2001-01-02") + TD(k, "s")]
        if fam == "datetime_tz":
            vs = [v.tz_localize("UTC") for v in vs]
    elif fam == "timedelta":
        vs = [TD(k, "s"), TD(k + 1, "s")]
    elif fam == "bool":
        vs = [True, False]           # no fresh values in a two-element domain
    else:
        vs = [k, k + 1]
    return [("fresh", v) for v in vs]


def cycle(xs):
    """pick-function that walks through ``xs`` in order."""
    st = {"i": -1}

    def pick(_ignored):
        st["i"] += 1
        return xs[st["i"] % len(xs)]
    return pick


def make_check(kind, fam, pick, variant=0, vals=None):
    """pick(list) -> element.  Returns a check spec."""
    vals = vals or VALUES.get(fam) or VALUES["int"]
    one = lambda: pick(vals)[1]
    if kind in ("equal_to", "not_equal_to"):
        args = {"value": one()}
    elif kind in ("greater_than", "greater_than_or_equal_to"):
        args = {"min_value": one()}
    elif kind in ("less_than", "less_than_or_equal_to"):
        args = {"max_value": one()}
    elif kind == "in_range":
        a, b = one(), one()
        try:
            lo, hi = (a, b) if a <= b else (b, a)
        except TypeError:
            lo, hi = a, a
        if lo == hi:
            inc = (True, True)
        else:
            inc = [(True, True), (False, True), (True, False),
                   (False, False)][variant % 4]
        args = {"min_value": lo, "max_value": hi, "include_min": inc[0],
                "include_max": inc[1]}
    elif kind in ("isin", "notin", "unique_values_eq"):
        n = 1 + variant % 3
        xs = []
        for _ in range(n):
            v = one()
            if not any(type(v) is type(x) and v == x for x in xs):
                xs.append(v)
        name = {"isin": "allowed_values", "notin": "forbidden_values",
                "unique_values_eq": "values"}[kind]
        args = {name: xs}
    elif kind in ("str_matches", "str_contains"):
        args = {"pattern": pick(PATTERNS)[1]}
    elif kind in ("str_startswith", "str_endswith"):
        args = {"string": pick(vals if isinstance(vals[0][1], str)
                               else VALUES["str"])[1]}
    elif kind == "str_length":
        args = [{"min_value": 1, "max_value": 3}, {"min_value": 2,
                "max_value": None}, {"min_value": None, "max_value": 4},
                {"min_value": 0, "max_value": 0}][variant % 4]
    else:
        raise ValueError(kind)
    return {"kind": kind, "via": kind, "args": {k: enc(v) for k, v in
                                                args.items()}, "opts": {}}


def build_check(c):
    from pandera import Check
    args = {k: dec(v) for k, v in c["args"].items()}
    fn = getattr(Check, c.get("via") or c["kind"])
    return fn(**args, **c["opts"])


# ---------------------------------------------------------------------------
# specs

COL_DEFAULT = {"dtype": None, "checks": [], "nullable": False,
               "unique": False, "coerce": False, "required": True,
               "regex": False, "title": None, "description": None}
IDX_DEFAULT = {"name": None, "dtype": None, "checks": [], "nullable": False,
               "unique": False, "coerce": False, "title": None,
               "description": None}
FRAME_DEFAULT = {"checks": [], "dtype": None, "coerce": False,
                 "strict": False, "name": None, "ordered": False,
                 "unique": None, "report_duplicates": "all",
                 "unique_column_names": False, "add_missing_columns": False,
                 "title": None, "description": None}


def col(name, dtype="int64", **kw):
    d = copy.deepcopy(COL_DEFAULT)
    d.update(name=name, dtype=dtype)
    d.update(kw)
    return d


def level(name=None, dtype="int64", **kw):
    d = copy.deepcopy(IDX_DEFAULT)
    d.update(name=name, dtype=dtype)
    d.update(kw)
    return d


def base_spec(columns=None, index=None, **kw):
    d = copy.deepcopy(FRAME_DEFAULT)
    d["columns"] = columns if columns is not None else [col("c0")]
    d["index"] = index
    d.update(kw)
    return d


def build(spec):
    """spec -> real pandera DataFrameSchema (fresh objects every time)."""
    from pandera import Column, DataFrameSchema, Index, MultiIndex
    cols = {}
    for c in spec["columns"]:
        cols[c["name"]] = Column(
            build_dtype(c["dtype"]),
            checks=[build_check(k) for k in c["checks"]] or None,
            nullable=c["nullable"], unique=c["unique"], coerce=c["coerce"],
            required=c["required"], regex=c["regex"], title=c["title"],
            description=c["description"])
    index = None
    if spec["index"]:
        lv = [Index(build_dtype(x["dtype"]),
                    checks=[build_check(k) for k in x["checks"]] or None,
                    nullable=x["nullable"], unique=x["unique"],
                    coerce=x["coerce"], name=x["name"], title=x["title"],
                    description=x["description"]) for x in spec["index"]]
        index = lv[0] if len(lv) == 1 else MultiIndex(lv)
    return DataFrameSchema(
        cols, checks=[build_check(k) for k in spec["checks"]] or None,
        index=index, dtype=build_dtype(spec["dtype"]), coerce=spec["coerce"],
        strict=spec["strict"], name=spec["name"], ordered=spec["ordered"],
        unique=spec["unique"], report_duplicates=spec["report_duplicates"],
        unique_column_names=spec["unique_column_names"],
        add_missing_columns=spec["add_missing_columns"], title=spec["title"],
        description=spec["description"])


# ---------------------------------------------------------------------------
# features / neutralisation / tokens

def benign_name(n):
    """Column labels c0, c1, ... are the generator's neutral labels."""
    return isinstance(n, str) and re.fullmatch(r"c\d+", n) is not None


def neutralise(spec, path):
    """Copy of ``spec`` with one feature reset (None when not applicable)."""
    s = copy.deepcopy(spec)
    if path == ("index",):
        s["index"] = None
        return s
    if len(path) == 1:
        s[path[0]] = copy.deepcopy(FRAME_DEFAULT[path[0]])
        return s
    if path[0] == "checks":
        if len(path) == 2:
            del s["checks"][path[1]]
        else:
            del s["checks"][path[1]]["opts"][path[3]]
        return s
    part, i = path[0], path[1]
    comps = s[part]
    if len(path) == 2:
        name = comps[i]["name"]
        del comps[i]
        if part == "index" and not comps:
            s["index"] = None
        if part == "columns":
            s["unique"] = _drop_from_unique(s["unique"], name)
        return s
    if path[2] == "checks":
        if len(path) == 4:
            del comps[i]["checks"][path[3]]
        else:
            del comps[i]["checks"][path[3]]["opts"][path[5]]
        return s
    if path[2] == "name":
        old = comps[i]["name"]
        new = f"c{i}" if part == "columns" else None
        if part == "columns":
            if any(c["name"] == new for c in comps):
                return None
            s["unique"] = _rename_in_unique(s["unique"], old, new)
        comps[i]["name"] = new
        return s
    dflt = (COL_DEFAULT if part == "columns" else IDX_DEFAULT)[path[2]]
    comps[i][path[2]] = copy.deepcopy(dflt)
    return s


def _drop_from_unique(u, name):
    if not u:
        return u
    if all(not isinstance(x, list) for x in u):
        r = [x for x in u if x != name]
        return r or None
    r = [[y for y in x if y != name] for x in u]
    r = [x for x in r if x]
    return r or None


def _rename_in_unique(u, old, new):
    if not u:
        return u
    if all(not isinstance(x, list) for x in u):
        return [new if x == old else x for x in u]
    return [[new if y == old else y for y in x] for x in u]


def value_class(v):
    """Class of a decoded check argument value."""
    if isinstance(v, list):
        return "list[" + ",".join(sorted({value_class(x) for x in v})) + "]"
    if isinstance(v, bool):
        return "bool"
    if isinstance(v, pd.Timestamp):
        if v.tz is not None:
            return "ts-tz"
        return "ts-subsecond" if (v.value % 10 ** 9) else "ts-second"
    if isinstance(v, pd.Timedelta):
        return "td"
    if isinstance(v, int):
        return "bigint" if abs(v) > 2 ** 53 else "int"
    if isinstance(v, float):
        if math.isinf(v) or math.isnan(v):
            return "nonfinite"
        return "float"
    if isinstance(v, str):
        return "str-" + "+".join(str_class(v))
    if v is None:
        return "none"
    return type(v).__name__


def _check_tokens(prefix, c, dtype="?"):
    t = [f"{prefix}.check:{c['kind']}"]
    for k, v in sorted(c["args"].items()):
        t.append(f"{prefix}.check-arg:{value_class(dec(v))}")
        x = None if dtype == "?" or k.startswith("include_") or \
            c["kind"] == "str_length" else \
            xtype_class(dtype, dec(v))
        for cls in (x.split("+") if x else ()):
            t.append(f"{prefix}.xtype:{cls}")
    for o in sorted(c["opts"]):
        t.append(f"{prefix}.check-opt:{o}")
    return t


def _dtype_token(d):
    if d is None:
        return None
    if isinstance(d, dict):
        return "param:" + sorted(d)[0].strip("$")
    return d


def tokens(spec):
    """Class description of every non-default entry (sorted list of str)."""
    t = []
    for k, dflt in FRAME_DEFAULT.items():
        if k == "checks":
            for c in spec["checks"]:
                t += _check_tokens("frame", c)
            kinds = [c["kind"] for c in spec["checks"]]
            if len(kinds) != len(set(kinds)):
                t.append("frame.checks:duplicate-kind")
        elif spec[k] != dflt:
            v = spec[k]
            if k in ("title", "description", "name"):
                t.append(f"frame.{k}:" + "+".join(str_class(v)))
            elif k == "dtype":
                t.append(f"frame.dtype:{_dtype_token(v)}")
            elif k == "unique":
                t.append("frame.unique")
            else:
                t.append(f"frame.{k}={v}")
    for part, dflts, pre in (("columns", COL_DEFAULT, "col"),
                             ("index", IDX_DEFAULT, "idx")):
        comps = spec[part] or []
        for i, c in enumerate(comps):
            for k in c["checks"]:
                t += _check_tokens(pre, k, c["dtype"])
            kinds = [k["kind"] for k in c["checks"]]
            if len(kinds) != len(set(kinds)):
                t.append(f"{pre}.checks:duplicate-kind")
            if part == "columns" and not benign_name(c["name"]):
                t.append("col.name:" + "+".join(str_class(c["name"])))
            for k, dflt in dflts.items():
                if k in ("checks",):
                    continue
                v = c[k]
                if k == "name":
                    if v is not None:
                        t.append("idx.name:" + "+".join(str_class(v)))
                elif v != dflt:
                    if k in ("title", "description"):
                        t.append(f"{pre}.{k}:" + "+".join(str_class(v)))
                    elif k == "dtype":
                        t.append(f"{pre}.dtype:{_dtype_token(v)}")
                    else:
                        t.append(f"{pre}.{k}={v}")
        if part == "columns":
            t.append(f"ncols={len(comps)}")
        elif comps:
            t.append("index" if len(comps) == 1 else "multiindex")
    t += sorted(set(_sibling_tokens(spec)))
    return sorted(t)


def same_check(a, b):
    """Same builtin check with the same statistics (options may differ)."""
    return a["kind"] == b["kind"] and a["args"] == b["args"]


def _sibling_tokens(spec):
    """The same check (kind + statistics) held by two different components."""
    holders = [spec["checks"]] + [c["checks"] for c in spec["columns"]] + \
        [c["checks"] for c in (spec["index"] or [])]
    out = []
    for i, a in enumerate(holders):
        for b in holders[i + 1:]:
            for x in a:
                for y in b:
                    if same_check(x, y):
                        out.append("xcomp.checks:same-check-" + (
                            "same-options" if x["opts"] == y["opts"]
                            else "different-options"))
    return out


# ---------------------------------------------------------------------------
# deterministic catalogue: benign base + exactly one feature

def _opt_subsets():
    names = sorted(OPTS)
    out = [{}]
    for r in range(1, len(names) + 1):
        for comb in itertools.combinations(names, r):
            out.append({n: OPTS[n][0] for n in comb})
    out += [{"n_failure_cases": v} for v in OPTS["n_failure_cases"][1:]]
    return out


def catalogue(full=True):
    """List of (label, spec).  ``full=False``: one value per string class,
    four variants per check kind, option subsets on three kinds (quick)."""
    out = []
    add = lambda label, s: out.append((label, s))
    two = lambda: [col("c0"), col("c1", "str")]
    # frame attributes
    for v in (True, "filter"):
        add(f"frame.strict={v}", base_spec(two(), strict=v))
    for k in ("coerce", "ordered", "unique_column_names",
              "add_missing_columns"):
        add(f"frame.{k}", base_spec(two(), **{k: True}))
    for v in ("exclude_first", "exclude_last"):
        add("frame.report_duplicates", base_spec(
            two(), unique=["c0"], report_duplicates=v))
    for u in (["c0"], ["c0", "c1"], [["c0"], ["c0", "c1"]]):
        add("frame.unique", base_spec(two(), unique=u))
    for d in ("int64", "float64", "str", "datetime64[ns]", "Int64",
              "category"):
        add(f"frame.dtype:{d}", base_spec([col("c0", None)], dtype=d))
    for cls, vals in STR.items():
        for v in (vals if full else vals[:1]):
            for k in ("title", "description", "name"):
                add(f"frame.{k}:{cls}", base_spec(two(), **{k: v}))
                add(f"col.{k}:{cls}", base_spec(
                    [col("c0", **({k: v} if k != "name" else {})),
                     col(v if k == "name" else "c1", "str")]))
                add(f"idx.{k}:{cls}", base_spec(
                    two(), index=[level(**{"name": "i", k: v})]))
            add(f"mi.name:{cls}", base_spec(
                two(), index=[level(v), level("j", "str")]))
    for v in (1, 0, -3):
        add("col.name:int", base_spec([col("c0"), col(v)]))
        add("idx.name:int", base_spec(two(), index=[level(v)]))
        add("frame.name:int", base_spec(two(), name=v))
    # column / index flags
    for k in ("nullable", "unique", "coerce", "regex"):
        add(f"col.{k}", base_spec([col("c0", **{k: True}), col("c1", "str")]))
    add("col.required=False", base_spec(
        [col("c0", required=False), col("c1", "str")]))
    for k in ("nullable", "unique", "coerce"):
        add(f"idx.{k}", base_spec(two(), index=[level("i", **{k: True})]))
        add(f"mi.{k}", base_spec(two(), index=[
            level("i", **{k: True}), level("j", "str")]))
        add(f"mi.{k}.second", base_spec(two(), index=[
            level("i"), level("j", "str", **{k: True})]))
    add("index.unnamed", base_spec(two(), index=[level(None)]))
    add("mi.unnamed", base_spec(two(), index=[level(None),
                                              level(None, "str")]))
    add("no-columns", base_spec([]))
    # dtypes on columns and index levels
    for d in DTYPES + PARAM_DTYPES + [None]:
        add(f"col.dtype:{_dtype_token(d)}", base_spec([col("c0", d)]))
    for d in COMMON:
        add(f"idx.dtype:{d}", base_spec(two(), index=[level("i", d)]))
    # every builtin check x value family x variant, every option subset
    cyc = {}

    def pick(xs):
        k = id(xs)
        cyc[k] = cyc.get(k, -1) + 1
        return xs[cyc[k] % len(xs)]

    fams = {"int": "int64", "float": "float64", "str": "str", "bool": "bool",
            "datetime": "datetime64[ns]", "datetime_tz": "datetime64[ns, UTC]",
            "timedelta": "timedelta64[ns]", "cat": "category"}
    for fam, dt in fams.items():
        for kind in check_kinds(fam):
            nvar = min(8, max(4, len(VALUES.get(fam, [])))) if full else 3
            for variant in range(nvar):
                c = make_check(kind, fam, pick, variant)
                if variant % 2 and kind in ALIASES:
                    c["via"] = ALIASES[kind]
                add(f"col.check:{kind}:{fam}",
                    base_spec([col("c0", dt, checks=[c])]))
            c = make_check(kind, fam, pick, 0)
            add(f"idx.check:{kind}:{fam}", base_spec(
                two(), index=[level("i", dt, checks=[c])]))
            if fam in ("int", "str"):
                add(f"frame.check:{kind}:{fam}", base_spec(
                    [col("c0", dt), col("c1", dt)], checks=[c]))
    for kind in (check_kinds("int") + ["str_length"] if full else
                 ["greater_than", "isin", "in_range", "str_length"]):
        fam = "str" if kind.startswith("str") else "int"
        for opts in _opt_subsets():
            c = make_check(kind, fam, pick, 0)
            c["opts"] = dict(opts)
            add(f"col.check-opts:{kind}", base_spec(
                [col("c0", fams[fam], checks=[c])]))
    for opts in _opt_subsets()[1:]:
        c = make_check("greater_than", "int", pick, 0)
        c["opts"] = dict(opts)
        add("frame.check-opts", base_spec(two()[:1], checks=[c]))
        add("idx.check-opts", base_spec(two(), index=[
            level("i", checks=[copy.deepcopy(c)])]))
    # two checks of one kind / several kinds
    for fam, kind in (("int", "greater_than"), ("int", "isin"),
                      ("str", "str_startswith"), ("float", "in_range")):
        a, b = make_check(kind, fam, pick, 0), make_check(kind, fam, pick, 1)
        add("col.checks:duplicate-kind",
            base_spec([col("c0", fams[fam], checks=[a, b])]))
        add("idx.checks:duplicate-kind", base_spec(
            two(), index=[level("i", fams[fam], checks=[a, b])]))
        add("frame.checks:duplicate-kind",
            base_spec([col("c0", fams[fam])], checks=[a, b]))
    a = make_check("greater_than_or_equal_to", "int", pick, 0)
    b = make_check("less_than_or_equal_to", "int", pick, 0)
    a["args"]["min_value"], b["args"]["max_value"] = -5, 50
    add("col.checks:ge+le", base_spec([col("c0", checks=[a, b])]))
    add("col.checks:le+ge", base_spec([col("c0", checks=[b, a])]))
    add("frame.checks:two-kinds", base_spec(
        [col("c0")], checks=[a, make_check("isin", "int", pick, 2)]))
    # string statistics: every string class in every string-valued slot
    skinds = ("equal_to", "isin", "str_startswith") + (
        ("not_equal_to", "notin", "str_endswith", "unique_values_eq")
        if full else ())
    for cls, vals in STR.items():
        for v in (vals if full else vals[:2]):
            for kind in skinds:
                c = make_check(kind, "str", cycle([(cls, v)]), 0)
                add(f"col.check-strarg:{cls}:{kind}",
                    base_spec([col("c0", "str", checks=[c])]))
    for cls, v in PATTERNS:
        for kind in ("str_matches", "str_contains"):
            c = make_check(kind, "str", cycle([(cls, v)]), 0)
            add(f"col.check-pattern:{cls}:{kind}",
                base_spec([col("c0", "str", checks=[c])]))
    out += _xtype_catalogue(full)
    out += _history_catalogue(full, fams)
    return out


def _xtype_catalogue(full):
    """Statistics of another python type than the component's data (see
    ``XVALUES``): every integer dtype with float statistics, every float
    dtype with integer statistics, untyped / object components with numbers,
    on columns, index levels and under a dataframe-level check."""
    out = []
    add = lambda label, s: out.append((label, s))
    picks = {k: cycle(v) for k, v in XVALUES.items()}

    def mk(kind, pool, variant):
        c = make_check(kind, "int", picks[pool], variant, vals=XVALUES[pool])
        if variant % 2 and kind in ALIASES:
            c["via"] = ALIASES[kind]
        return c

    nk = len(XKINDS) if full else 5
    for di, dt in enumerate(INT_DTYPES if full else INT_DTYPES[:5]):
        for ki, kind in enumerate(XKINDS[:nk]):
            for variant in (range(2) if full else [di + ki]):
                add(f"xtype.col:float-on-int:{kind}", base_spec(
                    [col("c0", dt, checks=[mk(kind, "int", variant)])]))
    for dt in (INT_DTYPES[::3] if full else ["int64", "UInt8"]):
        for kind in (XKINDS if full else ["greater_than", "in_range",
                                          "notin"]):
            add(f"xtype.idx:float-on-int:{kind}", base_spec(
                [col("c0"), col("c1", "str")],
                index=[level("i", dt, checks=[mk(kind, "int", 1)])]))
    for di, dt in enumerate(FLOAT_DTYPES if full else FLOAT_DTYPES[:3]):
        for ki, kind in enumerate(XKINDS if full else
                                  ["less_than", "isin", "in_range"]):
            for variant in (range(2) if full else [di + ki]):
                add(f"xtype.col:int-on-float:{kind}", base_spec(
                    [col("c0", dt, checks=[mk(kind, "float", variant)])]))
        add("xtype.idx:int-on-float", base_spec(
            [col("c0")], index=[level("i", dt, checks=[
                mk("less_than_or_equal_to", "float", 0)])]))
    for dt in (None, "object") + (("str", "category") if full else ()):
        for kind in (XKINDS if full else ["less_than", "isin"]):
            add(f"xtype.col:number-on-untyped:{kind}", base_spec(
                [col("c0", dt, checks=[mk(kind, "untyped", 2)])]))
    # dataframe-level checks are written without any dtype
    for kind in (XKINDS if full else ["less_than", "isin", "in_range"]):
        add(f"xtype.frame:float-on-int:{kind}", base_spec(
            [col("c0"), col("c1", "Int64")], checks=[mk(kind, "int", 2)]))
    # both kinds of statistics side by side on one component
    a = make_check("greater_than", "int", cycle([("float-frac", 0.5)]), 0)
    b = make_check("less_than", "int", cycle([("int", 9)]), 0)
    c = make_check("isin", "int", cycle([("int", 1), ("float-frac", 2.5),
                                         ("float-whole", 4.0)]), 2)
    for dt in ("int64", "UInt8", "float32"):
        add("xtype.col:mixed-statistics", base_spec(
            [col("c0", dt, checks=copy.deepcopy([a, b, c]))]))
    return out


def _history_catalogue(full, fams):
    """The same check (kind, dtype, statistics) read more than once by one
    process with different options / on different components: side by side
    in one schema (``sibling.*``) and in consecutive schemas (``seq:*``, the
    payload is a list of specs executed in order).  Statistics are *fresh*
    (derived from a running token) so that the first reader of every entry
    is the first reader of that check in the process."""
    out = []
    add = lambda label, s: out.append((label, s))
    tok = itertools.count(100)
    kinds = [("int", "greater_than"), ("str", "isin")]
    if full:
        kinds += [("int", "in_range"), ("int", "equal_to"),
                  ("float", "less_than"), ("str", "str_startswith"),
                  ("datetime", "greater_than_or_equal_to"),
                  ("datetime_tz", "less_than_or_equal_to"),
                  ("timedelta", "isin"), ("timedelta", "less_than"),
                  ("bool", "equal_to"), ("cat", "notin")]

    def fresh(fam, kind, opts=None):
        c = make_check(kind, fam, cycle(fresh_values(fam, next(tok) * 10)), 1)
        c["opts"] = dict(opts or {})
        return c

    def plain(c):
        return dict(copy.deepcopy(c), opts={})

    subsets = _opt_subsets()[1:]
    for fam, kind in kinds:
        dt = fams[fam]
        for opts in subsets:
            a = fresh(fam, kind, opts)
            add("sibling.col-col:opts-first", base_spec(
                [col("c0", dt, checks=[a]), col("c1", dt, checks=[plain(a)])]))
            a = fresh(fam, kind, opts)
            add("sibling.col-col:plain-first", base_spec(
                [col("c0", dt, checks=[plain(a)]), col("c1", dt, checks=[a])]))
            a = fresh(fam, kind, opts)
            add("seq:opts-then-plain", [
                base_spec([col("c0", dt, checks=[a])]),
                base_spec([col("c0", dt, checks=[plain(a)])])])
            a = fresh(fam, kind, opts)
            add("seq:plain-then-opts", [
                base_spec([col("c0", dt, checks=[plain(a)])]),
                base_spec([col("c0", dt, checks=[a])])])
        for opts in subsets[:3]:
            for first_has_opts in (True, False):
                a = fresh(fam, kind, opts)
                x, y = (a, plain(a)) if first_has_opts else (plain(a), a)
                order = "opts-first" if first_has_opts else "plain-first"
                add(f"sibling.col-idx:{order}", base_spec(
                    [col("c0", dt, checks=[x])],
                    index=[level("i", dt, checks=[y])]))
                add(f"sibling.mi-mi:{order}", base_spec(
                    [col("c0")], index=[level("i", dt, checks=[x]),
                                        level("j", dt, checks=[y])]))
                if fam in ("int", "str"):
                    add(f"sibling.frame-col:{order}", base_spec(
                        [col("c0", dt, checks=[y])], checks=[x]))
        # different values of one option, three holders
        a = fresh(fam, kind, {"n_failure_cases": 1})
        b = dict(copy.deepcopy(a), opts={"n_failure_cases": 3})
        add("sibling.col-col-col:option-values", base_spec(
            [col("c0", dt, checks=[a]), col("c1", dt, checks=[b]),
             col("c2", dt, checks=[plain(a)])]))
        add("seq:option-values", [
            base_spec([col("c0", dt, checks=[copy.deepcopy(b)])]),
            base_spec([col("c0", dt, checks=[copy.deepcopy(a)])]),
            base_spec([col("c0", dt, checks=[plain(a)])])])
        # the same schema twice, and the same check under another label
        a = fresh(fam, kind, {"raise_warning": True, "n_failure_cases": 0})
        one = base_spec([col("c0", dt, checks=[a])])
        add("seq:same-schema-twice", [one, copy.deepcopy(one)])
        add("seq:same-check-other-column-label", [
            copy.deepcopy(one),
            base_spec([col("c0", dt), col("other", dt, checks=[plain(a)])])])
    # same check and statistics on another dtype
    for d1, d2 in (("int64", "float64"), ("int64", "Int64"),
                   ("int32", "int64"), ("str", "string"), ("str", "object"),
                   ("datetime64[ns]", "datetime64[ns, UTC]")):
        fam = family(d1)
        a = fresh(fam, "isin", {"n_failure_cases": 1, "ignore_na": False})
        add("seq:same-check-other-dtype", [
            base_spec([col("c0", d1, checks=[a])]),
            base_spec([col("c0", d2, checks=[plain(a)])])])
        a = fresh(fam, "isin", {"raise_warning": True})
        add("sibling.col-col:other-dtype", base_spec(
            [col("c0", d1, checks=[a]), col("c1", d2, checks=[plain(a)])]))
    # the same component with and without its flags / texts
    flagged = dict(nullable=True, unique=True, coerce=True, required=False,
                   title="A title", description="some words")
    for k, v in flagged.items():
        a = fresh("int", "less_than")
        add(f"seq:col.{k}-then-default", [
            base_spec([col("c0", checks=[a], **{k: v})]),
            base_spec([col("c0", checks=[copy.deepcopy(a)])])])
    for k, v in dict(strict="filter", coerce=True, ordered=True,
                     unique=["c0"], name="frame_name", title="T").items():
        add(f"seq:frame.{k}-then-default", [
            base_spec([col("c0"), col("c1", "str")], **{k: v}),
            base_spec([col("c0"), col("c1", "str")])])
    return out


# ---------------------------------------------------------------------------
# random specs

def random_spec(rng):
    pick = rng.choice
    ncols = rng.choice([1, 2, 2, 3])
    cols = []
    for i in range(ncols):
        dt = pick(COMMON if rng.random() < 0.8 else DTYPES)
        cols.append(col(f"c{i}", dt))
    spec = base_spec(cols)
    if rng.random() < 0.4:
        n = rng.choice([1, 1, 2, 3])
        spec["index"] = [level(pick([None, f"i{j}"]),
                               pick(["int64", "str", "datetime64[ns]"]))
                         for j in range(n)]
    nfeat = rng.choice([1, 1, 2, 2, 3, 4])
    for _ in range(nfeat):
        _add_random_feature(spec, rng)
    return spec


def _rand_str(rng):
    cls = rng.choice(sorted(STR))
    s = rng.choice(STR[cls])
    if rng.random() < 0.15:
        cls2 = rng.choice(sorted(STR))
        s = s + rng.choice(STR[cls2])
    return s


def _rand_check(rng, dtype):
    fam = family(dtype)
    if fam == "other":
        fam = "int"
    kind = rng.choice(check_kinds(fam))
    vals = wide_values(fam, rng) if rng.random() < 0.3 else None
    xfam = fam if dtype not in (None, "object") else "untyped"
    if xfam in XVALUES and not kind.startswith("str_") and \
            rng.random() < (0.25 if xfam != "untyped" else 0.15):
        # statistics of another python type than the data (see XVALUES),
        # pool values or wide ones with a fractional part / none
        vals = list(XVALUES[xfam])
        if rng.random() < 0.4:
            vals = [("wide", v[1] + rng.choice([0.5, 0.25, 0.0]))
                    for v in wide_values("int", rng)] if xfam != "float" \
                else wide_values("int", rng)
    c = make_check(kind, fam, rng.choice, rng.randrange(8), vals=vals)
    if kind in ALIASES and rng.random() < 0.5:
        c["via"] = ALIASES[kind]
    for o, vals in OPTS.items():
        if rng.random() < 0.25:
            c["opts"][o] = rng.choice(vals)
    return c


def _redraw_opts(c, rng):
    """Another option subset for a copy of check ``c``."""
    new = copy.deepcopy(c)
    for _ in range(8):
        new["opts"] = {o: rng.choice(v) for o, v in OPTS.items()
                       if rng.random() < 0.35}
        if new["opts"] != c["opts"]:
            break
    return new


def _add_sibling(spec, rng):
    """Give a second component the same check as an existing one (fresh
    statistics), usually with other options."""
    comps = [c for c in spec["columns"] + (spec["index"] or [])]
    if len(comps) < 2:
        spec["columns"].append(col(f"c{len(spec['columns'])}",
                                   comps[0]["dtype"] if comps else "int64"))
        comps = spec["columns"] + (spec["index"] or [])
    src, dst = rng.sample(comps, 2)
    if isinstance(src["dtype"], dict):
        return
    fam = family(src["dtype"])
    if fam == "other":
        return
    kind = rng.choice(check_kinds(fam))
    c = make_check(kind, fam, rng.choice, rng.randrange(8),
                   vals=wide_values(fam, rng))
    if rng.random() < 0.7:
        c["opts"] = {o: rng.choice(v) for o, v in OPTS.items()
                     if rng.random() < 0.5}
    if any(k["kind"] == kind for k in src["checks"] + dst["checks"]):
        return                       # no second check of one kind (known)
    if dst["dtype"] != src["dtype"]:
        # keep statistics coherent with the dtype of their holder: another
        # dtype only within the same value family (int64 / Int64 / int32 ..)
        same_family = not isinstance(dst["dtype"], dict) and \
            dst["dtype"] is not None and family(dst["dtype"]) == fam
        if dst["checks"] and not same_family:
            return
        if not same_family or rng.random() < 0.7:
            dst["dtype"] = src["dtype"]
    other = _redraw_opts(c, rng) if rng.random() < 0.85 else copy.deepcopy(c)
    first, second = (c, other) if rng.random() < 0.5 else (other, c)
    src["checks"].append(first)
    dst["checks"].append(second)


def _variant(spec, rng):
    """A close relative of ``spec``: same components and statistics, some
    options / flags / texts changed or reset."""
    s = copy.deepcopy(spec)
    holders = [s["checks"]] + [c["checks"] for c in s["columns"]] + \
        [c["checks"] for c in (s["index"] or [])]
    mode = rng.choice(["drop-opts", "redraw-opts", "reset-flags", "mixed"])
    for h in holders:
        for j, c in enumerate(h):
            if mode == "drop-opts" or (mode == "mixed" and rng.random() < .5):
                h[j] = dict(c, opts={})
            elif mode == "redraw-opts":
                h[j] = _redraw_opts(c, rng)
    if mode in ("reset-flags", "mixed"):
        for c in s["columns"]:
            for k in ("nullable", "unique", "coerce", "required", "regex",
                      "title", "description"):
                if rng.random() < 0.6:
                    c[k] = copy.deepcopy(COL_DEFAULT[k])
        for c in (s["index"] or []):
            for k in ("nullable", "unique", "coerce", "title", "description"):
                if rng.random() < 0.6:
                    c[k] = copy.deepcopy(IDX_DEFAULT[k])
        for k in ("strict", "coerce", "ordered", "title", "description",
                  "name", "unique_column_names", "add_missing_columns"):
            if rng.random() < 0.6:
                s[k] = copy.deepcopy(FRAME_DEFAULT[k])
    return s


def random_sequence(rng):
    """2-3 related specs to be executed in order by one process."""
    a = random_spec(rng)
    holders = [c for c in a["columns"] + (a["index"] or [])
               if not isinstance(c["dtype"], dict)
               and family(c["dtype"]) != "other"]
    if holders:
        # at least one check with fresh statistics and at least one option
        h = rng.choice(holders)
        fam = family(h["dtype"])
        kind = rng.choice(check_kinds(fam))
        if not any(k["kind"] == kind for k in h["checks"]):
            c = make_check(kind, fam, rng.choice, rng.randrange(8),
                           vals=wide_values(fam, rng))
            c["opts"] = _redraw_opts(c, rng)["opts"] or {"n_failure_cases":
                                                         rng.choice([0, 1, 3])}
            h["checks"].append(c)
    b = _variant(a, rng)
    shape = rng.choice(["ab", "ab", "ba", "aba", "abc"])
    seq = {"ab": [a, b], "ba": [b, a], "aba": [a, b, copy.deepcopy(a)],
           "abc": [a, b, _variant(a, rng)]}[shape]
    return seq


def random_case(rng):
    """(label, payload): a single spec or a list of specs (sequence)."""
    if rng.random() < 0.25:
        return "random-seq", random_sequence(rng)
    return "random", random_spec(rng)


def _add_random_feature(spec, rng):
    comps = [("columns", i) for i in range(len(spec["columns"]))]
    comps += [("index", i) for i in range(len(spec["index"] or []))]
    r = rng.random()
    if rng.random() < 0.10:
        _add_sibling(spec, rng)
        return
    if r < 0.30:
        part, i = rng.choice(comps)
        c = spec[part][i]
        n = rng.choice([1, 1, 2])
        for _ in range(n):
            k = _rand_check(rng, c["dtype"])
            if n == 2 and c["checks"] and rng.random() < 0.5:
                k = _rand_check(rng, c["dtype"])
                k2 = copy.deepcopy(c["checks"][-1])
                if rng.random() < 0.5:
                    k = make_check(k2["kind"], family(c["dtype"])
                                   if family(c["dtype"]) != "other" else "int",
                                   rng.choice, rng.randrange(8))
            c["checks"].append(k)
    elif r < 0.40:
        d = spec["columns"][0]["dtype"] if spec["columns"] else "int64"
        spec["checks"].append(_rand_check(rng, d))
    elif r < 0.60:
        part, i = rng.choice(comps)
        c = spec[part][i]
        k = rng.choice(["title", "description", "name"])
        v = _rand_str(rng)
        if k == "name" and part == "columns":
            if any(x["name"] == v for x in spec["columns"]):
                return
            spec["unique"] = _rename_in_unique(spec["unique"], c["name"], v)
        c[k] = v
    elif r < 0.72:
        part, i = rng.choice(comps)
        c = spec[part][i]
        ks = ["nullable", "unique", "coerce"] + (
            ["required", "regex"] if part == "columns" else [])
        k = rng.choice(ks)
        c[k] = not (COL_DEFAULT if part == "columns" else IDX_DEFAULT)[k]
    elif r < 0.80:
        k = rng.choice(["title", "description", "name"])
        spec[k] = _rand_str(rng)
    elif r < 0.92:
        k = rng.choice(["strict", "coerce", "ordered", "unique",
                        "report_duplicates", "unique_column_names",
                        "add_missing_columns", "dtype"])
        if k == "strict":
            spec[k] = rng.choice([True, "filter"])
        elif k == "unique":
            names = [c["name"] for c in spec["columns"]
                     if isinstance(c["name"], str)]
            if names:
                spec[k] = rng.sample(names, rng.randint(1, len(names)))
        elif k == "report_duplicates":
            spec[k] = rng.choice(["exclude_first", "exclude_last"])
        elif k == "dtype":
            spec[k] = rng.choice(["int64", "float64", "str"])
        else:
            spec[k] = True
    else:
        part, i = rng.choice(comps)
        spec[part][i]["dtype"] = rng.choice(DTYPES + PARAM_DTYPES)
        spec[part][i]["checks"] = []     # keep check arguments coherent
