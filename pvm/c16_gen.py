"""C16 — generated DataFrameModel class hierarchies ("programs").

A program is a JSON-able description of a small class tree:

  prog = {"backend": "pandas"|"polars", "classes": [cls, ...]}
  cls  = {"name", "parent": None|index, "doc",
          "fields":   [{attr, ann(bool), dtype, optional, has_field(bool),
                        alias, regex, nullable, unique, coerce, default,
                        title, description, metadata, ignore_na,
                        n_failure_cases, checks:[{kind,args}]}],
          "checks":   [{method, targets, by, regex, pred, name,
                        element_wise, as_classmethod}],
          "df_checks":[{method, pred, col, name, bare}],
          "parsers":  [{method, targets, fn}],          (pandas only)
          "df_parsers":[{method, fn}],                  (pandas only)
          "config":   None | {"style": plain|subclass, "options": {...},
                              "extras": {...}},
          "limit":    None | int}     (the class defines ``_pvm_limit``)
  prog["limit_style"] = "const" | "classmethod": ``_pvm_limit = 3`` or
  ``@classmethod def _pvm_limit(cls): return 3``.  The ``cls_*`` predicates /
  parser functions read it through the ``cls`` argument the custom method
  receives ("the method will be converted to a classmethod", API reference of
  pa.check / dataframe_check / parser): a subclass that inherits the method
  and overrides ``_pvm_limit`` validates with its own value.

Three things are derived from a program, independently of each other:

* ``build_models``  real ``DataFrameModel`` classes created with ``type()``
  (plain annotations: the numpy-2.5 sandbox cannot build ``Series[...]``);
* ``resolve``       the *documented* meaning of class i as a flat description:
  python inheritance semantics — a field re-declared in a subclass replaces
  the inherited one, a check / parser method re-defined under the same name
  replaces the inherited one, ``Config`` options and extras are inherited and
  overridden key by key (docs/source/dataframe_models.md, "Schema
  Inheritance", "Inheritance" of custom checks, "Config");
* ``build_schema``  the object-API ``DataFrameSchema`` for a flat description.

``resolve`` never looks at pandera.
"""
from __future__ import annotations

import copy
import datetime as dt
import re

from .gen import build as B, spec as G

ATTRS = ["f1", "f2", "f3", "f4", "f5", "f6"]
COLNAMES = ["a", "b", "c", "ab", "ba", "x", "col_1", "a b"]
REGEX_ALIASES = ["r_.*", "r\\d", "r_a|r_b", "r"]
CLASS_NAMES = ["Model", "Base", "Child", "Schema", "M1", "M2", "Mid", "Leaf"]
FIELD_CHECK_ORDER = ["eq", "ne", "gt", "ge", "lt", "le", "in_range", "isin",
                     "notin", "str_contains", "str_endswith", "str_matches",
                     "str_length", "str_startswith"]
FIELD_KEY = {  # gen check kind -> (Field keyword, how to pass the args)
    "eq": ("eq", "value"), "ne": ("ne", "value"),
    "gt": ("gt", "min_value"), "ge": ("ge", "min_value"),
    "lt": ("lt", "max_value"), "le": ("le", "max_value"),
    "in_range": ("in_range", None), "isin": ("isin", "allowed_values"),
    "notin": ("notin", "forbidden_values"),
    "str_matches": ("str_matches", "pattern"),
    "str_contains": ("str_contains", "pattern"),
    "str_startswith": ("str_startswith", "string"),
    "str_endswith": ("str_endswith", "string"),
    "str_length": ("str_length", None),
}
CHECK_CTOR = {"eq": "equal_to", "ne": "not_equal_to", "gt": "greater_than",
              "ge": "greater_than_or_equal_to", "lt": "less_than",
              "le": "less_than_or_equal_to"}

# --------------------------------------------------------------- predicates
# name -> dtype classes it is meaningful for ("*" = any)
PREDS = {"small": ("int64", "float64"), "nonneg": ("int64", "float64"),
         "short": ("str",), "nota": ("str",), "istrue": ("bool",),
         "late": ("datetime",), "nunique_le3": ("*",), "len_le4": ("*",),
         # bodies that depend on the class they are called with
         "cls_lt": ("int64", "float64"), "cls_len_le": ("*",)}
ELEMENTWISE_OK = {"small", "nonneg", "nota", "cls_lt"}
PARSER_FNS = {"abs": ("int64", "float64"), "clip4": ("int64", "float64"),
              "lower": ("str",), "ident": ("*",),
              "cls_clip": ("int64", "float64")}
DF_PARSER_FNS = ["ident", "head5", "sortidx", "cls_head", "cls_head"]
DF_PREDS = ["col_small", "ncols_le4", "nrows_le5", "cls_col_lt", "cls_nrows_le"]
LIMITS = [0, 1, 2, 3, 4, 5, 7]      # values of the class constant _pvm_limit


def cls_dep(name):
    """Does this predicate / parser function read ``cls._pvm_limit``?"""
    return isinstance(name, str) and name.startswith("cls_")
EXTRA_CHECKS = ["pvm_ncols_le", "pvm_nrows_le"]


def pd_pred(name, element_wise=False, limit=None):
    import pandas as pd
    if element_wise:
        return {"small": lambda x: x < 5, "nonneg": lambda x: x >= 0,
                "nota": lambda x: x != "a",
                "cls_lt": lambda x: x < limit}[name]
    return {
        "cls_lt": lambda s: s < limit,
        "cls_len_le": lambda s: len(s) <= limit,
        "small": lambda s: s < 5,
        "nonneg": lambda s: s >= 0,
        "short": lambda s: s.str.len() <= 2,
        "nota": lambda s: s != "a",
        "istrue": lambda s: s == True,  # noqa: E712
        "late": lambda s: s >= pd.Timestamp("2020-01-03"),
        "nunique_le3": lambda s: s.nunique() <= 3,
        "len_le4": lambda s: len(s) <= 4,
    }[name]


def pl_pred(name, element_wise=False, limit=None):
    import polars as pl
    if element_wise:
        return pd_pred(name, True, limit)
    e = {
        "cls_lt": lambda c: c < limit,
        "cls_len_le": lambda c: c.len() <= limit,
        "small": lambda c: c < 5,
        "nonneg": lambda c: c >= 0,
        "short": lambda c: c.str.len_chars() <= 2,
        "nota": lambda c: c != "a",
        "istrue": lambda c: c == True,  # noqa: E712
        "late": lambda c: c >= dt.datetime(2020, 1, 3),
        "nunique_le3": lambda c: c.n_unique() <= 3,
        "len_le4": lambda c: c.len() <= 4,
    }[name]
    return lambda data: data.lazyframe.select(e(pl.col(data.key)))


def pd_dfpred(name, col, limit=None):
    return {"cls_col_lt": lambda df: df[col] < limit,
            "cls_nrows_le": lambda df: len(df) <= limit,
            "col_small": lambda df: df[col] < 5,
            "ncols_le4": lambda df: len(df.columns) <= 4,
            "nrows_le5": lambda df: len(df) <= 5}[name]


def pl_dfpred(name, col, limit=None):
    import polars as pl
    return {
        "cls_col_lt": lambda d: d.lazyframe.select(pl.col(col) < limit),
        "cls_nrows_le": lambda d: d.lazyframe.select(pl.len() <= limit),
        "col_small": lambda d: d.lazyframe.select(pl.col(col) < 5),
        "ncols_le4": lambda d: len(d.lazyframe.collect_schema().names()) <= 4,
        "nrows_le5": lambda d: d.lazyframe.select(pl.len() <= 5),
    }[name]


def parser_fn(name, limit=None):
    return {"abs": lambda s: s.abs(), "clip4": lambda s: s.clip(upper=4),
            "lower": lambda s: s.str.lower(), "ident": lambda s: s,
            "cls_clip": lambda s: s.clip(upper=limit)}[name]


def df_parser_fn(name, limit=None):
    return {"ident": lambda df: df, "head5": lambda df: df.head(5),
            "sortidx": lambda df: df.sort_index(),
            "cls_head": lambda df: df.head(limit)}[name]


_registered = False


def register_extras():
    """Two registered custom checks usable as Config extras (both backends)."""
    global _registered
    if _registered:
        return
    import pandera.extensions as ext
    from pandera.api.checks import Check
    if "pvm_ncols_le" not in Check.REGISTERED_CUSTOM_CHECKS:
        @ext.register_check_method(statistics=["mx"])
        def pvm_ncols_le(obj, *, mx):
            if hasattr(obj, "lazyframe"):
                return len(obj.lazyframe.collect_schema().names()) <= mx
            return len(obj.columns) <= mx

        @ext.register_check_method(statistics=["mx"])
        def pvm_nrows_le(obj, *, mx):
            if hasattr(obj, "lazyframe"):
                import polars as pl
                return obj.lazyframe.select(pl.len() <= mx)
            return len(obj) <= mx
    _registered = True


# ---------------------------------------------------------------- generator
def _dedupe_checks(checks):
    seen, out = set(), []
    for c in checks:
        if c["kind"] in seen or c["kind"] not in FIELD_KEY:
            continue
        seen.add(c["kind"])
        out.append({"kind": c["kind"], "args": c["args"]})
    out.sort(key=lambda c: FIELD_CHECK_ORDER.index(c["kind"]))
    return out


FALSY_ALIASES = [0, 0, False, 0.0, ""]     # legal pandas labels, all falsy


def gen_fielddef(rng, attr, backend, colnames_taken, *, override_of=None,
                 may_rename=False):
    """A field declaration.  ``override_of`` = the flat column it replaces;
    ``may_rename`` = nothing inherited designates that column by its name, so
    the override may give it another public name."""
    if override_of is not None:
        dtype = override_of["dtype"]
        if rng.random() < 0.3:
            dtype = {"int64": "float64", "float64": "int64"}.get(dtype, dtype)
    else:
        dtype = rng.choice(G.DTYPES)
    fs = G.gen_field(rng, "?", dtype, p_checks=0.75, max_checks=3,
                     neutral=(backend == "polars"))
    G.make_satisfiable(rng, fs, need=2)
    f = {
        "attr": attr, "ann": True, "dtype": dtype,
        "optional": rng.random() < 0.2, "has_field": True,
        "alias": None, "regex": False,
        "nullable": fs["nullable"], "unique": fs["unique"],
        "coerce": rng.random() < 0.3, "default": None,
        "title": rng.choice([None, None, "T " + attr]),
        "description": rng.choice([None, None, "about " + attr]),
        "metadata": rng.choice([None, None, None, {"k": attr}]),
        "ignore_na": not any(not c.get("ignore_na", True) for c in fs["checks"]),
        "n_failure_cases": rng.choice([None, None, None, 1]),
        "checks": _dedupe_checks(fs["checks"]),
    }
    if backend == "polars":
        f["metadata"] = None if rng.random() < 0.7 else f["metadata"]
    if override_of is not None:
        # an override keeps the public column name (checks of the parents
        # reference it) and the regex flag
        f["alias"] = override_of["_alias"]
        f["regex"] = override_of["regex"]
        r = rng.random()
        if r < 0.15:
            f["ann"] = False          # Field-only override, annotation inherited
            f["dtype"] = override_of["dtype"]
            f["optional"] = override_of["required"] is False
            f["checks"] = [c for c in f["checks"]]
        elif r < 0.45 and (may_rename or (override_of["_alias"] is None
                                          and not override_of["regex"])):
            # re-declared by annotation only: a plain column, none of the
            # parent's Field options (nor its alias) survive
            _make_bare(f)
            f["alias"], f["regex"] = None, False
        elif r < 0.6 and may_rename:
            # a new Field with another alias / none: the column is renamed
            free = [n for n in COLNAMES
                    if n not in colnames_taken and n != attr]
            f["alias"] = rng.choice(free + [None]) if free else None
            f["regex"] = False
            if f["alias"] == override_of["_alias"]:
                f["regex"] = override_of["regex"]
        return f
    r = rng.random()
    free = [n for n in COLNAMES if n not in colnames_taken and n != attr]
    if r < 0.3 and free:
        f["alias"] = rng.choice(free)
    elif r < 0.36 and backend == "pandas":
        f["alias"] = rng.choice([2020, 7] + FALSY_ALIASES)
        if f["alias"] in colnames_taken:
            f["alias"] = None
    elif r < 0.36 and rng.random() < 0.5 and "" not in colnames_taken:
        f["alias"] = ""               # the empty string is a legal polars name
    elif r < 0.48:
        pats = [p for p in REGEX_ALIASES if p not in colnames_taken]
        if pats and backend == "pandas":
            f["alias"], f["regex"] = rng.choice(pats), True
            f["optional"] = rng.random() < 0.3
    if not f["checks"] and not f["nullable"] and not f["unique"] and \
            not f["coerce"] and f["alias"] is None and rng.random() < 0.5:
        _make_bare(f)                 # bare annotation, no Field assigned
    if f["has_field"] and not f["optional"] and rng.random() < 0.12 \
            and dtype in ("int64", "float64", "str") and not f["regex"]:
        f["default"] = rng.choice(G.POOL[dtype][:6])
    return f


def _make_bare(f):
    f["has_field"] = False
    f["nullable"] = f["unique"] = f["coerce"] = False
    f["default"] = f["title"] = f["description"] = f["metadata"] = None
    f["n_failure_cases"] = None
    f["ignore_na"] = True
    f["checks"] = []


def referenced_names(prog, i):
    """Column names that a check / parser method or a Config option of class
    ``i`` or of one of its ancestors designates literally (an override that
    renamed such a column would leave the designation dangling - pandera
    raises SchemaInitError then, which the documentation does not cover)."""
    out = []
    for ci in chain(prog, i):
        c = prog["classes"][ci]
        own = {f["attr"]: _colname(f) for f in c["fields"]}
        flat = None
        for d in c["checks"]:
            if d["regex"]:
                continue
            if d["by"] == "field":
                for a in d["targets"]:
                    if a in own:
                        out.append(own[a])
                    else:
                        flat = flat or resolve(prog, ci)
                        out += [x["name"] for x in flat["columns"]
                                if x["_attr"] == a]
            else:
                out += d["targets"]
        for d in c["parsers"]:
            out += d["targets"]
        for d in c["df_checks"]:
            if d["col"] is not None:
                out.append(d["col"])
        if c["config"]:
            out += c["config"]["options"].get("unique") or []
    return out


def same_label(a, b):
    """Labels are compared with their type: 0, 0.0 and False are different
    column names for this purpose."""
    return type(a) is type(b) and a == b


def _colname(f):
    return f["alias"] if f["alias"] is not None else f["attr"]


def gen_program(rng, backend):
    ncls = rng.choice([1, 2, 2, 3, 3, 3, 4])
    names = rng.sample(CLASS_NAMES, ncls)
    classes = []
    depth = []
    for i in range(ncls):
        if i == 0:
            parent = None
        else:
            parent = i - 1 if rng.random() < 0.75 else rng.randrange(i)
            while depth[parent] >= 3:
                parent = classes[parent]["parent"]
        depth.append(1 if parent is None else depth[parent] + 1)
        prog_so_far = {"backend": backend, "classes": classes}
        inherited = resolve(prog_so_far, parent) if parent is not None else None
        cls = {"name": names[i], "parent": parent,
               "doc": rng.choice([None, None, "Doc of %s." % names[i]]),
               "fields": [], "checks": [], "df_checks": [], "parsers": [],
               "df_parsers": [], "config": None, "limit": None}
        vis_cols = list(inherited["columns"]) if inherited else []
        taken_attrs = {c["_attr"] for c in vis_cols}
        taken_names = {c["name"] for c in vis_cols}
        # new fields
        nnew = rng.randint(1, 3) if parent is None else rng.choice([0, 1, 1, 2])
        for attr in [a for a in ATTRS if a not in taken_attrs][:nnew]:
            f = gen_fielddef(rng, attr, backend, taken_names)
            if _colname(f) in taken_names:
                f["alias"], f["regex"] = None, False
            cls["fields"].append(f)
            taken_attrs.add(attr)
            taken_names.add(_colname(f))
        # field overrides
        if vis_cols and rng.random() < 0.45:
            refs = referenced_names(prog_so_far, parent)
            for col in rng.sample(vis_cols, min(len(vis_cols), rng.choice([1, 1, 2]))):
                f = gen_fielddef(rng, col["_attr"], backend, taken_names,
                                 override_of=col,
                                 may_rename=col["name"] not in refs
                                 or rng.random() < 0.25)
                taken_names.add(_colname(f))
                cls["fields"].insert(rng.randint(0, len(cls["fields"])), f)
        # what is visible now (for check targets)
        classes.append(cls)
        flat = resolve({"backend": backend, "classes": classes}, i)
        cols = flat["columns"]
        plain = [c for c in cols if not c["regex"]]
        own_attrs = {f["attr"] for f in cls["fields"] if f["has_field"]}
        inh_methods = inherited["_methods"] if inherited else {}
        # column checks
        k = 0
        for _ in range(rng.choice([0, 0, 1, 1, 2])):
            if not plain:
                break
            k += 1
            cls["checks"].append(gen_checkdef(
                rng, "chk_%s_%d" % (names[i].lower(), k), plain, cols,
                own_attrs, backend))
        for m in [m for m, kind in inh_methods.items() if kind == "check"]:
            if plain and rng.random() < 0.35:
                cls["checks"].append(gen_checkdef(rng, m, plain, cols,
                                                  own_attrs, backend))
        # dataframe checks
        if rng.random() < 0.35:
            cls["df_checks"].append(gen_dfcheckdef(
                rng, "dfc_%s" % names[i].lower(), plain))
        for m in [m for m, kind in inh_methods.items() if kind == "df_check"]:
            if rng.random() < 0.35:
                cls["df_checks"].append(gen_dfcheckdef(rng, m, plain))
        # parsers
        if backend == "pandas":
            if plain and rng.random() < 0.3:
                cls["parsers"].append(gen_parserdef(
                    rng, "prs_%s" % names[i].lower(), plain))
            for m in [m for m, kind in inh_methods.items() if kind == "parser"]:
                if plain and rng.random() < 0.4:
                    cls["parsers"].append(gen_parserdef(rng, m, plain))
            if rng.random() < 0.15:
                cls["df_parsers"].append(
                    {"method": "dfp_%s" % names[i].lower(),
                     "fn": rng.choice(DF_PARSER_FNS)})
            for m in [m for m, kind in inh_methods.items() if kind == "df_parser"]:
                if rng.random() < 0.4:
                    cls["df_parsers"].append(
                        {"method": m, "fn": rng.choice(DF_PARSER_FNS)})
        # Config
        if rng.random() < (0.65 if parent is None else 0.5):
            cls["config"] = gen_config(
                rng, plain, backend, has_parent=parent is not None,
                inherited_options=inherited["options"] if inherited else None)
        # the class constant / helper classmethod that the cls_* bodies read
        # through ``cls``: defined where the first such method appears; a
        # subclass that inherits (or adds) such a method often overrides it
        own_dep = any(cls_dep(d["pred"]) for d in cls["checks"] + cls["df_checks"]) \
            or any(cls_dep(d["fn"]) for d in cls["parsers"] + cls["df_parsers"])
        inh_limit = inherited["limit"] if inherited else None
        if inh_limit is None:
            if own_dep or rng.random() < 0.04:
                cls["limit"] = rng.choice(LIMITS)
        elif (inherited["_cls_dep"] or own_dep) and rng.random() < 0.65:
            cls["limit"] = rng.choice([v for v in LIMITS if v != inh_limit])
    return {"backend": backend, "classes": classes,
            "limit_style": rng.choice(["const", "const", "classmethod"])}


def gen_checkdef(rng, method, plain, cols, own_attrs, backend):
    d = {"method": method, "regex": False, "by": "name", "name": None,
         "element_wise": False, "as_classmethod": rng.random() < 0.25}
    if rng.random() < 0.2:
        # regex designation, dtype-agnostic predicate
        d["regex"] = True
        d["targets"] = [rng.choice(["^a", "^[abc]$", ".", "^f\\d", "b"])]
        d["pred"] = rng.choice(["nunique_le3", "len_le4", "cls_len_le"])
    else:
        tgt = rng.sample(plain, 1 if rng.random() < 0.8 else min(2, len(plain)))
        d["targets"] = [c["name"] for c in tgt]
        fit = [p for p, dts in PREDS.items()
               if all(dts == ("*",) or c["dtype"] in dts for c in tgt)]
        d["pred"] = rng.choice(fit)
        if all(c["_attr"] in own_attrs for c in tgt) and rng.random() < 0.35:
            d["by"] = "field"        # pa.check(<FieldInfo object>)
            d["targets"] = [c["_attr"] for c in tgt]
        if d["pred"] in ELEMENTWISE_OK and backend == "pandas" \
                and rng.random() < 0.25:
            d["element_wise"] = True
    if rng.random() < 0.4:
        d["name"] = rng.choice(["custom", "foobar", "my_check"])
    return d


def gen_dfcheckdef(rng, method, plain):
    pred = rng.choice(DF_PREDS)
    num = [c["name"] for c in plain if c["dtype"] in ("int64", "float64")
           and isinstance(c["name"], str)]
    if not num:
        pred = {"col_small": "ncols_le4", "cls_col_lt": "cls_nrows_le"}.get(
            pred, pred)
    return {"method": method, "pred": pred,
            "col": rng.choice(num) if pred in ("col_small", "cls_col_lt")
            else None,
            "name": rng.choice([None, None, "df_custom"]),
            "bare": rng.random() < 0.5}


def gen_parserdef(rng, method, plain):
    c = rng.choice(plain)
    fit = [p for p, dts in PARSER_FNS.items()
           if dts == ("*",) or c["dtype"] in dts]
    fn = rng.choice(fit)
    if "cls_clip" in fit and rng.random() < 0.25:
        fn = "cls_clip"
    return {"method": method, "targets": [c["name"]], "fn": fn}


# Config options whose default is None ("not set"): a subclass may set an
# inherited value back to None (or to another falsy value) - plain python
# attribute overriding, the subclass's Config wins
NONE_DEFAULT_OPTS = ("unique", "title", "description", "name", "dtype")
FALSY_RESET = {"unique": [None, None, None, []],
               "title": [None, None, None, ""],
               "description": [None, None, None, ""],
               "name": [None], "dtype": [None]}


def gen_config(rng, plain, backend, has_parent, inherited_options=None):
    opts = {}
    if rng.random() < 0.4:
        opts["strict"] = rng.choice([True, True, False, "filter"])
    if rng.random() < 0.3:
        opts["ordered"] = rng.random() < 0.7
    if rng.random() < 0.35:
        opts["coerce"] = rng.random() < 0.7
    if rng.random() < 0.25:
        opts["name"] = rng.choice(["named schema", "S"])
    if rng.random() < 0.2:
        opts["title"] = "Title"
    if rng.random() < 0.2:
        opts["description"] = "Config description"
    if rng.random() < 0.2 and plain:
        names = [c["name"] for c in plain if isinstance(c["name"], str)]
        if names:
            opts["unique"] = rng.sample(names, min(len(names), rng.choice([1, 2])))
    if rng.random() < 0.07 and plain:
        # frame-level dtype ("overrides the data types specified in any of
        # the fields"); mostly the dtype of one of the columns
        opts["dtype"] = rng.choice([c["dtype"] for c in plain] * 3
                                   + ["int64", "float64", "str"])
    # a subclass may set an inherited None-default option back to None
    # (falsy variants: unique=[], title / description = "")
    for k in NONE_DEFAULT_OPTS:
        if k in opts:
            continue
        inh = (inherited_options or {}).get(k)
        if inh and rng.random() < 0.35:
            opts[k] = rng.choice(FALSY_RESET[k])
        elif not inh and rng.random() < 0.015:
            opts[k] = None            # spelled out although nothing to reset
    # a subclass may also switch an inherited option off again
    on = (lambda: True) if not has_parent else (lambda: rng.random() < 0.7)
    if rng.random() < 0.15 and backend == "pandas":
        opts["unique_column_names"] = on()
    if rng.random() < 0.15:
        opts["add_missing_columns"] = on()
    if rng.random() < 0.12:
        opts["drop_invalid_rows"] = on()
    if rng.random() < 0.08:
        opts["metadata"] = {"owner": "x"}
    extras = {}
    if rng.random() < 0.3:
        name = rng.choice(EXTRA_CHECKS)
        mx = rng.choice([2, 3, 4, 5])
        extras[name] = {"form": rng.choice(["scalar", "dict", "tuple"]), "mx": mx}
    return {"style": "subclass" if has_parent and rng.random() < 0.3 else "plain",
            "options": opts, "extras": extras}


# ------------------------------------------------------------------ resolve
def chain(prog, i):
    out = []
    while i is not None:
        out.append(i)
        i = prog["classes"][i]["parent"]
    return out[::-1]


def resolve(prog, i, nonstr_regex="str"):
    """Flat, documented meaning of class ``i`` (python inheritance).

    ``nonstr_regex``: whether a regex-designated check applies to a column
    whose name is not a string ("str": match on str(name); "skip": never) -
    the documentation does not say, callers accept both readings."""
    cols = {}          # attr -> column description (insertion ordered)
    overridden = False
    methods = {}       # method name -> (kind, definition)
    options, extras = {}, {}
    leaf = prog["classes"][i]
    limit = None       # what ``cls._pvm_limit`` is for cls = class i
    limit_at = {}      # class index -> what it is for that ancestor
    for ci in chain(prog, i):
        c = prog["classes"][ci]
        if c.get("limit") is not None:
            limit = c["limit"]
        limit_at[ci] = limit
        for f in c["fields"]:
            prev = cols.get(f["attr"])
            if prev is not None:
                overridden = True
            col = {
                "_attr": f["attr"], "_alias": f["alias"],
                "name": _colname(f),
                "dtype": f["dtype"] if f["ann"] else prev["dtype"],
                "required": (not f["optional"]) if f["ann"] else prev["required"],
                "regex": f["regex"],
            }
            if f["has_field"]:
                col.update(nullable=f["nullable"], unique=f["unique"],
                           coerce=f["coerce"], default=f["default"],
                           title=f["title"], description=f["description"],
                           metadata=f["metadata"], ignore_na=f["ignore_na"],
                           n_failure_cases=f["n_failure_cases"],
                           checks=copy.deepcopy(f["checks"]))
            else:
                col.update(nullable=False, unique=False, coerce=False,
                           default=None, title=None, description=None,
                           metadata=None, ignore_na=True, n_failure_cases=None,
                           checks=[])
            col["_has_field_opts"] = bool(
                col["checks"] or col["nullable"] or col["unique"]
                or col["coerce"] or col["default"] is not None
                or col["_alias"] is not None or col["title"]
                or col["description"] or col["metadata"])
            cols[f["attr"]] = col
        for kind in ("checks", "df_checks", "parsers", "df_parsers"):
            for d in c[kind]:
                methods[d["method"]] = (kind, d, ci)
        if c["config"]:
            options.update(c["config"]["options"])
            extras.update(c["config"]["extras"])
    columns = list(cols.values())
    by_attr = {c["_attr"]: c for c in columns}
    for c in columns:
        c["custom_checks"], c["parsers"] = [], []
    flat = {"columns": columns, "df_checks": [], "df_parsers": [],
            "options": options, "extras": extras,
            "order_decided": not overridden,
            # names a live check / parser method designates literally that
            # are no column of this class (an override renamed the column)
            "dangling": [],
            "limit": limit,
            # a custom method whose body reads cls._pvm_limit is live
            "_cls_dep": False,
            # ... and is inherited from an ancestor for which cls._pvm_limit
            # has another value: [(method, value for the ancestor)]
            "cls_dep_inherited": [],
            "_methods": {m: {"checks": "check", "df_checks": "df_check",
                             "parsers": "parser",
                             "df_parsers": "df_parser"}[k]
                         for m, (k, _, _) in methods.items()}}
    # nearest class first, the order the MRO is walked in
    for m, (kind, d, ci) in sorted(methods.items(), key=lambda kv: -kv[1][2]):
        dep = cls_dep(d.get("pred")) or cls_dep(d.get("fn"))
        lim = limit if dep else None
        if dep:
            flat["_cls_dep"] = True
            if ci != i and limit_at[ci] != limit:
                flat["cls_dep_inherited"].append([m, limit_at[ci]])
        if kind == "checks":
            if d["regex"]:
                tg = [c for c in columns
                      if (isinstance(c["name"], str) or nonstr_regex == "str")
                      and any(re.match(p, str(c["name"])) for p in d["targets"])]
            elif d["by"] == "field":
                # pa.check(<FieldInfo>) designates the public name that field
                # object has in the class defining the method
                own = {f["attr"]: _colname(f)
                       for f in prog["classes"][ci]["fields"]}
                names = [own[a] if a in own else by_attr[a]["name"]
                         for a in d["targets"]]
                tg = [c for c in columns
                      if any(same_label(c["name"], n) for n in names)]
                flat["dangling"] += [n for n in names if not any(
                    same_label(c["name"], n) for c in columns)]
            else:
                tg = [c for c in columns if c["name"] in d["targets"]]
                flat["dangling"] += [n for n in d["targets"] if not any(
                    c["name"] == n for c in columns)]
            for c in tg:
                c["custom_checks"].append(
                    {"name": d["name"] or d["method"], "pred": d["pred"],
                     "title": "%s:%s" % (d["method"], d["pred"]),
                     "element_wise": d["element_wise"], "method": d["method"],
                     "explicit_name": d["name"] is not None,
                     "inherited": ci != i, "limit": lim})
        elif kind == "parsers":
            flat["dangling"] += [n for n in d["targets"] if not any(
                c["name"] == n for c in columns)]
            for c in columns:
                if c["name"] in d["targets"]:
                    c["parsers"].append({"name": d["method"], "fn": d["fn"],
                                         "title": "%s:%s" % (d["method"], d["fn"]),
                                         "limit": lim})
        elif kind == "df_checks":
            flat["df_checks"].append(
                {"name": d["name"] or d["method"], "pred": d["pred"],
                 "title": None if (d["bare"] and not d["name"])
                 else "%s:%s" % (d["method"], d["pred"]),
                 "col": d["col"], "method": d["method"],
                 "explicit_name": d["name"] is not None, "inherited": ci != i,
                 "limit": lim})
        else:
            flat["df_parsers"].append({"name": d["method"], "fn": d["fn"],
                                       "limit": lim})
    # schema name: explicit in the class's own Config; a Config that
    # subclasses the parent's Config inherits whatever name that one has
    # (not documented -> not judged); otherwise the class name.
    own = leaf["config"]
    if own and "name" in own["options"]:
        flat["name"], flat["name_decided"] = own["options"]["name"], True
    elif own and own["style"] == "subclass":
        flat["name"], flat["name_decided"] = None, False
    else:
        flat["name"], flat["name_decided"] = leaf["name"], True
    flat["description"] = options.get("description") or leaf["doc"]
    return flat


# ------------------------------------------------------------------- builders
def _ns(backend):
    if backend == "polars":
        import pandera.polars as pa
    else:
        import pandera as pa
    return pa


def annotation(dtype, optional, backend, variant=0):
    from typing import Optional
    if backend == "polars":
        import polars as pl
        t = {"int64": [int, pl.Int64], "float64": [float, pl.Float64],
             "str": [str, pl.String], "bool": [bool, pl.Boolean],
             "datetime": [dt.datetime, pl.Datetime]}[dtype]
    else:
        import pandas as pd
        import pandera as pa
        t = {"int64": [int, pa.Int64], "float64": [float, pa.Float64],
             "str": [str, pa.String], "bool": [bool, pa.Bool],
             "datetime": [pa.DateTime, pd.Timestamp, dt.datetime]}[dtype]
    a = t[variant % len(t)]
    return Optional[a] if optional else a


def _frame_dtype(dtype, backend, variant=0):
    """Config.dtype as a user would spell it (python type / dtype string /
    the engine's own dtype object)."""
    if dtype is None:
        return None
    if variant % 3 == 0 and dtype in ("int64", "float64", "str"):
        return {"int64": int, "float64": float, "str": str}[dtype]
    if variant % 3 == 1 and backend == "pandas" and dtype != "datetime":
        return {"int64": "int64", "float64": "float64", "str": "str",
                "bool": "bool"}[dtype]
    return B.pl_dtype(dtype) if backend == "polars" else B.pd_dtype(dtype)


def _conv(dtype, backend, x):
    return (B._pl_val if backend == "polars" else B._val)(dtype, x)


def _pattern_args(args):
    """pvm.gen.spec describes a *compiled* pattern as pattern + "flags"
    ([] = compiled without flags); both APIs accept an re.Pattern."""
    if "flags" not in args:
        return args
    fl = 0
    for name in args["flags"]:
        fl |= getattr(re, name)
    out = {k: v for k, v in args.items() if k != "flags"}
    out["pattern"] = re.compile(out["pattern"], fl)
    return out


def field_kwargs(f, dtype, backend):
    kw = {}
    for c in f["checks"]:
        key, argname = FIELD_KEY[c["kind"]]
        cargs = _pattern_args(c["args"])
        if argname is None:
            kw[key] = {k: _conv(dtype, backend, v) for k, v in cargs.items()}
        else:
            v = cargs[argname]
            kw[key] = [_conv(dtype, backend, x) for x in v] \
                if isinstance(v, list) else _conv(dtype, backend, v)
    for k in ("nullable", "unique", "coerce"):
        if f[k]:
            kw[k] = True
    if f["regex"]:
        kw["regex"] = True
    if f["alias"] is not None:
        kw["alias"] = f["alias"]
    for k in ("title", "description", "metadata", "n_failure_cases"):
        if f[k] is not None:
            kw[k] = f[k]
    if f["default"] is not None:
        kw["default"] = f["default"]
    if not f["ignore_na"]:
        kw["ignore_na"] = False
    return kw


def build_models(prog, log=None, on_defined=None, ann_variant=0):
    """Create the real model classes (parents first).  ``log`` collects the
    ``cls`` argument every custom check / parser receives."""
    backend = prog["backend"]
    pa = _ns(backend)
    register_extras()
    pred = pl_pred if backend == "polars" else pd_pred
    dfpred = pl_dfpred if backend == "polars" else pd_dfpred
    built = []
    dtypes = []      # per class: attr -> dtype as resolved so far
    if prog.get("limit_style", "const") == "classmethod":
        def getlim(cls):
            return cls._pvm_limit()
    else:
        def getlim(cls):
            return cls._pvm_limit

    def body(kind, meth, name, make):
        """The custom method: records the ``cls`` it receives; a cls_* body
        reads the class constant through it on every call."""
        if cls_dep(name):
            def fn(cls, arg):
                if log is not None:
                    log.append((kind, meth, cls))
                return make(getlim(cls))(arg)
        else:
            p = make(None)

            def fn(cls, arg):
                if log is not None:
                    log.append((kind, meth, cls))
                return p(arg)
        return fn

    for i, c in enumerate(prog["classes"]):
        parent = built[c["parent"]] if c["parent"] is not None else pa.DataFrameModel
        known = dict(dtypes[c["parent"]]) if c["parent"] is not None else {}
        ns = {"__module__": "pvm.c16_models", "__qualname__": c["name"],
              "__annotations__": {}}
        if c["doc"]:
            ns["__doc__"] = c["doc"]
        if c.get("limit") is not None:
            if prog.get("limit_style", "const") == "classmethod":
                ns["_pvm_limit"] = classmethod(lambda cls, _v=c["limit"]: _v)
            else:
                ns["_pvm_limit"] = c["limit"]
        for f in c["fields"]:
            if f["ann"]:
                ns["__annotations__"][f["attr"]] = annotation(
                    f["dtype"], f["optional"], backend, ann_variant)
                known[f["attr"]] = f["dtype"]
            if f["has_field"]:
                ns[f["attr"]] = pa.Field(
                    **field_kwargs(f, known[f["attr"]], backend))
        dtypes.append(known)

        def method(fn, name):
            fn.__name__ = name
            fn.__qualname__ = "%s.%s" % (c["name"], name)
            return fn

        for d in c["checks"]:
            fn = method(body("check", d["method"], d["pred"],
                             lambda lim, _d=d: pred(_d["pred"],
                                                    _d["element_wise"], lim)),
                        d["method"])
            targets = [ns[t] if d["by"] == "field" else t for t in d["targets"]]
            # the title identifies (method, predicate) on both sides, so that
            # structurally equal checks with different functions stay apart
            kw = {"title": "%s:%s" % (d["method"], d["pred"])}
            if d["name"]:
                kw["name"] = d["name"]
            if d["element_wise"]:
                kw["element_wise"] = True
            if d["regex"]:
                kw["regex"] = True
            ns[d["method"]] = pa.check(*targets, **kw)(
                classmethod(fn) if d["as_classmethod"] else fn)
        for d in c["df_checks"]:
            fn = method(body("df_check", d["method"], d["pred"],
                             lambda lim, _d=d: dfpred(_d["pred"], _d["col"], lim)),
                        d["method"])
            title = "%s:%s" % (d["method"], d["pred"])
            if d["name"]:
                ns[d["method"]] = pa.dataframe_check(name=d["name"], title=title)(fn)
            elif d["bare"]:
                ns[d["method"]] = pa.dataframe_check(fn)
            else:
                ns[d["method"]] = pa.dataframe_check(title=title)(fn)
        for d in c["parsers"]:
            fn = method(body("parser", d["method"], d["fn"],
                             lambda lim, _d=d: parser_fn(_d["fn"], lim)),
                        d["method"])
            ns[d["method"]] = pa.parser(
                *d["targets"], title="%s:%s" % (d["method"], d["fn"]))(fn)
        for d in c["df_parsers"]:
            fn = method(body("df_parser", d["method"], d["fn"],
                             lambda lim, _d=d: df_parser_fn(_d["fn"], lim)),
                        d["method"])
            ns[d["method"]] = pa.dataframe_parser(fn)
        if c["config"]:
            bases = (parent.Config,) if c["config"]["style"] == "subclass" else ()
            ex = {k: {"scalar": v["mx"], "dict": {"mx": v["mx"]},
                      "tuple": (v["mx"],)}[v["form"]]
                  for k, v in c["config"]["extras"].items()}
            co = dict(c["config"]["options"])
            if co.get("dtype") is not None:
                co["dtype"] = _frame_dtype(co["dtype"], backend, ann_variant)
            ns["Config"] = type("Config", bases, {**co, **ex})
        cls = type(c["name"], (parent,), ns)
        built.append(cls)
        if on_defined:
            on_defined(i, cls)
    return built


def _builtin_check(pa, dtype, backend, c, col):
    kw = {}
    if not col["ignore_na"]:
        kw["ignore_na"] = False
    if col["n_failure_cases"] is not None:
        kw["n_failure_cases"] = col["n_failure_cases"]
    args = {k: ([_conv(dtype, backend, x) for x in v] if isinstance(v, list)
                else _conv(dtype, backend, v))
            for k, v in _pattern_args(c["args"]).items()}
    ctor = CHECK_CTOR.get(c["kind"], c["kind"])
    return getattr(pa.Check, ctor)(**args, **kw)


def build_schema(flat, backend):
    """The object-API schema 'with the same columns, checks and options'."""
    pa = _ns(backend)
    register_extras()
    pred = pl_pred if backend == "polars" else pd_pred
    dfpred = pl_dfpred if backend == "polars" else pd_dfpred
    columns = {}
    for col in flat["columns"]:
        dtype = B.pl_dtype(col["dtype"]) if backend == "polars" \
            else B.pd_dtype(col["dtype"])
        checks = [_builtin_check(pa, col["dtype"], backend, c, col)
                  for c in col["checks"]]
        for cc in col["custom_checks"]:
            kw = {"element_wise": True} if cc["element_wise"] else {}
            checks.append(pa.Check(pred(cc["pred"], cc["element_wise"],
                                        cc.get("limit")),
                                   name=cc["name"], title=cc["title"], **kw))
        kw = dict(checks=checks, nullable=col["nullable"], unique=col["unique"],
                  coerce=col["coerce"], required=col["required"],
                  regex=col["regex"], name=col["name"], title=col["title"],
                  description=col["description"], default=col["default"],
                  metadata=col["metadata"])
        if backend == "pandas":
            from pandera.api.parsers import Parser
            kw["parsers"] = [Parser(parser_fn(p["fn"], p.get("limit")),
                                    name=p["name"],
                                    title=p.get("title"))
                             for p in col["parsers"]]
        columns[col["name"]] = pa.Column(dtype, **kw)
    checks = [pa.Check(dfpred(d["pred"], d["col"], d.get("limit")),
                       name=d["name"],
                       title=d["title"])
              for d in flat["df_checks"]]
    for name, value in flat["extras"].items():
        checks.append(getattr(pa.Check, name)(mx=value["mx"]))
    o = flat["options"]
    kw = dict(
        checks=checks, coerce=o.get("coerce", False),
        strict=o.get("strict", False), name=flat["name"],
        ordered=o.get("ordered", False), unique=o.get("unique"),
        dtype=(B.pl_dtype if backend == "polars" else B.pd_dtype)(
            o.get("dtype")),
        title=o.get("title"), description=flat["description"],
        unique_column_names=o.get("unique_column_names", False),
        add_missing_columns=o.get("add_missing_columns", False),
        drop_invalid_rows=o.get("drop_invalid_rows", False))
    if backend == "pandas":
        from pandera.api.parsers import Parser
        kw["parsers"] = [Parser(df_parser_fn(p["fn"], p.get("limit")),
                                name=p["name"])
                         for p in flat["df_parsers"]]
    return pa.DataFrameSchema(columns, **kw)


# -------------------------------------------------------------------- data
def gen_spec_of(flat):
    """flat description -> pvm.gen.spec frame spec (drives the table
    generator / mutator; custom checks are unknown to it, which is fine:
    both sides of the comparison are real pandera)."""
    cols = []
    for c in flat["columns"]:
        cols.append({"name": c["name"], "dtype": c["dtype"],
                     "nullable": c["nullable"], "unique": c["unique"],
                     "report_duplicates": "all", "required": c["required"],
                     "regex": c["regex"], "coerce": c["coerce"],
                     "default": c["default"],
                     "checks": [{"kind": k["kind"], "args": k["args"],
                                 "ignore_na": c["ignore_na"]}
                                for k in c["checks"]]})
    o = flat["options"]
    return {"kind": "frame", "columns": cols, "index": None,
            "strict": o.get("strict", False), "ordered": o.get("ordered", False),
            "unique": o.get("unique") or None, "report_duplicates": "all",
            "unique_column_names": o.get("unique_column_names", False),
            "add_missing_columns": o.get("add_missing_columns", False),
            "coerce": o.get("coerce", False),
            "drop_invalid_rows": o.get("drop_invalid_rows", False),
            "dtype": o.get("dtype")}


def gen_frame(rng, flat, backend, aim=None):
    """(table, mutations) near the flat description.  ``aim`` = column names
    some ancestor declared jointly unique (and this class maybe no longer):
    the row-duplicating mutation then repeats a row in exactly those."""
    gs = gen_spec_of(flat)
    if gs["dtype"] is not None and (rng.random() < 0.4 or any(
            c["checks"] and c["dtype"] != gs["dtype"] for c in gs["columns"])):
        # frames that ignore the frame-level dtype (and: the table generator
        # cannot evaluate a column's checks on values of another dtype)
        gs["dtype"] = None
    # the table generator indexes regex labels by pattern and str names only
    ren = {}
    for c in gs["columns"]:
        if not isinstance(c["name"], str) or not c["name"]:
            ren["i%r" % (c["name"],)] = c["name"]
            c["name"] = "i%r" % (c["name"],)
    if gs["unique"]:
        gs["unique"] = [u for u in gs["unique"]
                        if any(c["name"] == u for c in gs["columns"])] or None
    table = G.gen_table(rng, gs, nrows=rng.choice([0, 1, 2, 3, 4, 5, 6]))
    muts = []
    if rng.random() < 0.6:
        muts = G.mutate(rng, gs, table)
    nrows = max([len(c["values"]) for c in table["columns"]] or [0])
    if nrows >= 2 and rng.random() < (0.5 if aim else 0.12):
        # repeat one row in another position: in the columns ``aim`` only,
        # or in every column (violates any joint uniqueness constraint)
        tgt = [c for c in table["columns"] if not aim or c["name"] in aim]
        if tgt and all(len(c["values"]) == nrows for c in tgt):
            i, j = rng.sample(range(nrows), 2)
            for c in tgt:
                c["values"][j] = c["values"][i]
            muts = list(muts) + [("dup_row", "aimed" if aim else "all")]
    if backend == "polars":
        # polars frames cannot carry duplicate labels
        seen, cols = set(), []
        for c in table["columns"]:
            if c["name"] not in seen:
                seen.add(c["name"])
                cols.append(c)
        table["columns"] = cols
        table["index"] = None
    for c in table["columns"]:
        c["name"] = ren.get(c["name"], c["name"])
    return table, muts


def make_data(table, backend):
    if backend == "polars":
        return B.polars_table(table)
    return B.pandas_table({"kind": "frame"}, table)
