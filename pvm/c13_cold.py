"""C13 helper: execute ONE case in this (fresh) interpreter.

stdin: {"case":…, "hseed":…, "n":…}; last stdout line: the partial Run.
Nothing is validated before ``schema.strategy()`` is called, so the lazily
registered backends / builtin-check strategies are in their cold state.
"""
from __future__ import annotations

import contextlib
import json
import sys


def main():
    req = json.loads(sys.stdin.read())
    from . import env
    env.pin_repo()
    from .checks import c13
    run = c13.new_run()
    with contextlib.redirect_stdout(sys.stderr):
        c13.one_case(run, req["case"], req["hseed"], req["n"], cold=True,
                     verbose=req.get("verbose", False))
    print(json.dumps(run.to_partial(), default=repr))
    return 0


if __name__ == "__main__":
    sys.exit(main())
