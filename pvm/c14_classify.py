"""C14 classifier: (stage, component kind, data-derived flags, detail) -> key.

``flags`` come from ``c14_gen.describe`` applied to the *data* of the single
component that reproduces the failure on its own (never from the generator's
label).  Every rule names the stage and the data class it needs; anything else
stays ``None`` -> ``unclassified:<stage>`` -> the run fails.
"""
from __future__ import annotations

import re

INT_DTYPES = {"dtype:int64", "dtype:uint64", "dtype:Int64", "dtype:UInt64"}


def _rounded_through_float(detail):
    """The inferred statistic is a float, the float image of the exact
    integer extreme (and not some other element of the data).  Unparsable
    details keep the rule."""
    try:
        st = str(detail["statistic"])
        ex = str(detail["data_extreme"])
        if "(" in st:                       # np.float64(1.0) -> 1.0
            st = st[st.rindex("(") + 1:].rstrip(")")
        if "(" in ex:
            ex = ex[ex.rindex("(") + 1:].rstrip(")")
        if re.fullmatch(r"[-+]?\d+", st.strip()):
            return False                    # an integer statistic
        return float(st) == float(int(ex))
    except Exception:
        return True


def classify(stage, where, flags, detail):
    F = set(flags)
    d = detail if isinstance(detail, str) else str(detail)

    # float(x.min()) / float(x.max()) for integers beyond 2**53
    if stage == "bound-not-tight" and "abs>2**53" in F and (
            (F & INT_DTYPES) or {"dtype:object", "inferred:integer"} <= F) \
            and where in ("column", "index", "index-level") \
            and _rounded_through_float(detail):
        return "integer-bounds-computed-through-float"

    if stage == "infer-raises:AttributeError" and where == "frame" and \
            F == {"no-columns"} and "'NoneType' object has no attribute " \
            "'items'" in d:
        return "infer_dataframe_schema-frame-without-columns"

    if stage == "infer-raises:TypeError" and {"empty", "dtype:object"} <= F \
            and "data type 'empty' not understood" in d:
        return "empty-object-array-infer_dtype-alias-empty-unknown"

    if stage == "infer-raises:TypeError" and \
            {"dtype:object", "inferred:datetime", "some-null"} <= F and \
            "not supported between instances" in d:
        return "object-datetimes-with-null-min-max-compare-with-nan"

    # MultiIndex levels are looked up by name: two levels of one name
    # (the same index with distinct level names does not fail this stage)
    if where == "index" and "repeated-level-names" in F and \
            "distinct-names-variant-probed" in F and \
            "distinct-names-variant-fails:" + stage not in F and (
            stage in ("returned-values-differ",
                      "validate-raises:TypeError",
                      "yaml-schema-accepts-what-original-rejected")
            or stage.startswith("validate-rejects:")):
        return "multiindex-repeated-level-names-resolved-by-name"

    if stage == "validate-rejects:DATAFRAME_CHECK" and "complex" in F and \
            "imag-nonzero" in F and "dtype:complex128" in F and \
            "than_or_equal_to(" in d:
        return "complex-bounds-computed-through-float"

    if stage == "validate-rejects:DATATYPE_COERCION" and \
            {"dtype:object", "inferred:integer", "abs>2**53"} <= F:
        return "object-integers-beyond-int64-inferred-as-int64"

    # serialisation of the inferred datetime bounds (DATETIME_FORMAT)
    if stage == "yaml-schema-rejects" and "max-subsecond" in F and \
            "dtype:datetime64[ns]" in F and "less_than_or_equal_to" in d:
        return "DATETIME_FORMAT-drops-subseconds-of-inferred-maximum"
    if stage == "yaml-write-raises:RepresenterError" and "tz-aware" in F and \
            "Timestamp(" in d:
        return "tz-aware-inferred-bound-not-converted-for-yaml"
    return None


# quick-tier floors, about 1/4 of the unchanged tree with seed 0
# (thorough, 24000 random + 18000 derived cases: x20)
FLOORS_QUICK = {
    "monitor:infer": 300, "monitor:validate": 300,
    "monitor:returned-values": 260, "monitor:bound-tight": 900,
    "monitor:yaml-roundtrip": 180, "monitor:yaml-verdict": 180,
    "held": 250, "kind:series": 80, "kind:frame": 230,
    "mode:plain": 350, "mode:some-null": 55, "mode:all-null": 75,
    "mode:empty": 75, "index:range": 140, "index:single": 20,
    "index:single:unnamed": 25, "index:multi": 25,
    "index:multi:unnamed": 60, "index:multi:repeated-names": 25,
    "class:int64-big": 8, "class:uint64": 7, "class:Int64-big": 8,
    "class:float64-inf": 8, "class:float64-negzero": 7,
    "class:float64-subnormal": 8, "class:datetime-subsecond": 10,
    "class:datetime-tz-utc": 10, "class:cat-str": 30, "class:str": 30,
    "class:timedelta": 30, "class:obj-int-str": 8, "class:bool": 25,
    "class:obj-bigint": 8, "class:obj-int-big": 10, "class:obj-timestamp": 10,
    "class:complex128": 9, "class:datetime-tz-berlin": 10,
    "class:obj-pydatetime-out-of-ns-bounds": 8, "class:obj-timestamp-mixed-tz": 8,
    "class:obj-pytime": 8, "class:obj-pydate": 8, "class:obj-pytimedelta-huge": 7,
    # structured-index / derived-object family (min of seeds 0,1,2,3,12345 / 4);
    # index-struct / index-type / rows are counted on the object handed to
    # infer_schema, for DataFrames that reached validate
    "derive:column_to_frame": 33, "derive:reset_index": 13, "derive:slice": 63,
    "derive:slice:step<0": 105, "derive:sort_index": 35,
    "derive:sort_values": 32, "derive:take": 38,
    "index-class:date_range": 37, "index-class:range": 126,
    "index-class:timedelta_range": 18,
    "index-struct:freq": 32, "index-struct:freq-negative": 14,
    "index-struct:has-duplicates": 145,
    "index-struct:monotonic-decreasing": 94,
    "index-struct:monotonic-increasing": 189,
    "index-struct:non-monotonic": 133, "index-struct:range-start!=0": 71,
    "index-struct:range-step<0": 54, "index-struct:range-stop-unaligned": 27,
    "index-struct:range-|step|>1": 66, "index-struct:rangeindex": 233,
    "index-type:CategoricalIndex": 4, "index-type:DatetimeIndex": 34,
    "index-type:Index": 65, "index-type:MultiIndex": 122,
    "index-type:RangeIndex": 230, "index-type:TimedeltaIndex": 15,
    "rows:0": 79, "rows:1": 75, "rows:2+": 316,
}
