"""C10 generators and the element-wise oracle helpers.

* ``pandas_types()`` / ``polars_types()``: instances of every registered class
  (default instance when it can be built, plus parameterised samples);
* value pools + container generators (Series / Index / DataFrame /
  ndarray, polars LazyFrame columns);
* ``exact(kind, v)``: is converting the python value ``v`` to a type of this
  kind *exact* (value preserving), and what is the preserved value.  Lossy
  numeric coercion (1.5 -> 1, 300 -> uint8) is accepted by pandera and is
  outside the property, so ``exact`` says "not exact" there and the monitor
  does not judge the element.
"""
from __future__ import annotations

import datetime
import decimal
import math
import re

import numpy as np
import pandas as pd

from .c09_engines import np_class, pandas_native_class

D = decimal.Decimal
TS = pd.Timestamp
TD = pd.Timedelta

INTS = [0, 1, -1, 2, 7, 127, 128, 255, 256, -128, -129, 32767, 32768, 65535,
        65536, 2**31 - 1, 2**31, -2**31, 2**32 - 1, 2**32, 2**53 - 1, 2**53,
        2**53 + 1, -(2**53) - 1, 2**63 - 1, -2**63]
HUGE = [2**63, 2**64 - 1, 2**64, -2**63 - 1, 10**30]
FLOATS = [0.0, -0.0, 1.0, 1.5, -2.5, 3.0, 0.1, 1e10, 1e300, 2.0**53, 255.0,
          256.0, -1.0, 65504.0, 1e-8, float("nan"), float("inf"), float("-inf")]
BOOLS = [True, False]
NUMSTR = ["1", "0", "-3", "2.5", "1e3", " 4", "007", "+5", "127", "128", "1.0",
          "9223372036854775807", "9223372036854775808", "-0"]
STRS = ["a", "", "abc", "True", "nan", "None", "é", "b", "x y", "NaT", "<NA>"]
STAMPS = [TS("2020-01-01"), TS("1999-12-31 23:59:59"), TS("2020-06-15 12:30:00.123456789"),
          TS("1970-01-01"), TS("2262-04-11"), TS("1677-09-22")]
STAMPS_TZ = [TS("2020-01-01", tz="UTC"), TS("2020-06-15 12:00", tz="Europe/Berlin"),
             TS("2021-03-28 01:30", tz="Asia/Tokyo"), TS("2020-01-01 05:00", tz="America/New_York")]
PYDT = [datetime.datetime(2020, 1, 1), datetime.datetime(2021, 5, 17, 8, 30)]
NPDT = [np.datetime64("2020-01-01"), np.datetime64("2020-01-01T12:00:00")]
DATES = [datetime.date(2020, 1, 1), datetime.date(1999, 12, 31), datetime.date(2024, 2, 29)]
DTSTR = ["2020-01-01", "2020-01-01 12:00:00", "1999-12-31", "2020-13-01",
         "not a date", "01/02/2020", "2020-01-01T00:00:00+01:00"]
DELTAS = [TD("1D"), TD("0"), TD("-2h"), TD("1ns"), datetime.timedelta(hours=3),
          np.timedelta64(5, "s")]
DELTASTR = ["1 days", "2h", "nope"]
DECS = [D("1.5"), D("2"), D("-0.25"), D("123.456"), D("1E+3"), D("0.10")]
NULLS = [None, float("nan"), pd.NA, pd.NaT]
BYTES = [b"a", b"1", b""]
NESTED = [{"a": 1}, {"a": "x"}, [1, 2], [1, "a"], (1, "a"), (1, "a", 1.0), {}, [],
          {"a": 1, "b": 2}, [1.5]]

POOLS = {"int": INTS, "huge": HUGE, "float": FLOATS, "bool": BOOLS,
         "numstr": NUMSTR, "str": STRS, "stamp": STAMPS, "stamp_tz": STAMPS_TZ,
         "pydt": PYDT, "npdt": NPDT, "date": DATES, "dtstr": DTSTR,
         "delta": DELTAS, "deltastr": DELTASTR, "dec": DECS, "bytes": BYTES,
         "nested": NESTED}


def is_null(v):
    if v is None or v is pd.NA or v is pd.NaT:
        return True
    if isinstance(v, (float, np.floating)) and math.isnan(v):
        return True
    if isinstance(v, (complex, np.complexfloating)) and (
            math.isnan(v.real) or math.isnan(v.imag)):
        return True
    if isinstance(v, (np.datetime64, np.timedelta64)) and np.isnat(v):
        return True
    if isinstance(v, D) and v.is_nan():
        return True
    return False


def _is_int(v):
    # np.timedelta64 is a subclass of np.signedinteger
    return isinstance(v, (int, np.integer)) and not isinstance(
        v, (bool, np.bool_, np.timedelta64))


def vrepr(v):
    """type-tagged repr used for multiset comparison / canonical keys."""
    if is_null(v):
        return "<null>"
    if isinstance(v, (bool, np.bool_)):
        return f"bool:{bool(v)}"
    if isinstance(v, (TD, datetime.timedelta, np.timedelta64)):
        try:
            return f"td:{TD(v).value}"
        except Exception:
            return f"td?:{v!r}"
    if isinstance(v, (int, np.integer)):
        return f"int:{int(v)}"
    if isinstance(v, (float, np.floating)):
        return f"float:{float(v)!r}"
    if isinstance(v, (complex, np.complexfloating)):
        return f"complex:{complex(v)!r}"
    if isinstance(v, (TS, datetime.datetime, np.datetime64)):
        try:
            return f"ts:{TS(v).isoformat()}"
        except Exception:
            return f"ts?:{v!r}"
    if isinstance(v, (TD, datetime.timedelta, np.timedelta64)):
        try:
            return f"td:{TD(v).value}"
        except Exception:
            return f"td?:{v!r}"
    if isinstance(v, (str, np.str_)):
        return f"str:{str(v)!r}"
    return f"{type(v).__name__}:{v!r}"[:120]


# ---------------------------------------------------------------------------
# kind of a pandera type, for the exactness oracle
# ---------------------------------------------------------------------------
def pandas_kind(t):
    """(kind, extra) of a pandas/numpy-engine type, or (None, None)."""
    from pandera.engines import numpy_engine, pandas_engine as pe
    name = type(t).__name__
    if isinstance(t, pe.Category):
        return "category", t
    if isinstance(t, pe.Decimal):
        return "decimal", t
    if isinstance(t, pe.Date):
        return "date", t
    if isinstance(t, (pe.NpString, pe.STRING, numpy_engine.String)) or name in (
            "ArrowString", "ArrowLargeString"):
        return "str", t
    if isinstance(t, numpy_engine.Object):
        return "object", t
    nc = pandas_native_class(getattr(t, "type", None))
    if nc is not None:
        return nc[0], (nc, t)
    return None, None


def can_hold_null(t, engine="pandas"):
    """Can the *coerced container* of this type represent a missing value."""
    if engine == "polars":
        return True
    nt = getattr(t, "type", None)
    if isinstance(nt, np.dtype):
        return nt.kind in "fcMmOUS"
    return True    # extension dtypes, categoricals, arrow, object based


def _int_range(signed, bits):
    return (-(2 ** (bits - 1)), 2 ** (bits - 1) - 1) if signed else (0, 2 ** bits - 1)


_CANON_INT = re.compile(r"^-?(0|[1-9]\d*)$")
_ISO = re.compile(r"^\d{4}-\d{2}-\d{2}( \d{2}:\d{2}:\d{2})?$")


def exact(kind, extra, v):
    """(True, preserved python value) when converting v to the kind is exact."""
    if is_null(v):
        return False, None
    if kind == "int":
        (k, signed, bits), _ = extra
        lo, hi = _int_range(signed, bits)
        if isinstance(v, (bool, np.bool_)):
            return True, int(v)
        if _is_int(v):
            return (lo <= int(v) <= hi), int(v)
        if isinstance(v, (float, np.floating)):
            f = float(v)
            if math.isfinite(f) and f == int(f) and abs(f) <= 2**53 and lo <= int(f) <= hi:
                return True, int(f)
            return False, None
        if isinstance(v, str) and _CANON_INT.match(v) and v != "-0":
            return (lo <= int(v) <= hi), int(v)
        return False, None
    if kind in ("float", "complex"):
        (k, _, bits), _ = extra
        fb = bits if kind == "float" else bits // 2
        if isinstance(v, (bool, np.bool_)):
            return True, float(v)
        if _is_int(v) and abs(int(v)) <= 2**53:
            f = float(int(v))
        elif isinstance(v, (float, np.floating)) and math.isfinite(float(v)):
            f = float(v)
        else:
            return False, None
        with np.errstate(all="ignore"):
            if fb == 32 and float(np.float32(f)) != f:
                return False, None
            if fb == 16 and float(np.float16(f)) != f:
                return False, None
        return True, f
    if kind == "bool":
        if isinstance(v, (bool, np.bool_)):
            return True, bool(v)
        if _is_int(v) and int(v) in (0, 1):
            return True, bool(v)
        return False, None
    if kind == "str":
        if isinstance(v, str):
            return True, v
        return False, None
    if kind == "datetime":
        _, t = extra
        tz = getattr(t, "tz", None)
        nt = getattr(t, "type", None)
        unit = getattr(t, "unit", None)
        if tz is None and hasattr(nt, "pyarrow_dtype"):
            tz = nt.pyarrow_dtype.tz
            unit = nt.pyarrow_dtype.unit
        if hasattr(nt, "time_zone"):          # polars
            tz, unit = nt.time_zone, nt.time_unit
        unit_ok = True
        if isinstance(v, (TS, datetime.datetime, np.datetime64)) and unit in ("ms", "us", "s"):
            per = {"s": 10**9, "ms": 10**6, "us": 10**3}[unit]
            try:
                unit_ok = TS(v).value % per == 0
            except Exception:
                unit_ok = False
        if isinstance(v, (TS, datetime.datetime, np.datetime64)) and not isinstance(v, str):
            ts = TS(v)
            if tz is None and ts.tzinfo is None:
                return unit_ok, ts
            if tz is not None and ts.tzinfo is not None:
                return unit_ok, ts
            return False, None
        if isinstance(v, str) and _ISO.match(v) and tz is None:
            try:
                return True, TS(v)
            except Exception:
                return False, None
        return False, None
    if kind == "timedelta":
        if isinstance(v, (TD, datetime.timedelta, np.timedelta64)):
            _, t = extra
            nt = getattr(t, "type", None)
            unit = getattr(nt, "time_unit", None) or getattr(
                getattr(nt, "pyarrow_dtype", None), "unit", None)
            per = {"s": 10**9, "ms": 10**6, "us": 10**3}.get(unit, 1)
            return TD(v).value % per == 0, TD(v)
        return False, None
    if kind == "category":
        t = extra
        try:
            if t.categories is not None and v in t.categories and \
                    isinstance(v, (str, int, float, bool)):
                return True, v
        except Exception:
            pass
        return False, None
    if kind == "decimal":
        t = extra
        if isinstance(v, (bool, np.bool_)):
            return False, None
        if _is_int(v):
            d = D(int(v))
        elif isinstance(v, D) and v.is_finite():
            d = v
        else:
            return False, None
        sign, digits, exp = d.as_tuple()
        if exp < -t.scale:
            return False, None
        int_digits = max(len(digits) + exp, 1)
        if int_digits + t.scale > t.precision:
            return False, None
        return True, d
    if kind == "date":
        if type(v) is datetime.date:
            return True, v
        return False, None
    if kind == "object":
        return True, v
    return False, None


def values_equal(out, expected):
    """out cell == expected preserved value (type-insensitive for numbers)."""
    if is_null(out):
        return False
    try:
        if hasattr(out, "as_py"):
            out = out.as_py()
        if isinstance(expected, TS):
            o = TS(out)
            if (o.tzinfo is None) != (expected.tzinfo is None):
                return False
            return o == expected
        if isinstance(expected, TD):
            return TD(out) == expected
        if isinstance(expected, D):
            return D(str(out)) == expected if not isinstance(out, D) else out == expected
        if isinstance(expected, bool):
            return bool(out) == expected and not isinstance(out, str)
        if isinstance(expected, (int, float)) and not isinstance(out, (str, bytes)):
            if isinstance(out, (complex, np.complexfloating)):
                return complex(out) == complex(expected)
            return out == expected
        r = out == expected
        return bool(r) if not hasattr(r, "__len__") else bool(np.all(r))
    except Exception:
        return False


# ---------------------------------------------------------------------------
# dtype instances
# ---------------------------------------------------------------------------
def pandas_types():
    """[(label, instance)] covering every class registered with the pandas and
    numpy engines; [(class, reason)] for the classes that cannot be built."""
    import pyarrow
    import pydantic
    from typing import Dict, List, NamedTuple, Tuple
    from typing import TypedDict
    from pandera.engines import numpy_engine as ne, pandas_engine as pe

    class Rec(pydantic.BaseModel):
        a: int
        b: str

    class PointTD(TypedDict):
        x: float
        y: float

    class PointNT(NamedTuple):
        x: float
        y: float

    def both(name, *a, **k):
        out = []
        for mod in (pe, _pyarrow_engine()):
            if mod is not None and hasattr(mod, name):
                out.append(getattr(mod, name)(*a, **k))
        return out

    extra = {
        "Category": [pe.Category(["a", "b"]), pe.Category([1, 2, 3], ordered=True),
                     pe.Category(["a", "b", "abc", "1"])],
        "DateTime": [pe.DateTime(tz="UTC"), pe.DateTime(tz="Europe/Berlin")],
        "Decimal": [pe.Decimal(10, 2), pe.Decimal(5, 0), pe.Decimal(3, 3)],
        "STRING": [pe.STRING("python"), pe.STRING("pyarrow")],
        "Period": [pe.Period(freq="D")],
        "Interval": [pe.Interval(subtype="int64")],
        "Sparse": [pe.Sparse(np.float64, np.nan), pe.Sparse(np.int64, 0)],
        "PydanticModel": [pe.PydanticModel(Rec)],
        "PythonDict": [pe.Engine.dtype(Dict[str, int])],
        "PythonList": [pe.Engine.dtype(List[int])],
        "PythonTuple": [pe.Engine.dtype(Tuple[int, str])],
        "PythonTypedDict": [pe.Engine.dtype(PointTD)],
        "PythonNamedTuple": [pe.Engine.dtype(PointNT)],
        "ArrowTimestamp": both("ArrowTimestamp", "us", None) + both("ArrowTimestamp", "ns", "UTC"),
        "ArrowDecimal128": both("ArrowDecimal128", 10, 2),
        "ArrowDictionary": both("ArrowDictionary", pyarrow.int32(), pyarrow.string())
        + both("ArrowDictionary", pyarrow.int8(), pyarrow.int64(), True),
        "ArrowList": both("ArrowList", pyarrow.int64()) + both("ArrowList", pyarrow.int64(), 2),
        "ArrowStruct": both("ArrowStruct", (("a", pyarrow.int64()),)),
        "ArrowDuration": both("ArrowDuration", "ms"),
        "ArrowTime32": both("ArrowTime32", "s"),
        "ArrowTime64": both("ArrowTime64", "us"),
        "ArrowMap": both("ArrowMap", pyarrow.string(), pyarrow.int64()),
        "ArrowBinary": both("ArrowBinary", 4),
    }
    out, unbuilt = [], []
    classes = set(pe.Engine._registered_dtypes) | set(ne.Engine._registered_dtypes)
    for C in sorted(classes, key=lambda c: (c.__module__, c.__qualname__)):
        insts = []
        try:
            insts.append(C())
        except Exception as e:
            if C.__name__ not in extra:
                unbuilt.append((C, repr(e)[:120]))
        for x in extra.get(C.__name__, []):
            if type(x) is C:
                insts.append(x)
        for j, x in enumerate(insts):
            out.append((f"{C.__module__.split('.')[-1]}.{C.__name__}#{j}:{_s(x)}", x))
    return out, unbuilt


def _pyarrow_engine():
    import sys
    return sys.modules.get("pandera.engines.pyarrow_engine")


def _s(x):
    try:
        return str(x)[:80]
    except Exception:
        return "?"


def polars_types():
    import polars as pl
    from pandera.engines import polars_engine as ple
    extra = {
        "Decimal": [ple.Decimal(10, 2), ple.Decimal(5, 0)],
        "DateTime": [ple.DateTime(time_zone="UTC", time_unit="ns"),
                     ple.DateTime(time_unit="ms")],
        "Timedelta": [ple.Timedelta("ns"), ple.Timedelta("ms")],
        "Array": [ple.Array(pl.Int64, 2)],
        "List": [ple.List(pl.Int64), ple.List(pl.Utf8)],
        "Struct": [ple.Struct({"a": pl.Int64, "b": pl.Utf8})],
        "Enum": [ple.Enum(["a", "b"]), ple.Enum(["1", "2", "abc"])],
        "Category": [ple.Category(["a", "b"]), ple.Category(["1", "2", "abc"])],
        "Categorical": [ple.Categorical()],
    }
    out, unbuilt = [], []
    for C in sorted(ple.Engine._registered_dtypes, key=lambda c: c.__qualname__):
        insts = []
        try:
            insts.append(C())
        except Exception as e:
            if C.__name__ not in extra:
                unbuilt.append((C, repr(e)[:120]))
        insts += [x for x in extra.get(C.__name__, []) if type(x) is C]
        for j, x in enumerate(insts):
            out.append((f"polars_engine.{C.__name__}#{j}:{_s(x)}", x))
    return out, unbuilt


# ---------------------------------------------------------------------------
# containers
# ---------------------------------------------------------------------------
FLAVOURS = {
    # name: (pools, candidate dtypes (None = let pandas infer / object))
    "int": (["int"], ["int64", "int32", "int8", "uint8", "object", "Int64", "float64", "int64[pyarrow]"]),
    "huge": (["int", "huge"], ["object"]),
    "uint64": (["int"], ["uint64"]),
    "float": (["float"], ["float64", "float32", "object", "Float64", "double[pyarrow]"]),
    "bool": (["bool"], ["bool", "object", "boolean", "bool[pyarrow]"]),
    "numstr": (["numstr"], ["object", "string", "string[pyarrow]"]),
    "str": (["str", "numstr"], ["object", "string"]),
    "stamp": (["stamp"], ["datetime64[ns]", "object"]),
    "stamp_tz": (["stamp_tz"], [None, "object"]),
    "pydt": (["pydt", "npdt", "stamp"], ["object"]),
    "date": (["date"], ["object"]),
    "dtstr": (["dtstr"], ["object", "string"]),
    "delta": (["delta"], ["timedelta64[ns]", "object"]),
    "dec": (["dec", "int"], ["object"]),
    "bytes": (["bytes"], ["object"]),
    "nested": (["nested"], ["object"]),
    "mixed": (["int", "float", "bool", "numstr", "str", "stamp", "delta", "dec",
               "bytes", "date"], ["object"]),
    "catdata": (["str"], ["category"]),
}

# flavours that make sense for a kind (half of the cases are drawn from here)
NEAR = {
    "int": ["int", "int", "huge", "uint64", "float", "bool", "numstr", "mixed"],
    "float": ["float", "float", "int", "numstr", "bool", "mixed", "huge"],
    "complex": ["float", "int", "numstr"],
    "bool": ["bool", "bool", "int", "float", "str", "mixed"],
    "str": ["str", "numstr", "int", "float", "mixed", "bytes", "stamp"],
    "datetime": ["stamp", "stamp_tz", "pydt", "dtstr", "dtstr", "int", "mixed", "date"],
    "timedelta": ["delta", "delta", "int", "str", "mixed"],
    "category": ["str", "str", "numstr", "int", "catdata", "mixed"],
    "decimal": ["dec", "dec", "int", "float", "numstr", "str"],
    "date": ["date", "date", "stamp", "dtstr", "pydt", "str"],
    "object": ["mixed", "int", "str", "nested"],
    None: ["nested", "mixed", "str", "int", "float", "stamp", "bytes", "numstr"],
}


def gen_values(rng, flavour, n):
    pools, dtypes = FLAVOURS[flavour]
    vals = []
    for _ in range(n):
        p = POOLS[rng.choice(pools)]
        vals.append(rng.choice(p))
    return vals, rng.choice(dtypes)


def inject(rng, vals):
    """hostile injections: a null, a value of another pool."""
    vals = list(vals)
    muts = []
    if vals and rng.random() < 0.35:
        i = rng.randrange(len(vals))
        vals[i] = rng.choice(NULLS)
        muts.append("null")
    if vals and rng.random() < 0.25:
        i = rng.randrange(len(vals))
        vals[i] = rng.choice(POOLS[rng.choice(sorted(POOLS))])
        muts.append("foreign")
    return vals, muts


def build_series(vals, dtype, labels, name):
    try:
        return pd.Series(vals, dtype=dtype, index=labels, name=name)
    except Exception:
        return pd.Series(vals, dtype=object, index=labels, name=name)


def gen_pandas_container(rng, kind):
    """Returns (container, description dict)."""
    flavour = rng.choice(NEAR.get(kind, NEAR[None])) if rng.random() < 0.75 \
        else rng.choice(sorted(FLAVOURS))
    n = rng.choice([0, 1, 1, 2, 3, 3, 4, 5, 6])
    vals, dtype = gen_values(rng, flavour, n)
    vals, muts = inject(rng, vals)
    if muts and dtype not in (None, "object", "float64", "Int64", "Float64",
                              "boolean", "string", "datetime64[ns]",
                              "timedelta64[ns]", "category"):
        dtype = "object"
    if "foreign" in muts:
        dtype = "object"
    shape = rng.choice(["series"] * 7 + ["index"] * 2 + ["frame"] * 2 + ["ndarray"])
    labels = None
    if shape in ("series", "frame") and rng.random() < 0.4:
        labels = rng.sample(["r0", "r1", "r2", "r3", "r4", "r5", "r6"], n) \
            if rng.random() < 0.5 else rng.sample(range(10, 30), n)
    name = rng.choice([None, "c", "col 1", 0])
    s = build_series(vals, dtype, labels, name)
    desc = {"flavour": flavour, "dtype": str(s.dtype), "shape": shape,
            "values": [vrepr(v) for v in s.tolist()],
            "labels": None if labels is None else list(map(str, labels)),
            "mutations": muts}
    if shape == "index":
        try:
            return pd.Index(s.array, name=name), desc
        except Exception:
            desc["shape"] = "series"
            return s, desc
    if shape == "frame":
        vals2, dtype2 = gen_values(rng, flavour, n)
        s2 = build_series(vals2, dtype2 if not muts else "object", labels, "d")
        df = pd.DataFrame({"c": s, "d": s2})
        desc["values2"] = [vrepr(v) for v in s2.tolist()]
        desc["dtype2"] = str(s2.dtype)
        return df, desc
    if shape == "ndarray":
        try:
            return s.to_numpy(), desc
        except Exception:
            desc["shape"] = "series"
            return s, desc
    return s, desc


# -- polars -----------------------------------------------------------------
PL_FLAVOURS = ["int", "bigint", "float", "bool", "numstr", "str", "date",
               "datetime", "datetime_tz", "duration", "list", "struct", "null",
               "catstr", "time", "binary", "decimal"]
PL_NEAR = {
    "int": ["int", "bigint", "float", "numstr", "bool", "str"],
    "float": ["float", "int", "numstr", "str", "bigint"],
    "bool": ["bool", "int", "float", "str"],
    "datetime": ["datetime", "datetime_tz", "date", "int", "str"],
    "timedelta": ["duration", "int", "str"],
    "date": ["date", "datetime", "str", "int"],
    "time": ["time", "int", "str"],
    None: ["str", "catstr", "numstr", "int", "list", "struct", "null", "float",
           "binary", "decimal", "bool"],
}


def gen_polars_column(rng, flavour, n):
    import polars as pl
    c = rng.choice
    if flavour == "int":
        dt = c([pl.Int64, pl.Int32, pl.Int8, pl.UInt8, pl.UInt64, pl.Int16])
        lim = {pl.Int8: 127, pl.UInt8: 255, pl.Int16: 32767, pl.Int32: 2**31 - 1}.get(dt, 2**53 + 1)
        lo = 0 if dt in (pl.UInt8, pl.UInt64) else -lim - (1 if lim < 2**53 else 0)
        pool = [v for v in INTS if lo <= v <= lim]
        return [c(pool) for _ in range(n)], dt
    if flavour == "bigint":
        return [c([2**63 - 1, -2**63, 2**53 + 1, 2**31, 300, -1, 0]) for _ in range(n)], pl.Int64
    if flavour == "float":
        return [c(FLOATS) for _ in range(n)], c([pl.Float64, pl.Float32])
    if flavour == "bool":
        return [c(BOOLS) for _ in range(n)], pl.Boolean
    if flavour == "numstr":
        return [c(NUMSTR) for _ in range(n)], pl.Utf8
    if flavour == "str":
        return [c(STRS + NUMSTR + DTSTR) for _ in range(n)], pl.Utf8
    if flavour == "catstr":
        return [c(["a", "b", "c", "1", "2", "abc"]) for _ in range(n)], pl.Utf8
    if flavour == "date":
        return [c(DATES) for _ in range(n)], pl.Date
    if flavour == "datetime":
        return [c(PYDT + [datetime.datetime(1970, 1, 1), datetime.datetime(2020, 6, 15, 12, 30, 0, 123456)])
                for _ in range(n)], pl.Datetime(c(["us", "ns", "ms"]))
    if flavour == "datetime_tz":
        return [c(PYDT) for _ in range(n)], pl.Datetime("us", c(["UTC", "Europe/Berlin"]))
    if flavour == "duration":
        return [c([datetime.timedelta(days=1), datetime.timedelta(0), datetime.timedelta(hours=-2),
                   datetime.timedelta(microseconds=1)]) for _ in range(n)], pl.Duration(c(["us", "ns", "ms"]))
    if flavour == "time":
        return [c([datetime.time(0, 0), datetime.time(12, 30, 15)]) for _ in range(n)], pl.Time
    if flavour == "list":
        return [c([[1, 2], [3], [], [1, 2, 3]]) for _ in range(n)], pl.List(pl.Int64)
    if flavour == "struct":
        return [c([{"a": 1, "b": "x"}, {"a": 2, "b": "y"}]) for _ in range(n)], \
            pl.Struct({"a": pl.Int64, "b": pl.Utf8})
    if flavour == "binary":
        return [c(BYTES) for _ in range(n)], pl.Binary
    if flavour == "decimal":
        return [c([D("1.50"), D("2.00"), D("-0.25")]) for _ in range(n)], pl.Decimal(10, 2)
    return [None] * n, pl.Null


def gen_polars_container(rng, kind):
    import polars as pl
    flavour = rng.choice(PL_NEAR.get(kind, PL_NEAR[None])) if rng.random() < 0.75 \
        else rng.choice(PL_FLAVOURS)
    n = rng.choice([0, 1, 1, 2, 3, 3, 4, 5])
    vals, dt = gen_polars_column(rng, flavour, n)
    muts = []
    if vals and rng.random() < 0.35:
        vals[rng.randrange(len(vals))] = None
        muts.append("null")
    two = rng.random() < 0.3
    data = {"c": pl.Series("c", vals, dtype=dt)}
    desc = {"flavour": flavour, "dtype": str(dt), "values": [vrepr(v) for v in vals],
            "mutations": muts}
    if two:
        vals2, dt2 = gen_polars_column(rng, flavour, n)
        data["d"] = pl.Series("d", vals2, dtype=dt2)
        desc["values2"] = [vrepr(v) for v in vals2]
        desc["dtype2"] = str(dt2)
    key = rng.choice(["c", "c", "c", None if two else "c", None])
    desc["key"] = key
    return pl.DataFrame(data), key, desc
