"""C18, part 3 — validation depth.

For a generated (S, D) the real pandera verdicts are compared:

  R1  accept(S, D | SCHEMA_ONLY) == accept(schema_part(S), D | full)
  R2  accept(S, D | DATA_ONLY)   == accept(data_part(S),   D | full)
  R3  accept(S, D | full)        <=> accept under SCHEMA_ONLY and DATA_ONLY
  R4  polars defaults: DataFrame == full, LazyFrame == schema_part(S)
  R5  validation disabled: validate returns the very argument, unchanged

Which constraint is schema-level and which is data-level is taken from the
DOCUMENTATION, not from the code:
  docs/source/configuration.md: "schema-level validations (column names and
  datatypes), data-level validations (checks on actual values)";
  docs/source/error_report.md: DATA_ONLY "validates that data conforms to the
  defined `checks`, but does not validate the schema";
  docs/source/polars.md: a LazyFrame gets "validations at the schema-level,
  e.g. column names and data types" (whatever needs no ``collect()``).
So: schema-level = column presence (required / regex), strict, ordered,
unique column names, series / index names, dtypes.  data-level = ``Check``s
(column, index, frame), ``unique`` (column, index, joint).  Nullability is
stated inconsistently (pandas treats it as schema-level, polars needs a
collect for it) -> tables never contain nulls, so ``nullable`` has no effect
on any verdict.  Coercion / defaults / add_missing_columns / strict='filter'
are parsers whose level is not documented -> not judged by R1/R2 (R5 does use
coercing schemas: a disabled validation must not parse either).  strict='filter'
is generated in a separate family (undeclared columns that a whole-frame check
trips over unless they were filtered) which is judged by R3/R4 only.
"""
from __future__ import annotations

import copy
import operator

import numpy as np  # noqa: F401
import pandas as pd  # noqa: F401

from . import harness as H, model as M, snap as S
from .gen import build as B, spec as G

DEPTHS = ("SCHEMA_ONLY", "DATA_ONLY", "SCHEMA_AND_DATA")
OPS = {"ge": operator.ge, "gt": operator.gt, "le": operator.le,
       "lt": operator.lt, "ne": operator.ne}


# ---------------------------------------------------------------- generator
def _fields(spec):
    if spec["kind"] == "series":
        yield spec["field"]
    else:
        yield from spec["columns"]
    for fs in spec.get("index") or []:
        yield fs


def has_null(table):
    for c in table["columns"]:
        if any(v is None for v in c["values"]):
            return True
    for lv in (table.get("index") or {}).get("levels", []):
        if any(v is None for v in lv["values"]):
            return True
    return False


def gen_case(rng, neutral):
    """(spec, table, mutations) without nulls; adds frame-level checks."""
    for _ in range(20):
        spec = G.gen_spec(rng, neutral=neutral)
        for fs in _fields(spec):
            fs["nullable"] = False
            for c in fs["checks"]:
                c["ignore_na"] = True
        spec["frame_checks"] = []
        table = G.gen_table(rng, spec)
        if spec["kind"] == "frame" and rng.random() < 0.35:
            num = [c for c in table["columns"]
                   if c["phys"] in ("int64", "float64") and c["values"]]
            # unique labels only: df[c] must be a Series
            labels = [c["name"] for c in table["columns"]]
            num = [c for c in num if labels.count(c["name"]) == 1]
            if num:
                c = rng.choice(num)
                k = rng.choice(sorted(OPS))
                if rng.random() < 0.6:      # satisfied by construction
                    v = {"ge": min, "gt": lambda x: min(x) - 1, "le": max,
                         "lt": lambda x: max(x) + 1,
                         "ne": lambda x: max(x) + 1}[k](c["values"])
                else:
                    v = rng.choice(c["values"])
                spec["frame_checks"].append(
                    {"col": c["name"], "kind": k, "value": v})
        muts = []
        if rng.random() < 0.6:
            muts = G.mutate(rng, spec, table)
        if spec["kind"] == "frame" and rng.random() < 0.3:
            # targeted: a declared regex column without any matching label
            for fs in spec["columns"]:
                if fs["regex"]:
                    keep = [c for c in table["columns"]
                            if not M.match_regex(fs["name"], c["name"])]
                    if len(keep) != len(table["columns"]) and keep:
                        table["columns"] = keep
                        muts.append(("regex_absent", fs["name"]))
        if spec["kind"] == "frame" and rng.random() < 0.18:
            # parser under depth: strict='filter' with undeclared columns that a
            # whole-frame check would trip over if they were not filtered out.
            # Only R3/R4 are judged for these cases (the level of the parser is
            # not documented, the full <=> SO and DO relation is).
            names = {c["name"] for c in table["columns"]}
            n = len(table["columns"][0]["values"]) if table["columns"] else 0
            if n and not any(fs["regex"] for fs in spec["columns"]):
                spec["strict"] = "filter"
                spec["ordered"] = False
                for j in range(rng.choice((1, 1, 2))):
                    nm = f"zz_extra{j}"
                    if nm in names:
                        continue
                    phys = rng.choice(("str", "int64", "float64"))
                    vals = {"str": [rng.choice("xyz") for _ in range(n)],
                            "int64": [rng.randrange(-9, -1) for _ in range(n)],
                            "float64": [-1.5 - i for i in range(n)]}[phys]
                    pos = rng.randrange(len(table["columns"]) + 1)
                    table["columns"].insert(
                        pos, {"name": nm, "phys": phys, "values": vals})
                    muts.append(("undeclared_for_filter", nm, phys))
                spec["frame_checks"].append(
                    {"col": None, "kind": "whole_frame_numeric_ge", "value": -1})
        if has_null(table):
            continue
        return spec, table, muts
    raise RuntimeError("could not draw a null-free case")


def add_subsample_family(rng, spec, table):
    """Subsampling under depth: a null (or a bad value) in rows that the
    head / tail / sample option may leave out.  Which level nullability
    belongs to is not documented, but R3 (full <=> SCHEMA_ONLY and DATA_ONLY)
    does not depend on that - only on the rows being selected in the same way
    at every depth.  -> validate kwargs, or None when the case does not fit."""
    cols = table["columns"]
    n = len(cols[0]["values"]) if cols else 0
    if n < 3 or (table.get("index") or {}).get("levels"):
        return None
    holders = [c for c in cols if c["phys"] in ("float64", "str", "datetime")]
    if holders and rng.random() < 0.8:
        c = rng.choice(holders)
        where = rng.choice(["last", "first", "middle"])
        i = {"last": n - 1, "first": 0, "middle": n // 2}[where]
        c["values"][i] = None
    k = rng.choice(["head", "tail", "sample", "head+tail"])
    if k == "head":
        return {"head": rng.randint(1, n - 1)}
    if k == "tail":
        return {"tail": rng.randint(1, n - 1)}
    if k == "sample":
        return {"sample": rng.randint(1, n - 1), "random_state": rng.randrange(5)}
    return {"head": 1, "tail": 1}


# ---------------------------------------------------------------- restriction
def _mark(spec):
    s = copy.deepcopy(spec)
    for fs in _fields(s):
        fs.setdefault("arg_dtype", fs["dtype"])
    return s


def schema_part(spec):
    s = _mark(spec)
    for fs in _fields(s):
        fs["checks"] = []
        fs["unique"] = False
    if s["kind"] == "frame":
        s["unique"] = None
        s["frame_checks"] = []
    return s


def data_part(spec):
    s = _mark(spec)
    for fs in _fields(s):
        fs["dtype"] = None
    if s["kind"] == "series":
        s["field"]["name"] = None
    else:
        for fs in s["columns"]:
            fs["required"] = False
        s["strict"] = False
        s["ordered"] = False
        s["unique_column_names"] = False
        s["dtype"] = None
    for fs in s.get("index") or []:
        if len(s["index"]) == 1:
            fs["name"] = None
    return s


def n_schema_constraints(spec):
    n = 0
    for fs in _fields(spec):
        n += fs["dtype"] is not None
    if spec["kind"] == "frame":
        n += sum(1 for c in spec["columns"] if c["required"])
        n += bool(spec["strict"]) + bool(spec["ordered"]) \
            + bool(spec["unique_column_names"])
    return n


def n_data_constraints(spec):
    n = sum(len(fs["checks"]) + bool(fs["unique"]) for fs in _fields(spec))
    if spec["kind"] == "frame":
        n += bool(spec["unique"]) + len(spec.get("frame_checks") or [])
    return n


# ---------------------------------------------------------------- builders
def _fk(pa, fs, polars=False, force_coerce=False):
    ad = fs.get("arg_dtype", fs["dtype"])
    kw = dict(checks=[B.build_check(pa, ad, c) for c in fs.get("checks", [])],
              nullable=fs.get("nullable", False), unique=fs.get("unique", False),
              coerce=force_coerce or fs.get("coerce", False))
    if not polars:
        kw["report_duplicates"] = fs.get("report_duplicates", "all")
    return kw


def _pd_frame_check(pa, fc):
    if fc["kind"] == "whole_frame_numeric_ge":
        v = fc["value"]

        def whole(df):
            bad = [c for c in df.columns if df[c].dtype.kind not in "iufb"]
            if bad:
                return False
            num = df.select_dtypes("number")
            return bool((num.min().min() >= v)) if num.size else True
        return pa.Check(whole, name="frame_whole_numeric_ge")
    op, col, v = OPS[fc["kind"]], fc["col"], fc["value"]
    return pa.Check(lambda df: op(df[col], v),
                    name=f"frame_{fc['kind']}_{col}")


def _pl_frame_check(pp, fc):
    import polars as pl
    if fc["kind"] == "whole_frame_numeric_ge":
        v = fc["value"]

        def whole(data):
            df = data.lazyframe.collect()
            if any(not (t.is_numeric() or t == pl.Boolean) for t in df.dtypes):
                return False
            return all(df[c].cast(pl.Float64).min() is None
                       or df[c].cast(pl.Float64).min() >= v for c in df.columns)
        return pp.Check(whole, name="frame_whole_numeric_ge")
    op, col, v = OPS[fc["kind"]], fc["col"], fc["value"]
    return pp.Check(lambda data: data.lazyframe.select(op(pl.col(col), v)),
                    name=f"frame_{fc['kind']}_{col}")


def pandas_schema(spec, force_coerce=False):
    import pandera as pa
    index = None
    if spec.get("index"):
        levels = [pa.Index(B.pd_dtype(fs["dtype"]), name=fs["name"],
                           **_fk(pa, fs, force_coerce=force_coerce))
                  for fs in spec["index"]]
        index = levels[0] if len(levels) == 1 else pa.MultiIndex(levels)
    if spec["kind"] == "series":
        fs = spec["field"]
        return pa.SeriesSchema(B.pd_dtype(fs["dtype"]), name=fs["name"],
                               index=index,
                               **_fk(pa, fs, force_coerce=force_coerce))
    cols = {}
    for fs in spec["columns"]:
        cols[fs["name"]] = pa.Column(
            B.pd_dtype(fs["dtype"]), required=fs.get("required", True),
            regex=fs.get("regex", False),
            **_fk(pa, fs, force_coerce=force_coerce))
    return pa.DataFrameSchema(
        cols, index=index, strict=spec.get("strict", False),
        ordered=spec.get("ordered", False), unique=spec.get("unique"),
        report_duplicates=spec.get("report_duplicates", "all"),
        unique_column_names=spec.get("unique_column_names", False),
        checks=[_pd_frame_check(pa, fc) for fc in spec.get("frame_checks") or []],
        coerce=force_coerce,
    )


def polars_schema(spec, force_coerce=False):
    import pandera.polars as pp
    cols = {}
    for fs in spec["columns"]:
        ad = fs.get("arg_dtype", fs["dtype"])
        cols[fs["name"]] = pp.Column(
            B.pl_dtype(fs["dtype"]),
            checks=[getattr(pp.Check, c["kind"])(**B._pl_args(ad, c["args"]))
                    for c in fs.get("checks", [])],
            nullable=fs.get("nullable", False), unique=fs.get("unique", False),
            coerce=force_coerce, required=fs.get("required", True))
    return pp.DataFrameSchema(
        cols, strict=spec.get("strict", False),
        ordered=spec.get("ordered", False), unique=spec.get("unique"),
        checks=[_pl_frame_check(pp, fc) for fc in spec.get("frame_checks") or []],
        coerce=force_coerce,
    )


# ---------------------------------------------------------------- execution
def verdict(schema, obj, depth, lazy, vkw=None):
    """Real pandera verdict under ``depth`` (None = no context = defaults).
    ``vkw``: head / tail / sample / random_state passed on to validate.
    -> ('accept'|'reject'|'exc', Outcome)"""
    import polars as pl
    import pandera.config as c

    def go():
        out = H.run_validate(schema, obj, lazy=lazy, **(vkw or {}))
        if out.kind == "ok" and isinstance(out.result, pl.LazyFrame):
            try:
                out.result.collect()
            except Exception as e:  # noqa: BLE001
                out.kind, out.exc = "exc", e
        return out
    if depth is None:
        out = go()
    else:
        with c.config_context(validation_depth=c.ValidationDepth[depth]):
            out = go()
    v = {"ok": "accept", "SchemaError": "reject", "SchemaErrors": "reject",
         "exc": "exc"}[out.kind]
    return v, out


def all_errors(schema, obj, depth):
    """(reason, schema-context class) of every error under ``depth``, lazily
    collected — used only to classify a violation by mechanism."""
    v, out = verdict(schema, obj, depth, lazy=True)
    return sorted({(e.reason, e.context) for e in out.errors})


def classify(backend, relation, errs):
    """Mechanism keys for a violated relation, from the errors pandera raised
    although the documented depth excludes them.  One key per call site."""
    reasons = {r for r, _ in errs}
    if not errs:
        return [None]
    if relation == "R1" and reasons <= {"DATAFRAME_CHECK", "CHECK_ERROR"} \
            and backend == "pandas":
        keys = []
        for ctx in sorted({c for _, c in errs}):
            if ctx == "Column":
                keys.append("pandas-ColumnBackend.run_checks-ignores-validation-depth")
            elif ctx in ("DataFrameSchema", "MultiIndex"):
                keys.append("pandas-DataFrameSchemaBackend.run_checks-ignores-validation-depth")
            else:
                keys.append(None)
        return keys
    if relation == "R2":
        # schema-level constraints still enforced under DATA_ONLY, by call site
        site = {"COLUMN_NOT_IN_SCHEMA": "strict_filter_columns",
                "COLUMN_NOT_ORDERED": "strict_filter_columns",
                "INVALID_COLUMN_NAME": "regex-column-presence"}
        keys = []
        for r in sorted(reasons):
            k = (f"{backend}-{site[r]}-ignores-validation-depth"
                 if r in site else None)
            if k not in keys:
                keys.append(k)
        return keys
    return [None]
