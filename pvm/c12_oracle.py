"""C12 oracle: run the real writers / readers and compare what comes back.

For one spec and one route (yaml | json | script) ``evaluate`` executes
    text = write(S); S2 = read(text); text2 = write(S2)
on a freshly built schema ``S`` and compares S2 with a pristine twin ``S0``
(built from the same spec, never handed to any pandera writer):

  * pandera's own ``S2 == S0``                                  (eq-false)
  * projection of both on the serialisable attributes the property statement
    lists, leaves typed with ``pvm.fingerprint``                (proj:<locus>)
  * ``text2 == text``                                           (text-2nd-gen-differs)
  * verdicts of S2 and S0 on probe frames: accept / set of (reason, column)
    / number of reported failure cases                         (verdict-differs)
  * writing the same object twice gives the same text          (write-not-repeatable)
  * the writer must not change S in a serialisable attribute: fingerprint of S
    after the writer == fingerprint of S0, and a YAML text produced *before*
    ``to_script`` must still read back equal to S afterwards
                            (source-mutated, earlier-yaml-unequal-after-writer)
  * any exception in write / read / rewrite                     (<stage>-exc:<Type>)
  * the file form of the route (``to_yaml(S, path)`` / ``to_json(S, path)``
    / ``to_script(S, path)``, then ``from_yaml(path)`` / ``from_json(Path)``
    / exec of the file) when the string form held: the file reads back
    equal to S0 and writing what was read gives the same file
                         (file-exc:<Type>, file-read-differs, file-2nd-gen-differs)

``minimise`` removes spec features one at a time (real re-executions) while a
given failure kind persists, so that the classifier sees a minimal witness.
"""
from __future__ import annotations

import atexit
import copy
import itertools
import json
import os
import shutil
import tempfile
from pathlib import Path

from . import fingerprint as F, harness as H, snap as SN
from . import c12_gen as G
from .evidence import canon_hash

ROUTES = ("yaml", "json", "script")


# ---------------------------------------------------------------------------
# projection on the serialisable attributes

def _leaf(v):
    from pandera.dtypes import DataType
    if v is None or isinstance(v, (bool, int, float, str)):
        return v
    if isinstance(v, (list, tuple)):
        # list vs tuple is visible to pandera's == as well
        return {"__seq__": type(v).__name__, "items": [_leaf(x) for x in v]}
    if isinstance(v, (set, frozenset)):
        return {"__set__": type(v).__name__,
                "items": sorted((repr(_leaf(x)) for x in v))}
    if isinstance(v, dict):
        return {repr(k): _leaf(x) for k, x in v.items()}
    if isinstance(v, DataType):
        d = F.fp(v, ident=False)
        return "dtype:" + json.dumps(d, sort_keys=True, default=repr)
    return f"<{type(v).__name__}> {v!r}"


def _check_proj(c):
    from pandera.api.base.checks import BaseCheck
    if not isinstance(c, BaseCheck):     # e.g. a dict key left by a template
        return {"name": f"<not a Check: {type(c).__name__}> {c!r}"[:120],
                "statistics": None, "ignore_na": None, "raise_warning": None,
                "n_failure_cases": None}
    return {"name": c.name,
            "statistics": _leaf(c.statistics),
            "ignore_na": c.ignore_na,
            "raise_warning": c.raise_warning,
            "n_failure_cases": c.n_failure_cases}


def _comp_proj(c, column):
    d = {"name": _leaf(c.name), "dtype": _leaf(c.dtype),
         "nullable": c.nullable, "unique": c.unique, "coerce": c.coerce,
         "title": _leaf(c.title), "description": _leaf(c.description),
         "checks": [_check_proj(k) for k in c.checks]}
    if column:
        d["required"] = c.required
        d["regex"] = c.regex
    return d


def proj(schema):
    """Serialisable attributes (property statement) of a DataFrameSchema."""
    from pandera import MultiIndex
    cols = schema.columns or {}
    out = {
        "frame": {
            "dtype": _leaf(schema.dtype), "coerce": schema.coerce,
            "strict": _leaf(schema.strict), "name": _leaf(schema.name),
            "ordered": schema.ordered, "unique": _leaf(schema.unique),
            "title": _leaf(schema.title),
            "description": _leaf(schema.description),
            # serialised by pandera although not named in the statement
            "report_duplicates": _leaf(schema.report_duplicates),
            "unique_column_names": schema.unique_column_names,
            "add_missing_columns": schema.add_missing_columns,
            "checks": [_check_proj(k) for k in schema.checks],
        },
        "colkeys": [repr(k) for k in cols],
        "col": {repr(k): _comp_proj(c, True) for k, c in cols.items()},
    }
    ix = schema.index
    if ix is None:
        out["idxkind"] = None
        out["idx"] = []
    elif isinstance(ix, MultiIndex):
        out["idxkind"] = "MultiIndex"
        out["idx"] = [_comp_proj(x, False) for x in ix.indexes]
    else:
        out["idxkind"] = "Index"
        out["idx"] = [_comp_proj(ix, False)]
    return out


def all_diffs(a, b, path=(), out=None):
    """Every differing leaf: list of (path tuple, a, b, type_only)."""
    if out is None:
        out = []
    if isinstance(a, dict) and isinstance(b, dict):
        for k in list(a) + [k for k in b if k not in a]:
            if k not in a or k not in b:
                out.append((path + (k,), a.get(k, "<absent>"),
                            b.get(k, "<absent>"), False))
            else:
                all_diffs(a[k], b[k], path + (k,), out)
        return out
    if isinstance(a, list) and isinstance(b, list):
        if len(a) != len(b):
            out.append((path + ("len",), len(a), len(b), False))
        for i, (x, y) in enumerate(zip(a, b)):
            all_diffs(x, y, path + (i,), out)
        return out
    if type(a) is not type(b):
        both_num = all(isinstance(v, (int, float)) and not isinstance(v, bool)
                       for v in (a, b))
        out.append((path, a, b, bool(both_num and a == b)))
    elif a != b or (isinstance(a, float) and repr(a) != repr(b)):
        # -0.0 vs 0.0: == says equal, the text differs -> type_only class
        out.append((path, a, b, a == b))
    return out


def locus(path):
    """Generalise a projection path: drop keys / positions."""
    p = list(path)
    if not p:
        return "root"
    if p[0] == "frame":
        rest = p[1:]
        head = "frame"
    elif p[0] == "col":
        rest = p[2:]
        head = "col"
    elif p[0] == "idx":
        rest = p[2:] if len(p) > 1 and isinstance(p[1], int) else p[1:]
        head = "idx"
    else:
        return str(p[0]) if len(p) == 1 else f"{p[0]}.{p[-1]}"
    names = []
    for x in rest:
        if isinstance(x, int):
            continue
        if x == "items" or x in ("__seq__", "__set__"):
            names.append("seq" if x != "items" else "items")
            continue
        names.append(str(x).strip("'"))
    return ".".join([head] + names[:3])


# ---------------------------------------------------------------------------
# verdicts

def verdict(schema, df):
    out = H.run_validate(schema, df.copy(deep=True), lazy=True)
    if out.kind == "ok":
        return ["ok", canon_hash(SN.snap(out.result))]
    if out.kind == "exc":
        return ["exc", type(out.exc).__name__]
    # n_failure_cases is a serialised check option whose only effect is the
    # number of failure cases reported: the report size is part of the verdict
    n = None
    if out.kind == "SchemaErrors":
        try:
            n = int(len(out.failure_cases))
        except Exception:
            n = None
    return [out.kind, sorted({(e.reason, repr(e.column)) for e in out.errors}),
            n]


def verdict_vector(schema, probes):
    return [verdict(schema, d) for d in probes]


# ---------------------------------------------------------------------------
# routes

def _write(route, schema):
    import pandera.io as io
    return {"yaml": io.to_yaml, "json": io.to_json,
            "script": io.to_script}[route](schema)


def _read(route, text):
    import pandera.io as io
    if route == "yaml":
        return io.from_yaml(text)
    if route == "json":
        return io.from_json(text)
    ns = {}
    exec(compile(text, "<to_script>", "exec"), ns)  # pandera's own output
    return ns["schema"]


_scratch = {"dir": None, "n": itertools.count()}


def _scratch_path(ext):
    """A fresh file name in a per-process scratch directory (removed at
    exit; nothing is read from it that this process did not just write)."""
    if _scratch["dir"] is None or not os.path.isdir(_scratch["dir"]):
        _scratch["dir"] = tempfile.mkdtemp(prefix="pvm_c12_")
        atexit.register(shutil.rmtree, _scratch["dir"], ignore_errors=True)
    return os.path.join(_scratch["dir"],
                        f"schema_{next(_scratch['n'])}.{ext}")


def _file_route(route, S, S0, r):
    """File form of one route, judged only when the string form held: what
    is read from the written file equals the original, and writing that to a
    second file gives the same file.  (That the file holds the same text as
    the string form is not promised and not judged.)"""
    import pandera.io as io
    ext = {"yaml": "yaml", "json": "json", "script": "py"}[route]
    writer = {"yaml": io.to_yaml, "json": io.to_json,
              "script": io.to_script}[route]
    p1, p2 = _scratch_path(ext), _scratch_path(ext)

    def slurp(path):
        with open(path, "rb") as f:
            return f.read()

    def read(path):
        if route == "yaml":
            return io.from_yaml(path)
        if route == "json":
            return io.from_json(Path(path))
        ns = {}
        exec(compile(slurp(path).decode("utf-8"), "<to_script file>",
                     "exec"), ns)
        return ns["schema"]

    try:
        try:
            writer(S, p1)
            b1 = slurp(p1)
        except Exception as e:
            r.fail(f"file-exc:{type(e).__name__}", "write: " + _exc(e))
            return
        r.stages.append("file-write")
        try:
            S3 = read(p1)
        except Exception as e:
            r.fail(f"file-exc:{type(e).__name__}", "read: " + _exc(e))
            return
        r.stages.append("file-read")
        r.monitors.append("file-read-equals-original")
        dm = [x for x in all_diffs(proj(S0), proj(S3)) if not x[3]]
        try:
            eq = bool(S3 == S0)
        except Exception:
            eq = False
        if dm or not eq:
            r.fail("file-read-differs", {
                "path": ".".join(map(str, dm[0][0])) if dm else "==",
                "orig": dm[0][1] if dm else None,
                "back": dm[0][2] if dm else None})
        try:
            writer(S3, p2)
            b2 = slurp(p2)
        except Exception as e:
            r.fail(f"file-exc:{type(e).__name__}", "rewrite: " + _exc(e))
            return
        r.monitors.append("file-second-generation")
        if b2 != b1:
            r.fail("file-2nd-gen-differs", _first_text_diff(
                b1.decode("utf-8", "replace"), b2.decode("utf-8", "replace")))
    finally:
        for p in (p1, p2):
            try:
                os.unlink(p)
            except OSError:
                pass


class Result:
    def __init__(self):
        self.kinds = []        # failure kind strings (ordered, unique)
        self.detail = {}       # kind -> small witness detail
        self.undecided = []    # classes not judged
        self.stages = []       # stages reached (for evidence counters)
        self.text = None
        self.monitors = []     # deciding monitors that were evaluated

    def fail(self, kind, detail=None):
        if kind not in self.kinds:
            self.kinds.append(kind)
            self.detail[kind] = detail


def _exc(e):
    msg = str(e).replace("\n", " ")
    return f"{type(e).__name__}: {msg[:220]}"


def evaluate(spec, route, probes=None, twin_verdicts=None, want=None,
             file_route=False):
    """Execute one route on a fresh build of ``spec``.

    ``want``: when given (a failure kind), stop as soon as it is decided and
    skip monitors that cannot produce it (used by the minimiser).
    ``file_route``: also run the file form of the route (always when ``want``
    is a file-* kind).
    """
    if want is not None:
        file_route = want.startswith("file-")
    r = Result()
    try:
        S = G.build(spec)
        S0 = G.build(spec)
    except Exception as e:  # spec not buildable: no case
        r.undecided.append("build-error:" + type(e).__name__)
        return r
    need = lambda *prefixes: want is None or want.startswith(prefixes)
    fp0 = F.fp(S0, ident=False)
    y_before = None
    if route == "script" and need("earlier-yaml"):
        try:
            import pandera.io as io
            y_before = io.to_yaml(S)
            if F.diff(F.fp(S, ident=False), fp0):
                y_before = None      # yaml writer itself left a trace
        except Exception:
            y_before = None
    # ---- write
    try:
        text = _write(route, S)
    except Exception as e:
        if isinstance(e, ValueError) and "are incompatible, reason: min " \
                "value" in str(e):
            # parse_checks deliberately refuses a contradictory
            # greater_than_or_equal_to / less_than_or_equal_to pair; such a
            # schema is not "built from serialisable parts" -> not judged
            r.undecided.append("writer-refuses-contradictory-ge-le-pair")
            return r
        r.fail(f"write-exc:{type(e).__name__}", _exc(e))
        text = None
    r.stages.append("write")
    if need("source-mutated"):
        r.monitors.append("source-unchanged")
        # judged on the serialisable attributes only (a private cache on the
        # schema object would not contradict the statement)
        dm = [x for x in all_diffs(proj(S0), proj(S)) if not x[3]]
        if dm:
            r.fail("source-mutated",
                   {"serialisable_attribute_changed": ".".join(
                       map(str, dm[0][0])),
                    "first_fingerprint_difference": F.diff(
                        F.fp(S, ident=False), fp0),
                    "check_statistics_keys_added": _added_stat_keys(S, S0)})
    if text is None:
        return r
    r.text = text
    if want is not None and want in r.kinds:
        return r
    if need("write-not-repeatable"):
        # to_yaml(S) must be a function of S for "the same text" to mean
        # anything: writing the same object again gives the same text
        r.monitors.append("write-repeatable")
        try:
            again = _write(route, S)
            if again != text:
                r.fail("write-not-repeatable", _first_text_diff(text, again))
        except Exception as e:
            r.fail("write-not-repeatable", _exc(e))
        if want is not None and want in r.kinds:
            return r
    if y_before is not None:
        r.monitors.append("earlier-yaml-still-equal")
        try:
            import pandera.io as io
            Sy = io.from_yaml(y_before)
            if Sy == S0 and not Sy == S:
                r.fail("earlier-yaml-unequal-after-writer",
                       {"first_fingerprint_difference": F.diff(
                           F.fp(Sy, ident=False), F.fp(S, ident=False)),
                        "check_statistics_keys_added": _added_stat_keys(S, S0)})
        except Exception:
            pass
    # ---- read
    try:
        S2 = _read(route, text)
    except Exception as e:
        r.fail(f"read-exc:{type(e).__name__}", _exc(e))
        return r
    r.stages.append("read")
    if need("eq-false"):
        r.monitors.append("pandera-eq")
        try:
            eq = bool(S2 == S0)
        except Exception as e:
            eq = False
            r.detail["eq-exc"] = _exc(e)
        if not eq:
            r.fail("eq-false", None)
    if need("proj:", "eq-false"):
        r.monitors.append("projection")
        diffs = all_diffs(proj(S0), proj(S2))
        for path, a, b, type_only in diffs:
            if type_only:
                r.undecided.append("projection-type-only-difference")
                continue
            r.fail("proj:" + locus(path),
                   {"path": ".".join(map(str, path)), "orig": a, "back": b})
    if want is not None and want in r.kinds:
        return r
    # ---- second generation text
    if need("text-2nd", "rewrite-exc"):
        try:
            text2 = _write(route, S2)
            r.stages.append("rewrite")
            r.monitors.append("second-generation-text")
            if text2 != text:
                r.fail("text-2nd-gen-differs", _first_text_diff(text, text2))
        except Exception as e:
            r.fail(f"rewrite-exc:{type(e).__name__}", _exc(e))
    # ---- verdicts
    if probes and need("verdict"):
        if twin_verdicts is None:
            twin_verdicts = verdict_vector(S0, probes)
        r.monitors.append("verdict-vector")
        v2 = verdict_vector(S2, probes)
        for i, (a, b) in enumerate(zip(twin_verdicts, v2)):
            if a != b:
                r.fail("verdict-differs", {"probe": i, "orig": a, "back": b})
                break
    # ---- file form (only when the string form held: one cause, one report)
    if file_route and not r.kinds:
        _file_route(route, S, S0, r)
    return r


def _all_checks(schema):
    from pandera import MultiIndex
    out = list(schema.checks)
    for c in (schema.columns or {}).values():
        out += list(c.checks)
    ix = schema.index
    if ix is not None:
        for lv in (ix.indexes if isinstance(ix, MultiIndex) else [ix]):
            out += list(lv.checks)
    return out


def _added_stat_keys(S, S0):
    """Keys present in a check's statistics of S but not in its twin's."""
    added = set()
    try:
        for a, b in zip(_all_checks(S), _all_checks(S0)):
            added.update(set(a.statistics or {}) - set(b.statistics or {}))
    except Exception as e:
        return [f"!{type(e).__name__}"]
    return sorted(map(str, added))


def _first_text_diff(a, b):
    la, lb = a.splitlines(), b.splitlines()
    for i, (x, y) in enumerate(zip(la, lb)):
        if x != y:
            return {"line": i, "first": x[:160], "second": y[:160]}
    return {"line": min(len(la), len(lb)), "first": f"{len(la)} lines",
            "second": f"{len(lb)} lines"}


# ---------------------------------------------------------------------------
# minimisation (delta debugging over spec features, real re-executions)

def _exists(spec, path):
    cur = spec
    for p in path:
        try:
            cur = cur[p]
        except (KeyError, IndexError, TypeError):
            return False
        if cur is None and p == "index":
            return False
    return True


def removal_order(spec):
    """Feature paths ordered so that a removal never shifts a later path."""
    out = []

    def comp(part, i, c, dflts):
        out.append((part, i))
        for j in reversed(range(len(c["checks"]))):
            out.append((part, i, "checks", j))
            for o in sorted(c["checks"][j]["opts"]):
                out.append((part, i, "checks", j, "opts", o))
        for k, dflt in dflts.items():
            if k not in ("checks", "name") and c[k] != dflt:
                out.append((part, i, k))
        if (part == "columns" and not G.benign_name(c["name"])) or \
                (part == "index" and c["name"] is not None):
            out.append((part, i, "name"))

    if spec["index"]:
        out.append(("index",))
        for i in reversed(range(len(spec["index"]))):
            comp("index", i, spec["index"][i], G.IDX_DEFAULT)
    for i in reversed(range(len(spec["columns"]))):
        comp("columns", i, spec["columns"][i], G.COL_DEFAULT)
    for j in reversed(range(len(spec["checks"]))):
        out.append(("checks", j))
        for o in sorted(spec["checks"][j]["opts"]):
            out.append(("checks", j, "opts", o))
    for k, dflt in G.FRAME_DEFAULT.items():
        if k != "checks" and spec[k] != dflt:
            out.append((k,))
    return out


def minimise(spec, route, kind, probes_for=None, budget=60):
    """Return (minimal spec, needed paths of the original spec, n_evals)."""
    cur = copy.deepcopy(spec)
    needed = []
    n = 0
    for path in removal_order(spec):
        if n >= budget:
            needed.append(path)
            continue
        if not _exists(cur, path):
            continue
        if len(path) == 3 and path[2] == "dtype" and \
                cur[path[0]][path[1]]["checks"]:
            # the dtype gives the remaining check statistics their meaning;
            # dropping it would create a different failure, not a smaller one
            needed.append(path)
            continue
        cand = G.neutralise(cur, path)
        if cand is None or cand == cur:
            continue
        probes = probes_for(cand) if (probes_for and
                                      kind.startswith("verdict")) else None
        n += 1
        try:
            r = evaluate(cand, route, probes=probes, want=kind)
            still = kind in r.kinds
        except Exception:
            still = False
        if still:
            cur = cand
        else:
            needed.append(path)
    return cur, needed, n


def strip(spec, paths):
    """Original spec with the given (original) paths neutralised."""
    cur = copy.deepcopy(spec)
    order = {p: i for i, p in enumerate(removal_order(spec))}
    for p in sorted(paths, key=lambda p: order.get(p, 1 << 30)):
        if _exists(cur, p):
            c = G.neutralise(cur, p)
            if c is not None:
                cur = c
    return cur
