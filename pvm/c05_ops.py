"""Operation alphabet for C05 histories.

``gen_op(rng, built, nprobes)`` returns a JSON-able op description;
``apply(op, built, probes)`` executes it against the schema under observation
with the real pandera code and returns a short outcome label.  Ops may raise;
the driver records that and does not judge it (C05 only watches the schema).
"""
from __future__ import annotations

import copy
import pickle
import warnings

from . import c05_gen as G

VALIDATING = {"validate", "call", "model_validate", "model_call", "check_input",
              "check_output", "check_types", "validate_cfg", "derived_validate",
              "probe", "coerce_dtype", "get_dtypes", "call_check",
              "reuse_validate", "overlap"}

# weights: cheap, state-touching ops dominate; hypothesis ops are rare
_W = [
    ("validate", 30), ("call", 3), ("validate_cfg", 3), ("coerce_dtype", 4),
    ("to_yaml", 4), ("to_json", 3), ("to_script", 4), ("statistics", 5),
    ("yaml_roundtrip_eq", 2),
    ("str", 2), ("repr", 2), ("eq_twin", 3), ("eq_other", 1),
    ("deepcopy", 3), ("copy", 1), ("pickle", 3),
    ("get_dtypes", 2), ("dtypes", 1), ("get_metadata", 1), ("properties", 1),
    ("call_check", 2),
    ("transform", 12), ("derived_validate", 6),
    ("check_input", 2), ("check_output", 2),
    ("model_validate", 6), ("model_call", 2), ("model_to_schema", 3),
    ("model_to_yaml", 2), ("model_misc", 5), ("check_types", 3),
    ("strategy", 1), ("example", 1.5), ("model_example", 0.5),
    # histories that let the SAME data object meet the SAME schema object again
    ("reuse_validate", 26), ("reuse_edit", 5),
    # two overlapping validations of one schema object (deterministic scheduler)
    ("overlap", 1.5),
]
# dtype-less columns: drawing data is the only operation that resolves their
# dtype; on such schemas the hypothesis operations are made frequent (they are
# cheap there: the unchanged tree refuses the draw with SchemaDefinitionError)
HYP_BOOST_DTYPE_LESS = 10
REUSE_VIA = ["validate"] * 7 + ["call", "check_input", "check_output"]
MODEL_ONLY = {"model_validate", "model_call", "model_to_schema", "model_to_yaml",
              "model_misc", "check_types", "model_example"}
FRAME_ONLY = {"to_yaml", "to_json", "to_script", "yaml_roundtrip_eq", "get_dtypes",
              "dtypes", "get_metadata", "check_input", "check_output"}
TRANSFORMS = ["add_columns", "remove_columns", "update_column", "update_columns",
              "rename_columns", "select_columns", "set_index", "reset_index"]


def gen_op(rng, built, nprobes, allow_hypothesis=True, allow_threads=True):
    spec = built.spec
    kind, backend = spec["kind"], spec["backend"]
    is_frame = kind in ("frame", "model")
    names, weights = [], []
    for n, w in _W:
        if n in MODEL_ONLY and kind != "model":
            continue
        if n in FRAME_ONLY and not is_frame:
            continue
        if n in ("strategy", "example", "model_example") and (
                not allow_hypothesis or backend == "polars"):
            continue
        if n == "properties" and kind != "column":
            continue
        if n == "overlap" and not allow_threads:
            continue
        if n in ("strategy", "example") and any(
                c.get("no_dtype") for c in spec["columns"]):
            w = w * HYP_BOOST_DTYPE_LESS
        names.append(n)
        weights.append(w * 2.5 if n in MODEL_ONLY else w)
    name = rng.choices(names, weights)[0]
    op = {"op": name}
    if name in ("validate", "call", "validate_cfg", "coerce_dtype", "get_dtypes",
                "derived_validate", "check_input", "check_output",
                "model_validate", "model_call", "check_types", "call_check"):
        op["probe"] = rng.randrange(nprobes)
    if name in ("validate", "model_validate", "derived_validate", "check_input"):
        op["lazy"] = rng.random() < 0.45
    if name == "validate":
        r = rng.random()
        if r < 0.12:
            op["head"] = rng.choice([1, 2, 5])
        elif r < 0.2:
            op["tail"] = rng.choice([1, 2])
        elif r < 0.28:
            op["sample"], op["random_state"] = rng.choice([1, 2]), 7
        if rng.random() < 0.15:
            op["inplace"] = True
    if name == "validate_cfg":
        op["cfg"] = rng.choice(["SCHEMA_ONLY", "DATA_ONLY", "disabled"])
    if name in ("transform", "derived_validate"):
        if is_frame:
            op["method"] = rng.choice(TRANSFORMS)
        else:
            op["method"] = rng.choice(["update_checks", "set_checks"])
        op["pick"] = rng.randrange(1000)
    if name in ("strategy", "example", "model_example"):
        op["size"] = rng.choice([1, 2])
    if name == "model_misc":
        op["which"] = rng.choice(["get_metadata", "to_json_schema", "empty", "str"])
    if name == "reuse_validate":
        op.update(gen_reuse(rng, kind, spec))
    if name == "reuse_edit":
        op["slot"] = rng.randrange(1000)
        op["prefer"] = rng.choice(["met", "met", "derived", "last", "any"])
        op["pick"] = rng.randrange(1000)
        op["how"] = rng.choice(["bad", "bad", "null", "good"])
    if name == "overlap":
        op.update(gen_overlap(rng, nprobes, kind, spec))
    return op


def _drops_rows(spec):
    return bool(spec and (spec.get("drop_invalid_rows") or any(
        c.get("drop_invalid_rows") for c in spec["columns"])))


def gen_reuse(rng, kind, spec=None):
    """One validation of a LIVE data object of the case (never cloned)."""
    op = _gen_reuse(rng, kind)
    # drop_invalid_rows needs lazy=True (else SchemaDefinitionError): mostly
    # ask for the mode in which such a schema has a verdict at all
    if _drops_rows(spec) and rng.random() < 0.85:
        op["lazy"] = True
    return op


def _gen_reuse(rng, kind):
    op = {"slot": rng.randrange(1000),
          "prefer": rng.choice(["met", "met", "derived", "derived", "last", "last",
                                "probe", "any"]),
          "lazy": rng.random() < 0.45,
          "inplace": rng.random() < 0.55}
    via = rng.choice(REUSE_VIA)
    if kind == "model":
        via = rng.choice(REUSE_VIA + ["model_validate"] * 4 + ["check_types"] * 2)
    elif kind not in ("frame",) and via in ("check_input", "check_output"):
        via = "validate"
    op["via"] = via
    r = rng.random()
    if True:
        if r < 0.1:
            op["head"] = rng.choice([1, 2, 5])
        elif r < 0.16:
            op["tail"] = rng.choice([1, 2])
        elif r < 0.22:
            op["sample"], op["random_state"] = rng.choice([1, 2]), 7
    return op


OVERLAP_WHAT = ["validate"] * 12 + ["coerce_dtype", "coerce_dtype", "get_dtypes",
                                      "to_yaml", "to_json", "to_script", "statistics",
                                      "str", "deepcopy", "eq_twin"]


def gen_overlap(rng, nprobes, kind="frame", spec=None):
    op = _gen_overlap(rng, nprobes, kind)
    if _drops_rows(spec) and rng.random() < 0.85:
        op["lazy"] = op["lazy2"] = True
    return op


def _gen_overlap(rng, nprobes, kind="frame"):
    p = rng.randrange(nprobes)
    what = rng.choice(OVERLAP_WHAT)
    if what in FRAME_ONLY and kind not in ("frame", "model"):
        what = "validate"
    return {"what": what, "probe": p,
            "probe2": p if rng.random() < 0.65 else rng.randrange(nprobes),
            "lazy": rng.random() < 0.4, "lazy2": rng.random() < 0.4,
            # which of the scouted points thread A is parked at: the w-th place
            # where the schema is temporarily modified, else the k-th line
            "w": 0 if rng.random() < 0.6 else rng.randrange(1000),
            "k": rng.randrange(100000)}


# --------------------------------------------------------------------------
def _pa(backend):
    if backend == "polars":
        import pandera.polars as pa
    else:
        import pandera as pa
    return pa


def transform(schema, spec, method, pick):
    """Apply one transforming method to ``schema`` and return the new schema."""
    pa = _pa(spec["backend"])
    if method in ("update_checks", "set_checks"):
        return getattr(schema, method)([pa.Check.ge(0)] if pick % 2 else [])
    keys = list(schema.columns)
    k = keys[pick % len(keys)] if keys else "nope"
    if method == "add_columns":
        return schema.add_columns({"zz_new": pa.Column(int, pa.Check.ge(0))})
    if method == "remove_columns":
        return schema.remove_columns([k])
    if method == "update_column":
        return schema.update_column(k, nullable=bool(pick % 2), title="updated")
    if method == "update_columns":
        return schema.update_columns({k: {"coerce": bool(pick % 2)}})
    if method == "rename_columns":
        return schema.rename_columns({k: str(k) + "_rn"})
    if method == "select_columns":
        sel = keys[: max(1, (pick % len(keys)) + 1)] if keys else ["nope"]
        return schema.select_columns(list(reversed(sel)))
    if method == "set_index":
        return schema.set_index([k], drop=bool(pick % 2), append=bool(pick % 3 == 0))
    if method == "reset_index":
        return schema.reset_index(drop=bool(pick % 2))
    raise ValueError(method)


def _validate_kwargs(op):
    return {k: op[k] for k in ("lazy", "head", "tail", "sample", "random_state",
                               "inplace") if k in op}


def apply(op, built, probes):
    """Execute ``op``.  Returns a label; exceptions propagate to the driver."""
    name = op["op"]
    spec = built.spec
    S = built.schema
    frame = G.clone(probes[op["probe"]][1]) if "probe" in op else None
    if name == "validate":
        S.validate(frame, **_validate_kwargs(op))
    elif name == "call":
        S(frame)
    elif name == "validate_cfg":
        from pandera.config import ValidationDepth, config_context
        if op["cfg"] == "disabled":
            with config_context(validation_enabled=False):
                S.validate(frame)
        else:
            with config_context(validation_depth=ValidationDepth[op["cfg"]]):
                S.validate(frame)
    elif name == "coerce_dtype":
        S.coerce_dtype(frame)
    elif name == "to_yaml":
        S.to_yaml()
    elif name == "to_json":
        S.to_json()
    elif name == "to_script":
        S.to_script()
    elif name == "yaml_roundtrip_eq":
        import pandera.io
        return f"eq={pandera.io.from_yaml(S.to_yaml()) == S}"
    elif name == "statistics":
        import pandera.schema_statistics as ss
        if spec["kind"] in ("frame", "model"):
            ss.get_dataframe_schema_statistics(S)
        else:
            ss.get_series_schema_statistics(S)
    elif name == "str":
        str(S)
    elif name == "repr":
        repr(S)
    elif name == "eq_twin":
        twin = G.build(spec).schema if spec["kind"] != "model" else copy.deepcopy(S)
        return f"eq={S == twin}"
    elif name == "eq_other":
        return f"eq={S == _pa(spec['backend']).DataFrameSchema({})},{S != 1}"
    elif name == "deepcopy":
        copy.deepcopy(S)
    elif name == "copy":
        copy.copy(S)
    elif name == "pickle":
        pickle.loads(pickle.dumps(S))
    elif name == "get_dtypes":
        S.get_dtypes(frame)
    elif name == "dtypes":
        S.dtypes
    elif name == "get_metadata":
        S.get_metadata()
    elif name == "properties":
        S.properties
    elif name == "call_check":
        comp = S
        if spec["kind"] in ("frame", "model"):
            cols = [c for c in S.columns.values() if c.checks]
            if not cols:
                return "nocheck"
            comp = cols[0]
        if not comp.checks:
            return "nocheck"
        data = frame
        if spec["backend"] == "pandas" and hasattr(frame, "columns"):
            lab = comp.name if comp.name in frame.columns else frame.columns[0]
            data = frame[lab]
        elif spec["backend"] == "polars":
            from pandera.api.polars.types import PolarsData
            lab = comp.name if comp.name in frame.columns else frame.columns[0]
            data = PolarsData(frame.lazy(), lab)
        comp.checks[0](data)
    elif name == "transform":
        transform(S, spec, op["method"], op["pick"])
    elif name == "derived_validate":
        t = transform(S, spec, op["method"], op["pick"])
        t.validate(frame, lazy=op.get("lazy", False))
    elif name in ("check_input", "check_output"):
        pa = _pa(spec["backend"])
        if name == "check_input":
            pa.check_input(S, lazy=op.get("lazy", False))(lambda df: df)(frame)
        else:
            pa.check_output(S)(lambda df: df)(frame)
    elif name == "model_validate":
        built.model.validate(frame, lazy=op.get("lazy", False))
    elif name == "model_call":
        built.model(frame)
    elif name == "model_to_schema":
        return f"same_object={built.model.to_schema() is S}"
    elif name == "model_to_yaml":
        built.model.to_yaml()
    elif name == "model_misc":
        w = op["which"]
        if w == "str":
            str(built.model.to_schema())
        else:
            getattr(built.model, w)()
    elif name == "check_types":
        pa = _pa(spec["backend"])
        if spec["backend"] == "polars":
            from pandera.typing.polars import DataFrame
        else:
            from pandera.typing import DataFrame
        M = built.model

        def f(df):
            return df
        f.__annotations__ = {"df": DataFrame[M], "return": DataFrame[M]}
        pa.check_types(f)(frame)
    elif name == "reuse_validate":
        return "reuse:" + apply_reuse(op, built, probes)["sig"][0]
    elif name == "reuse_edit":
        return apply_edit(op, built, probes)
    elif name == "overlap":
        return apply_overlap(op, built, probes)["label"]
    elif name in ("strategy", "example", "model_example"):
        import hypothesis
        with warnings.catch_warnings():
            warnings.simplefilter("ignore")
            if name == "strategy":
                S.strategy(size=op["size"])
            elif name == "example":
                _example(S.strategy(size=op["size"]))
            else:
                _example(built.model.strategy(size=op["size"]))
    else:
        raise ValueError(name)
    return "done"


def _example(strategy):
    """One deterministic draw (derandomised, no database, no deadline)."""
    from hypothesis import HealthCheck, Phase, given, settings
    got = []

    @settings(max_examples=1, derandomize=True, database=None, deadline=None,
              phases=[Phase.generate], suppress_health_check=list(HealthCheck))
    @given(strategy)
    def draw(x):
        got.append(x)
    draw()
    return got[0] if got else None


# --------------------------------------------------------------------------
# live data objects: the SAME frame / series object meets the SAME schema again
# --------------------------------------------------------------------------
POOL_MAX = 12


def reset_pool(built, probes):
    """One live (never cloned) object per probe; results of validations and
    the ``.data`` of raised errors join the pool as the history goes on."""
    built.pool = [{"tag": f"probe{j}:{tag}", "origin": "probe", "obj": G.clone(frame),
                   "met": 0, "marks": []}
                  for j, (tag, frame) in enumerate(probes)]
    built.pool_last = None
    built.last_overlap = None


def _pick_slot(built, op):
    pool = built.pool
    pref = op.get("prefer", "any")
    cand = list(range(len(pool)))
    if pref == "last" and built.pool_last is not None and built.pool_last < len(pool):
        return built.pool_last
    if pref == "met":
        cand = [i for i in cand if pool[i]["met"]] or cand
    elif pref in ("derived", "last"):
        cand = [i for i in cand if pool[i]["origin"] != "probe"] or \
               [i for i in cand if pool[i]["met"]] or cand
    elif pref == "probe":
        cand = [i for i in cand if pool[i]["origin"] == "probe"] or cand
    return cand[op["slot"] % len(cand)]


def _push(built, entry):
    pool = built.pool
    if len(pool) >= POOL_MAX:
        # evict the oldest derived object (the probe objects stay)
        for i, e in enumerate(pool):
            if e["origin"] != "probe":
                del pool[i]
                if built.pool_last is not None:
                    built.pool_last = None if built.pool_last == i else (
                        built.pool_last - 1 if built.pool_last > i else built.pool_last)
                break
    pool.append(entry)
    return len(pool) - 1


def _is_data(x):
    import pandas as pd
    if isinstance(x, (pd.DataFrame, pd.Series)):
        return True
    try:
        import polars as pl
        return isinstance(x, (pl.DataFrame, pl.LazyFrame))
    except ImportError:
        return False


class _Route:
    """Adapter: every public route into ``schema.validate`` looks like validate."""

    def __init__(self, fn):
        self.validate = fn


def _route(via, built_like, backend):
    """(object with .validate(obj, **kw)) for one public validation route of
    ``built_like`` (the schema under observation or a pristine twin)."""
    S = built_like.schema
    if via == "validate":
        return S
    if via == "call":
        return _Route(lambda obj, **kw: S(obj, **kw))
    if via == "model_validate":
        return _Route(lambda obj, **kw: built_like.model.validate(obj, **kw))
    pa = _pa(backend)
    if via == "check_input":
        return _Route(lambda obj, **kw: pa.check_input(S, **kw)(lambda df: df)(obj))
    if via == "check_output":
        return _Route(lambda obj, **kw: pa.check_output(S, **kw)(lambda df: df)(obj))
    if via == "check_types":
        if backend == "polars":
            from pandera.typing.polars import DataFrame
        else:
            from pandera.typing import DataFrame
        M = built_like.model

        def run(obj, **kw):
            def f(df):
                return df
            f.__annotations__ = {"df": DataFrame[M], "return": DataFrame[M]}
            return pa.check_types(**kw)(f)(obj)
        return _Route(run)
    raise ValueError(via)


def _sig(out):
    """Verdict signature (same notion as the VER monitor of the check)."""
    import hashlib
    from . import snap as SN
    if out.kind == "ok":
        return ["ok", hashlib.sha1(repr(SN.snap(out.result)).encode()).hexdigest()[:12]]
    if out.kind == "exc":
        return ["exc", type(out.exc).__name__]
    errs = sorted({(e.reason, str(e.column), str(e.check)) for e in out.errors})
    return [out.kind, [list(e) for e in errs]]


def apply_reuse(op, built, probes, twin=None):
    """Validate a live object of the pool through one public route.  When a
    pristine ``twin`` (fresh build of the same spec) is given, the same call is
    made with the twin on a fresh deep copy of the object's content as it was
    right before the call; both verdict signatures are returned."""
    from . import harness as H
    if getattr(built, "pool", None) is None:
        reset_pool(built, probes)
    spec = built.spec
    i = _pick_slot(built, op)
    ent = built.pool[i]
    obj = ent["obj"]
    kw = {k: op[k] for k in ("lazy", "head", "tail", "sample", "random_state",
                             "inplace") if k in op}
    before = G.clone(obj)
    info = {"slot": i, "tag": ent["tag"], "origin": ent["origin"], "met": ent["met"],
            "marks": list(ent["marks"]), "via": op["via"], "kwargs": dict(kw)}
    out = H.run_validate(_route(op["via"], built, spec["backend"]), obj, **kw)
    info["sig"] = _sig(out)
    if twin is not None:
        tout = H.run_validate(_route(op["via"], twin, spec["backend"]), before, **kw)
        info["twin_sig"] = _sig(tout)
    # bookkeeping: what this object has been through
    ent["met"] += 1
    sub = any(k in kw for k in ("head", "tail", "sample"))
    ent["marks"].append(("ok" if out.kind == "ok" else "failed" if out.kind != "exc"
                         else "exc") + (":inplace" if kw.get("inplace") else "")
                        + (":subsample" if sub else ""))
    del ent["marks"][:-6]
    built.pool_last = i
    derived = None
    if out.kind == "ok" and _is_data(out.result) and out.result is not obj:
        derived = ("result", out.result)
    elif out.kind in ("SchemaError", "SchemaErrors"):
        d = getattr(out.exc, "data", None)
        if _is_data(d) and d is not obj and type(d) is type(obj):
            derived = ("error.data", d)
    if derived is not None:
        built.pool_last = _push(built, {
            "tag": f"{derived[0]}<-{ent['tag']}"[:80], "origin": derived[0],
            "obj": derived[1], "met": 1, "marks": [ent["marks"][-1]]})
        info["pushed"] = derived[0]
    return info


def apply_edit(op, built, probes):
    """The user edits a live object in place between two validations."""
    import pandas as pd
    if getattr(built, "pool", None) is None:
        reset_pool(built, probes)
    spec = built.spec
    ent = built.pool[_pick_slot(built, op)]
    obj = ent["obj"]
    if not isinstance(obj, (pd.DataFrame, pd.Series)) or len(obj) == 0:
        return "n/a"
    by_label = dict(G.data_columns(spec))
    r = op["pick"] % len(obj)
    if isinstance(obj, pd.Series):
        col, c = spec["columns"][0], None
    else:
        if obj.shape[1] == 0:
            return "n/a"
        c = (op["pick"] // 7) % obj.shape[1]
        col = by_label.get(obj.columns[c])
    if op["how"] == "null":
        v = None
    elif col is None:
        v = -5
    elif op["how"] == "good":
        v = G._values(col["dtype"], G.POOL[col["dtype"]])[0]
    else:
        bads = [k["bad"] for k in col["checks"] if k.get("bad") is not None]
        v = bads[op["pick"] % len(bads)] if bads else \
            {"str": "zz", "dt": "1999-01-01", "dtz": "1999-01-01", "td": "9h",
             "dtl": G.TZ_DST.get(col.get("tz"), {}).get(
                 ["ambiguous", "nonexistent"][op["pick"] % 2], "1999-01-01")
             }.get(col["dtype"], -5)
        if col["dtype"] in ("dt", "dtz", "td", "dtl") and isinstance(v, str):
            v = G._values(col["dtype"], [v])[0]
    if c is None:
        obj.iloc[r] = v
    else:
        obj.iloc[r, c] = v
    ent["marks"].append(f"edited:{op['how']}")
    del ent["marks"][:-6]
    built.pool_last = built.pool.index(ent)
    return f"edited:{op['how']}"


# --------------------------------------------------------------------------
# two overlapping validations of ONE schema object (scheduler of pvm/c07_sched)
# --------------------------------------------------------------------------
class SharedState:
    """Cheap view (no pandera code is run) of the attributes of the schema, its
    components, their checks and parsers: the identity of every attribute value
    and of every entry of the containers that hold them.  Rebinding an
    attribute, adding / removing a dict key or list entry changes the view.
    Used only to FIND the places where a running call has the shared schema
    temporarily modified, never to judge."""

    def __init__(self, schema):
        cs = []

        def add(o):
            d = getattr(o, "__dict__", None)
            if isinstance(d, dict):
                cs.append(d)
                for v in list(d.values()):
                    if isinstance(v, (dict, list)):
                        cs.append(v)
            return d or {}

        d = add(schema)
        comps = []
        cols = d.get("columns")
        if isinstance(cols, dict):
            comps += list(cols.values())
        ix = d.get("index")
        if ix is not None:
            comps.append(ix)
            comps += list(getattr(ix, "__dict__", {}).get("indexes") or [])
        for c in [schema] + comps:
            dc = add(c) if c is not schema else d
            for attr in ("checks", "parsers", "_checks", "_parsers"):
                for chk in (dc.get(attr) or []):
                    add(chk)
        self.containers = cs

    def state(self):
        return [tuple(map(id, c.values())) if isinstance(c, dict) else tuple(map(id, c))
                for c in self.containers]


def _where(prefix):
    """(code object, line) of the pandera source line about to run in this
    thread (the caller is a policy called from the scheduler's LINE callback:
    policy.at_yield <- _yield_point <- _line <- pandera frame)."""
    import sys
    f = sys._getframe(4)
    if not f.f_code.co_filename.startswith(prefix):
        f = sys._getframe(1)
        while f is not None and not f.f_code.co_filename.startswith(prefix):
            f = f.f_back
        if f is None:
            return (None, 0)
    return (f.f_code, f.f_lineno)


def _describe(loc, prefix):
    code, line = loc
    if code is None:
        return ["?", 0, "?"]
    return [code.co_filename[len(prefix):], line, code.co_name]


class _Scout:
    """Policy for a solo run: logs every yield point (pandera source line about
    to run) and whether the shared schema differs from its state at the start."""
    name = "scout"

    def __init__(self, schema, prefix):
        self.schema, self.prefix = schema, prefix
        self.view = SharedState(schema)
        self.base = self.view.state()
        self.visits, self.log, self.dirty = {}, [], []

    def start(self, n):
        return 0

    def at_yield(self, tid, local_no, step, live):
        code, line = _where(self.prefix)
        key = (id(code), line)
        n = self.visits[key] = self.visits.get(key, 0) + 1
        self.log.append((code, line, n))
        if self.view.state() != self.base:
            self.dirty.append((code, line, n))
        return tid

    def on_finish(self, tid, live):
        return live[0]

    def describe(self):
        return {"policy": "scout"}


class _ParkAt:
    """A runs to its n-th visit of source line L and is parked there, B runs to
    ITS n-th visit of L, A completes, B completes: both calls are inside the
    same region of pandera at the same time (enter-A, enter-B, leave-A,
    leave-B)."""
    name = "park-at"

    def __init__(self, target, prefix):
        self.target, self.prefix = target, prefix
        self.count = [0, 0]
        self.parked = [False, False]

    def start(self, n):
        return 0

    def at_yield(self, tid, local_no, step, live):
        if self.target is None or self.parked[tid] or tid > 1:
            return tid
        if tid == 1 and not self.parked[0]:
            return tid
        code, line = _where(self.prefix)
        if line != self.target[1] or code is not self.target[0]:
            return tid
        self.count[tid] += 1
        if self.count[tid] != self.target[2]:
            return tid
        other = 1 - tid
        if other not in live:
            return tid
        self.parked[tid] = True
        return other

    def on_finish(self, tid, live):
        return live[0]

    def describe(self):
        return {"policy": "park-at",
                "target": None if self.target is None else
                _describe(self.target[:2], self.prefix) + [self.target[2]]}


def apply_overlap(op, built, probes):
    """Scout one validation solo (where is the schema temporarily modified?),
    then run two validations of the same schema object so that both are inside
    such a region (or, when there is none, at one seeded source line) at the
    same time.  Returns a dict; ``finished`` False means the schedule did not
    complete and nothing about the schema may be judged."""
    from . import env
    from .c07_sched import Scheduler
    S = built.schema
    spec = built.spec
    prefix = env.REPO.rstrip("/") + "/pandera/"
    frames = [G.clone(probes[op["probe"]][1]), G.clone(probes[op["probe2"]][1])]
    kws = [{"lazy": op["lazy"]}, {"lazy": op["lazy2"]}]
    what = op.get("what", "validate")
    twin = G.build(spec).schema if what == "eq_twin" else None

    def call(frame, kw):
        if what == "validate":
            S.validate(frame, **kw)
        elif what == "coerce_dtype":
            S.coerce_dtype(frame)
        elif what == "get_dtypes":
            S.get_dtypes(frame)
        elif what == "to_yaml":
            S.to_yaml()
        elif what == "to_json":
            S.to_json()
        elif what == "to_script":
            S.to_script()
        elif what == "statistics":
            import pandera.schema_statistics as ss
            if spec["kind"] in ("frame", "model"):
                ss.get_dataframe_schema_statistics(S)
            else:
                ss.get_series_schema_statistics(S)
        elif what == "str":
            str(S)
        elif what == "deepcopy":
            copy.deepcopy(S)
        elif what == "eq_twin":
            S == twin
        else:
            raise ValueError(what)

    def thunk(frame, kw):
        def run():
            try:
                call(frame, kw)
                return "ok"
            except Exception as e:  # noqa: BLE001 - recorded, not judged
                return type(e).__name__
        return run

    info = {"finished": False, "label": "not-finished"}
    with Scheduler(prefix) as sched:
        scout = _Scout(S, prefix)
        r0 = sched.run([thunk(G.clone(frames[0]), kws[0])], scout, timeout=60.0)
        if r0.status != "ok":
            built.last_overlap = info
            return info
        if scout.dirty:
            target = scout.dirty[op["w"] % len(scout.dirty)]
        elif scout.log:
            target = scout.log[op.get("k", 13) % len(scout.log)]
        else:
            target = None
        pol = _ParkAt(target, prefix)
        sched.restart()
        r = sched.run([thunk(frames[0], kws[0]), thunk(frames[1], kws[1])], pol,
                      timeout=60.0)
    info = {"finished": r.status == "ok", "what": what, "yields_solo": len(scout.log),
            "dirty_points": len(scout.dirty),
            "target": None if target is None else
            [_describe(target[:2], prefix), target[2]],
            "targeted": "dirty-window" if scout.dirty else "seeded-line",
            "parked": list(pol.parked), "outcomes": list(r.outcomes),
            "switches": r.switches}
    info["label"] = ("not-finished" if not info["finished"] else
                     "both-inside" if all(pol.parked) else "serialised")
    built.last_overlap = info
    return info
