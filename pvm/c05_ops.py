"""Operation alphabet for C05 histories.

``gen_op(rng, built, nprobes)`` returns a JSON-able op description;
``apply(op, built, probes)`` executes it against the schema under observation
with the real pandera code and returns a short outcome label.  Ops may raise;
the driver records that and does not judge it (C05 only watches the schema).
"""
from __future__ import annotations

import copy
import pickle
import warnings

from . import c05_gen as G

VALIDATING = {"validate", "call", "model_validate", "model_call", "check_input",
              "check_output", "check_types", "validate_cfg", "derived_validate",
              "probe", "coerce_dtype", "get_dtypes", "call_check"}

# weights: cheap, state-touching ops dominate; hypothesis ops are rare
_W = [
    ("validate", 30), ("call", 3), ("validate_cfg", 3), ("coerce_dtype", 4),
    ("to_yaml", 4), ("to_json", 3), ("to_script", 4), ("statistics", 5),
    ("yaml_roundtrip_eq", 2),
    ("str", 2), ("repr", 2), ("eq_twin", 3), ("eq_other", 1),
    ("deepcopy", 3), ("copy", 1), ("pickle", 3),
    ("get_dtypes", 2), ("dtypes", 1), ("get_metadata", 1), ("properties", 1),
    ("call_check", 2),
    ("transform", 12), ("derived_validate", 6),
    ("check_input", 2), ("check_output", 2),
    ("model_validate", 6), ("model_call", 2), ("model_to_schema", 3),
    ("model_to_yaml", 2), ("model_misc", 5), ("check_types", 3),
    ("strategy", 1), ("example", 1), ("model_example", 0.5),
]
MODEL_ONLY = {"model_validate", "model_call", "model_to_schema", "model_to_yaml",
              "model_misc", "check_types", "model_example"}
FRAME_ONLY = {"to_yaml", "to_json", "to_script", "yaml_roundtrip_eq", "get_dtypes",
              "dtypes", "get_metadata", "check_input", "check_output"}
TRANSFORMS = ["add_columns", "remove_columns", "update_column", "update_columns",
              "rename_columns", "select_columns", "set_index", "reset_index"]


def gen_op(rng, built, nprobes, allow_hypothesis=True):
    spec = built.spec
    kind, backend = spec["kind"], spec["backend"]
    is_frame = kind in ("frame", "model")
    names, weights = [], []
    for n, w in _W:
        if n in MODEL_ONLY and kind != "model":
            continue
        if n in FRAME_ONLY and not is_frame:
            continue
        if n in ("strategy", "example", "model_example") and (
                not allow_hypothesis or backend == "polars"):
            continue
        if n == "properties" and kind != "column":
            continue
        names.append(n)
        weights.append(w * 2.5 if n in MODEL_ONLY else w)
    name = rng.choices(names, weights)[0]
    op = {"op": name}
    if name in ("validate", "call", "validate_cfg", "coerce_dtype", "get_dtypes",
                "derived_validate", "check_input", "check_output",
                "model_validate", "model_call", "check_types", "call_check"):
        op["probe"] = rng.randrange(nprobes)
    if name in ("validate", "model_validate", "derived_validate", "check_input"):
        op["lazy"] = rng.random() < 0.45
    if name == "validate":
        r = rng.random()
        if r < 0.12:
            op["head"] = rng.choice([1, 2, 5])
        elif r < 0.2:
            op["tail"] = rng.choice([1, 2])
        elif r < 0.28:
            op["sample"], op["random_state"] = rng.choice([1, 2]), 7
        if rng.random() < 0.15:
            op["inplace"] = True
    if name == "validate_cfg":
        op["cfg"] = rng.choice(["SCHEMA_ONLY", "DATA_ONLY", "disabled"])
    if name in ("transform", "derived_validate"):
        if is_frame:
            op["method"] = rng.choice(TRANSFORMS)
        else:
            op["method"] = rng.choice(["update_checks", "set_checks"])
        op["pick"] = rng.randrange(1000)
    if name in ("strategy", "example", "model_example"):
        op["size"] = rng.choice([1, 2])
    if name == "model_misc":
        op["which"] = rng.choice(["get_metadata", "to_json_schema", "empty", "str"])
    return op


# --------------------------------------------------------------------------
def _pa(backend):
    if backend == "polars":
        import pandera.polars as pa
    else:
        import pandera as pa
    return pa


def transform(schema, spec, method, pick):
    """Apply one transforming method to ``schema`` and return the new schema."""
    pa = _pa(spec["backend"])
    if method in ("update_checks", "set_checks"):
        return getattr(schema, method)([pa.Check.ge(0)] if pick % 2 else [])
    keys = list(schema.columns)
    k = keys[pick % len(keys)] if keys else "nope"
    if method == "add_columns":
        return schema.add_columns({"zz_new": pa.Column(int, pa.Check.ge(0))})
    if method == "remove_columns":
        return schema.remove_columns([k])
    if method == "update_column":
        return schema.update_column(k, nullable=bool(pick % 2), title="updated")
    if method == "update_columns":
        return schema.update_columns({k: {"coerce": bool(pick % 2)}})
    if method == "rename_columns":
        return schema.rename_columns({k: str(k) + "_rn"})
    if method == "select_columns":
        sel = keys[: max(1, (pick % len(keys)) + 1)] if keys else ["nope"]
        return schema.select_columns(list(reversed(sel)))
    if method == "set_index":
        return schema.set_index([k], drop=bool(pick % 2), append=bool(pick % 3 == 0))
    if method == "reset_index":
        return schema.reset_index(drop=bool(pick % 2))
    raise ValueError(method)


def _validate_kwargs(op):
    return {k: op[k] for k in ("lazy", "head", "tail", "sample", "random_state",
                               "inplace") if k in op}


def apply(op, built, probes):
    """Execute ``op``.  Returns a label; exceptions propagate to the driver."""
    name = op["op"]
    spec = built.spec
    S = built.schema
    frame = G.clone(probes[op["probe"]][1]) if "probe" in op else None
    if name == "validate":
        S.validate(frame, **_validate_kwargs(op))
    elif name == "call":
        S(frame)
    elif name == "validate_cfg":
        from pandera.config import ValidationDepth, config_context
        if op["cfg"] == "disabled":
            with config_context(validation_enabled=False):
                S.validate(frame)
        else:
            with config_context(validation_depth=ValidationDepth[op["cfg"]]):
                S.validate(frame)
    elif name == "coerce_dtype":
        S.coerce_dtype(frame)
    elif name == "to_yaml":
        S.to_yaml()
    elif name == "to_json":
        S.to_json()
    elif name == "to_script":
        S.to_script()
    elif name == "yaml_roundtrip_eq":
        import pandera.io
        return f"eq={pandera.io.from_yaml(S.to_yaml()) == S}"
    elif name == "statistics":
        import pandera.schema_statistics as ss
        if spec["kind"] in ("frame", "model"):
            ss.get_dataframe_schema_statistics(S)
        else:
            ss.get_series_schema_statistics(S)
    elif name == "str":
        str(S)
    elif name == "repr":
        repr(S)
    elif name == "eq_twin":
        twin = G.build(spec).schema if spec["kind"] != "model" else copy.deepcopy(S)
        return f"eq={S == twin}"
    elif name == "eq_other":
        return f"eq={S == _pa(spec['backend']).DataFrameSchema({})},{S != 1}"
    elif name == "deepcopy":
        copy.deepcopy(S)
    elif name == "copy":
        copy.copy(S)
    elif name == "pickle":
        pickle.loads(pickle.dumps(S))
    elif name == "get_dtypes":
        S.get_dtypes(frame)
    elif name == "dtypes":
        S.dtypes
    elif name == "get_metadata":
        S.get_metadata()
    elif name == "properties":
        S.properties
    elif name == "call_check":
        comp = S
        if spec["kind"] in ("frame", "model"):
            cols = [c for c in S.columns.values() if c.checks]
            if not cols:
                return "nocheck"
            comp = cols[0]
        if not comp.checks:
            return "nocheck"
        data = frame
        if spec["backend"] == "pandas" and hasattr(frame, "columns"):
            lab = comp.name if comp.name in frame.columns else frame.columns[0]
            data = frame[lab]
        elif spec["backend"] == "polars":
            from pandera.api.polars.types import PolarsData
            lab = comp.name if comp.name in frame.columns else frame.columns[0]
            data = PolarsData(frame.lazy(), lab)
        comp.checks[0](data)
    elif name == "transform":
        transform(S, spec, op["method"], op["pick"])
    elif name == "derived_validate":
        t = transform(S, spec, op["method"], op["pick"])
        t.validate(frame, lazy=op.get("lazy", False))
    elif name in ("check_input", "check_output"):
        pa = _pa(spec["backend"])
        if name == "check_input":
            pa.check_input(S, lazy=op.get("lazy", False))(lambda df: df)(frame)
        else:
            pa.check_output(S)(lambda df: df)(frame)
    elif name == "model_validate":
        built.model.validate(frame, lazy=op.get("lazy", False))
    elif name == "model_call":
        built.model(frame)
    elif name == "model_to_schema":
        return f"same_object={built.model.to_schema() is S}"
    elif name == "model_to_yaml":
        built.model.to_yaml()
    elif name == "model_misc":
        w = op["which"]
        if w == "str":
            str(built.model.to_schema())
        else:
            getattr(built.model, w)()
    elif name == "check_types":
        pa = _pa(spec["backend"])
        if spec["backend"] == "polars":
            from pandera.typing.polars import DataFrame
        else:
            from pandera.typing import DataFrame
        M = built.model

        def f(df):
            return df
        f.__annotations__ = {"df": DataFrame[M], "return": DataFrame[M]}
        pa.check_types(f)(frame)
    elif name in ("strategy", "example", "model_example"):
        import hypothesis
        with warnings.catch_warnings():
            warnings.simplefilter("ignore")
            if name == "strategy":
                S.strategy(size=op["size"])
            elif name == "example":
                _example(S.strategy(size=op["size"]))
            else:
                _example(built.model.strategy(size=op["size"]))
    else:
        raise ValueError(name)
    return "done"


def _example(strategy):
    """One deterministic draw (derandomised, no database, no deadline)."""
    from hypothesis import HealthCheck, Phase, given, settings
    got = []

    @settings(max_examples=1, derandomize=True, database=None, deadline=None,
              phases=[Phase.generate], suppress_health_check=list(HealthCheck))
    @given(strategy)
    def draw(x):
        got.append(x)
    draw()
    return got[0] if got else None
