"""C13 generator: schema specs that are satisfiable BY CONSTRUCTION, a family of
contradictory chains, and the builders that turn a spec into real pandera
objects.

A *field spec* is a JSON-able dict

    {"dtype": "uint8", "cls": "int", "witness": 3, "checks": [CHK, ...],
     "nullable": bool, "unique": bool, "name": str|None, "regex": bool,
     "support": n}

``witness`` is chosen FIRST; every check of the chain is then drawn among the
checks the witness satisfies, so the one-element container [witness] is a
model of the field.  ``support`` is a lower bound on the number of distinct
values that satisfy the whole chain (found by evaluating the chain, with the
small executable semantics below, on the witness' neighbours); generators clip
the requested size to it when ``unique`` is set, so a unique field of size n
is satisfiable too.

Values are encoded JSON-ably: int / float / bool / str as themselves,
``{"cx": [re, im]}``, ``{"ts": iso, "tz": tz|None}``, ``{"td": ns}``.
"""
from __future__ import annotations

import re

import numpy as np
import pandas as pd

# --------------------------------------------------------------------------
# vocabulary
# --------------------------------------------------------------------------
INT_RANGE = {}
for _b in (8, 16, 32, 64):
    INT_RANGE[f"int{_b}"] = (-2 ** (_b - 1), 2 ** (_b - 1) - 1)
    INT_RANGE[f"uint{_b}"] = (0, 2 ** _b - 1)
    INT_RANGE[f"Int{_b}"] = (-2 ** (_b - 1), 2 ** (_b - 1) - 1)
    INT_RANGE[f"UInt{_b}"] = (0, 2 ** _b - 1)

DTYPES = {
    "int": sorted(INT_RANGE),
    "float": ["float16", "float32", "float64", "Float32", "Float64"],
    "complex": ["complex64", "complex128"],
    "bool": ["bool", "boolean"],
    "str": ["str", "object", "string"],
    "dt": ["datetime64[ns]", "datetime64[ns, UTC]", "datetime64[ns, Asia/Tokyo]"],
    "td": ["timedelta64[ns]"],
}
CLASS_OF = {d: c for c, ds in DTYPES.items() for d in ds}
ALL_DTYPES = [d for ds in DTYPES.values() for d in ds]
# relative weight of a dtype class when a dtype is drawn at random
CLASS_WEIGHT = {"int": 30, "float": 20, "complex": 5, "bool": 6, "str": 25,
                "dt": 9, "td": 5}
ORDERED = ("int", "float", "dt", "td")

SPECIALS = list(".*+?()[]{}|^$\\")
# no "0": "\\0" in a literal turns into NUL inside the unescaped regex, and numpy
# str_ scalars silently drop trailing NULs (numpy's limitation, not judged here)
PLAIN = list("abcxyz129_ -")
EXOTIC = ["é", "ß", "Ω"]


def enc(v):
    if isinstance(v, (bool, np.bool_)):
        return bool(v)
    if isinstance(v, (int, np.integer)):
        return int(v)
    if isinstance(v, (float, np.floating)):
        return float(v)
    if isinstance(v, str):
        return v
    if isinstance(v, complex):
        return {"cx": [v.real, v.imag]}
    if isinstance(v, pd.Timestamp):
        return {"ts": v.tz_localize(None).isoformat() if v.tz is None
                else v.tz_convert("UTC").tz_localize(None).isoformat(),
                "tz": None if v.tz is None else str(v.tz)}
    if isinstance(v, pd.Timedelta):
        return {"td": int(v.value)}
    if v is None:
        return None
    if isinstance(v, (list, tuple)):
        return [enc(x) for x in v]
    raise TypeError(f"cannot encode {v!r}")


def dec(v):
    if isinstance(v, dict):
        if "cx" in v:
            return complex(*v["cx"])
        if "ts" in v:
            t = pd.Timestamp(v["ts"])
            if v.get("tz"):
                t = t.tz_localize("UTC").tz_convert(v["tz"])
            return t
        if "td" in v:
            return pd.Timedelta(v["td"], unit="ns")
    if isinstance(v, list):
        return [dec(x) for x in v]
    return v


def tz_of(dtype):
    m = re.match(r"datetime64\[ns, (.+)\]", dtype)
    return m.group(1) if m else None


# --------------------------------------------------------------------------
# small executable semantics of the checks (documentation of Check.*), used to
# pick checks the witness satisfies and to count support; NOT used as verdict
# --------------------------------------------------------------------------
def holds(chk, v):
    """Does the python value ``v`` satisfy check spec ``chk``?"""
    k, a = chk["k"], {n: dec(x) for n, x in chk["a"].items()}
    if k == "eq":
        return v == a["value"]
    if k == "ne":
        return v != a["value"]
    if k == "gt":
        return v > a["min_value"]
    if k == "ge":
        return v >= a["min_value"]
    if k == "lt":
        return v < a["max_value"]
    if k == "le":
        return v <= a["max_value"]
    if k == "in_range":
        lo = v >= a["min_value"] if a.get("include_min", True) else v > a["min_value"]
        hi = v <= a["max_value"] if a.get("include_max", True) else v < a["max_value"]
        return lo and hi
    if k == "isin":
        return any(v == x for x in a["allowed_values"])
    if k == "notin":
        return not any(v == x for x in a["forbidden_values"])
    if k == "str_matches":
        return re.match(a["pattern"], v) is not None
    if k == "str_contains":
        return re.search(a["pattern"], v) is not None
    if k == "str_startswith":
        return v.startswith(a["string"])
    if k == "str_endswith":
        return v.endswith(a["string"])
    if k == "str_length":
        return ((a.get("min_value") is None or len(v) >= a["min_value"]) and
                (a.get("max_value") is None or len(v) <= a["max_value"]))
    if k == "unique_values_eq":
        return any(v == x for x in a["values"])
    if k.startswith("c_"):
        return CUSTOM[a["fn"]][0](a)(v)
    raise KeyError(k)


# custom checks: name -> (element predicate factory, how it is handed to Check)
#   how: "ew"   Check(fn, element_wise=True)              no strategy
#        "vec"  Check(lambda s: s.map(pred))  -> bool Series, no strategy
#        "agg"  Check(lambda s: all(pred))    -> scalar bool,  no strategy
#        "strat" vectorised check + strategy= (docs' custom strategy pattern)
def _p_le(a):
    b = dec(a["b"])
    return lambda x: x <= b


def _p_ge(a):
    b = dec(a["b"])
    return lambda x: x >= b


def _p_mod(a):
    m, r = a["m"], a["r"]
    return lambda x: int(x) % m == r


def _p_maxlen(a):
    n = a["n"]
    return lambda x: len(x) <= n


def _p_noch(a):
    ch = a["ch"]
    return lambda x: ch not in x


def _p_between(a):
    lo, hi = dec(a["lo"]), dec(a["hi"])
    return lambda x: lo <= x <= hi


def _p_true(a):
    return lambda x: True


CUSTOM = {
    "le": (_p_le,), "ge": (_p_ge,), "mod": (_p_mod,), "maxlen": (_p_maxlen,),
    "noch": (_p_noch,), "between": (_p_between,), "true": (_p_true,),
    # whole-container aggregates (kind c_aggn / c_dfaggn): no constraint on a
    # single element; whether they hold depends on WHICH elements are present
    "count_ge": (_p_true,), "nunique_ge": (_p_true,), "any_ge": (_p_true,),
    "any_le": (_p_true,), "mean_ge": (_p_true,), "mean_le": (_p_true,),
}
AGG_COUNTING = ("count_ge", "nunique_ge")


def zero_of(cls, dtype):
    """the falsy / origin value of an ordered dtype class"""
    if cls == "int":
        return 0
    if cls == "float":
        return 0.0
    if cls == "td":
        return pd.Timedelta(0)
    if cls == "dt":
        tz = tz_of(dtype)
        return pd.Timestamp(0, tz=tz) if tz else pd.Timestamp(0)
    raise KeyError(cls)


def supports_nulls(f):
    """nulls can be stored in the field without changing its dtype (numpy
    int / bool fields are never masked)"""
    return not (f["cls"] in ("int", "bool") and f["dtype"][0].islower())


# --------------------------------------------------------------------------
# witnesses and neighbours
# --------------------------------------------------------------------------
def _step(rng, cls):
    if cls == "float":
        return 0.25
    if cls == "dt" or cls == "td":
        return rng.choice([1, 10 ** 3, 10 ** 9, 86400 * 10 ** 9])  # ns
    return 1


def gen_witness(rng, dtype):
    cls = CLASS_OF[dtype]
    if cls == "int":
        lo, hi = INT_RANGE[dtype]
        r = rng.random()
        if r < 0.12:
            return rng.choice([lo, hi, lo + 1, hi - 1])
        if r < 0.2:
            return 0
        return rng.randint(max(lo, -60), min(hi, 60))
    if cls == "float":
        if rng.random() < 0.06:
            return 0.0
        return rng.randint(-200, 200) * 0.25
    if cls == "complex":
        return complex(rng.randint(-20, 20) * 0.5, rng.randint(-20, 20) * 0.5)
    if cls == "bool":
        return rng.random() < 0.5
    if cls == "str":
        n = rng.choice([0, 1, 2, 3, 3, 4, 4, 5, 6])
        special = rng.random() < 0.55
        out = []
        for _ in range(n):
            r = rng.random()
            if special and r < 0.4:
                out.append(rng.choice(SPECIALS))
            elif r > 0.97:
                out.append(rng.choice(EXOTIC))
            else:
                out.append(rng.choice(PLAIN))
        return "".join(out)
    if cls == "dt":
        base = pd.Timestamp("2000-01-01") + pd.Timedelta(
            rng.randint(-10 ** 4, 10 ** 4), unit="D")
        if rng.random() < 0.5:
            base += pd.Timedelta(rng.randint(0, 86399 * 10 ** 9), unit="ns")
        tz = tz_of(dtype)
        return base.tz_localize("UTC").tz_convert(tz) if tz else base
    if cls == "td":
        if rng.random() < 0.08:
            return pd.Timedelta(0)
        return pd.Timedelta(rng.randint(-10 ** 6, 10 ** 6) * rng.choice(
            [1, 10 ** 3, 10 ** 9]), unit="ns")
    raise KeyError(cls)


def shift(w, cls, d, step):
    """neighbour of the witness, d steps away"""
    if cls == "int":
        return w + d
    if cls == "float":
        return w + d * step
    if cls == "complex":
        return w + d
    if cls in ("dt", "td"):
        return w + pd.Timedelta(d * step, unit="ns")
    raise KeyError(cls)


def str_variants(rng, w):
    out = {w}
    pool = PLAIN + SPECIALS
    for _ in range(10):
        r = rng.random()
        c = rng.choice(pool)
        if r < 0.25:
            out.add(w + c)
        elif r < 0.5:
            out.add(c + w)
        elif r < 0.75 and w:
            i = rng.randrange(len(w))
            out.add(w[:i] + c + w[i + 1:])
        else:
            i = rng.randrange(len(w) + 1)
            out.add(w[:i] + c + w[i:])
    return sorted(out)


def neighbours(rng, w, cls, dtype, step):
    if cls == "bool":
        return [True, False]
    if cls == "str":
        return str_variants(rng, w)
    out = [shift(w, cls, d, step) for d in range(-8, 9)]
    if cls == "int":
        lo, hi = INT_RANGE[dtype]
        out = [x for x in out if lo <= x <= hi]
    return out


# --------------------------------------------------------------------------
# checks the witness satisfies
# --------------------------------------------------------------------------
BUILTIN_KINDS = {
    "int": ["eq", "ne", "gt", "ge", "lt", "le", "in_range", "isin", "notin"],
    "float": ["eq", "ne", "gt", "ge", "lt", "le", "in_range", "isin", "notin"],
    "dt": ["eq", "ne", "gt", "ge", "lt", "le", "in_range", "isin", "notin"],
    "td": ["eq", "ne", "gt", "ge", "lt", "le", "in_range", "isin", "notin"],
    "complex": ["eq", "ne", "isin", "notin"],
    "bool": ["eq", "ne", "isin", "notin"],
    "str": ["eq", "ne", "isin", "notin", "str_matches", "str_contains",
            "str_startswith", "str_endswith", "str_length", "str_startswith",
            "str_endswith", "str_length"],
}
CUSTOM_KINDS = {
    "int": ["c_ew", "c_vec", "c_agg", "c_strat", "c_aggn"],
    "float": ["c_ew", "c_vec", "c_agg", "c_strat", "c_aggn"],
    "dt": ["c_ew", "c_vec", "c_aggn"], "td": ["c_ew", "c_vec", "c_aggn"],
    "complex": ["c_ew", "c_aggn"], "bool": ["c_ew", "c_aggn"],
    "str": ["c_ew", "c_vec", "c_agg", "c_aggn"],
}
# probability that an ordered bound is put exactly on the zero of the class
# ("not negative", "not positive": the commonest bounds in real schemas)
P_ZERO = 0.3


def _regex_for(rng, w, full):
    """a regex (valid, by construction) that matches the witness"""
    opts = [re.escape(w)]
    if w:
        i = rng.randrange(len(w) + 1)
        opts.append(re.escape(w[:i]) + (".*" if full else ""))
        if full:
            opts.append(".*" + re.escape(w[i:]))
            opts.append(".{%d}" % len(w))
            opts.append(".{0,%d}" % (len(w) + rng.randint(0, 2)))
        else:
            j = rng.randrange(i, len(w) + 1)
            opts.append(re.escape(w[i:j]))
            opts.append(re.escape(w[i:]) + "$")
            opts.append("^" + re.escape(w[:i]))
        if re.fullmatch(r"[a-z0-9_ \-]+", w):
            opts.append(r"[a-z0-9_ \-]+" if full else r"[a-z0-9_ \-]")
    else:
        opts.append(".*" if full else "")
    p = rng.choice(opts)
    ok = re.fullmatch(p, w) if full else re.search(p, w)
    return p if ok else re.escape(w)


# probability that a bound of an INTEGER field is written as a float: integral
# (3.0) or with a fraction (2.5: "at least 2.5" is a perfectly good constraint
# on integer data, satisfied by 3, 4, ...)
P_FLOAT_BOUND = 0.3
FRACTIONS = [0.5, 0.5, 0.25, 0.75, 0.1, 0.9]


def _float_bound(rng, v, side, force=False):
    """bound ``v`` (an int the witness satisfies on ``side``) rewritten as a
    float that admits exactly the same integers or more on the far side of
    the witness: lower bounds move down by a fraction, upper bounds up"""
    r = rng.random()
    if not force and r >= P_FLOAT_BOUND:
        return v
    if abs(v) >= 2 ** 52:
        return v                # floats are no longer exact out there
    if not force and r < 0.1:
        return float(v)
    f = rng.choice(FRACTIONS)
    return v - f if side == "lo" else v + f


def is_fractional(x):
    return isinstance(x, float) and not x.is_integer()


def gen_check(rng, kind, w, cls, dtype, step, base_ok=True):
    """one check spec of ``kind`` that the witness ``w`` satisfies, or None"""
    nb = lambda d: shift(w, cls, d, step)   # noqa: E731
    lo_hi = INT_RANGE.get(dtype)
    force_frac = False
    if kind == "fbound":
        # an inclusive bound with a fraction on an integer field (the strategy
        # has to round it INTO the admitted side, or say that it cannot)
        assert cls == "int"
        kind = rng.choice(["ge", "le", "in_range", "gt", "lt"])
        force_frac = True

    def inr(x):
        """keep integer arguments inside the dtype's range most of the time"""
        if lo_hi is None:
            return True
        return lo_hi[0] <= x <= lo_hi[1] or rng.random() < 0.1

    if kind == "eq":
        v = w
        if cls == "int" and abs(w) < 2 ** 52 and rng.random() < 0.12:
            v = float(w)        # the same number, written as a float
        return {"k": "eq", "a": {"value": enc(v)}}
    if kind == "ne":
        if cls == "bool":
            return {"k": "ne", "a": {"value": (not w)}}
        if cls == "str":
            v = rng.choice([x for x in str_variants(rng, w) if x != w] or [w + "q"])
        else:
            v = nb(rng.choice([-3, -2, -1, 1, 2, 3]))
            if cls == "int" and abs(v) < 2 ** 52:
                r = rng.random()
                if r < 0.1:
                    v = float(v)
                elif r < 0.2:
                    v = v + rng.choice(FRACTIONS)     # no integer equals it
        return {"k": "ne", "a": {"value": enc(v)}}
    if kind in ("gt", "ge", "lt", "le"):
        d = rng.choice([0, 0, 1, 1, 2, 5, 40]) if kind in ("ge", "le") \
            else rng.choice([1, 1, 2, 5, 40])
        v = nb(-d) if kind in ("gt", "ge") else nb(d)
        if rng.random() < P_ZERO:
            z = zero_of(cls, dtype)
            if {"gt": w > z, "ge": w >= z, "lt": w < z, "le": w <= z}[kind]:
                v = z
        if not inr(v):
            return None
        if cls == "int":
            v = _float_bound(rng, v, "lo" if kind in ("gt", "ge") else "hi", force_frac)
        name = "min_value" if kind in ("gt", "ge") else "max_value"
        return {"k": kind, "a": {name: enc(v)}}
    if kind == "in_range":
        da, db = rng.choice([0, 1, 1, 2, 3, 10]), rng.choice([0, 1, 1, 2, 3, 10])
        a, b = nb(-da), nb(db)
        if rng.random() < P_ZERO:
            z = zero_of(cls, dtype)
            if z <= w and rng.random() < 0.7:
                a, da = z, (0 if z == w else 1)
            elif z >= w:
                b, db = z, (0 if z == w else 1)
        if not (inr(a) and inr(b)):
            return None
        imin = True if da == 0 else rng.random() < 0.45
        imax = True if db == 0 else rng.random() < 0.45
        if cls == "int":
            if force_frac:
                if rng.random() < 0.7:
                    imin = imax = True
                which = rng.choice(["lo", "hi", "both"])
                if which != "hi":
                    a = _float_bound(rng, a, "lo", True)
                if which != "lo":
                    b = _float_bound(rng, b, "hi", True)
            else:
                a, b = _float_bound(rng, a, "lo"), _float_bound(rng, b, "hi")
        return {"k": "in_range", "a": {"min_value": enc(a), "max_value": enc(b),
                                       "include_min": imin, "include_max": imax}}
    if kind in ("isin", "notin"):
        if cls == "bool":
            vals = [w] if kind == "isin" and rng.random() < 0.5 else \
                ([True, False] if kind == "isin" else [not w])
        elif cls == "str":
            others = [x for x in str_variants(rng, w) if x != w] or [w + "q"]
            vals = rng.sample(others, min(len(others), rng.randint(0 if kind == "isin" else 1, 4)))
            if kind == "isin":
                vals.insert(rng.randrange(len(vals) + 1), w)
        else:
            ds = rng.sample([-6, -5, -4, -3, -2, -1, 1, 2, 3, 4, 5, 6],
                            rng.randint(0 if kind == "isin" else 1, 5))
            vals = [nb(d) for d in ds]
            if lo_hi:
                vals = [x for x in vals if lo_hi[0] <= x <= lo_hi[1]]
            if kind == "isin":
                vals.insert(rng.randrange(len(vals) + 1), w)
            elif not vals:
                return None
            if cls == "int" and all(abs(x) < 2 ** 52 for x in vals):
                # value lists often come from float data: the same integers
                # written as floats, or a list that also holds numbers with a
                # fraction (no integer equals those: they admit / forbid nothing)
                r = rng.random()
                if r < 0.1:
                    vals = [float(x) for x in vals]
                elif r < 0.22:
                    for _ in range(rng.choice([1, 1, 2])):
                        x = nb(rng.randint(-6, 6)) + rng.choice(FRACTIONS)
                        if lo_hi[0] <= x <= lo_hi[1]:   # representable after a cast
                            vals.insert(rng.randrange(len(vals) + 1), x)
        name = "allowed_values" if kind == "isin" else "forbidden_values"
        return {"k": kind, "a": {name: enc(vals)}}
    if kind == "str_matches":
        return {"k": kind, "a": {"pattern": _regex_for(rng, w, True)}}
    if kind == "str_contains":
        return {"k": kind, "a": {"pattern": _regex_for(rng, w, False)}}
    if kind == "str_startswith":
        n = rng.randint(1 if w else 0, len(w))
        return {"k": kind, "a": {"string": w[:n]}}
    if kind == "str_endswith":
        n = rng.randint(1 if w else 0, len(w))
        return {"k": kind, "a": {"string": w[len(w) - n:]}}
    if kind == "str_length":
        r = rng.random()
        mn = max(0, len(w) - rng.choice([0, 0, 1, 2]))
        mx = len(w) + rng.choice([0, 0, 1, 3])
        if r < 0.2:
            mn = None
        elif r < 0.4:
            mx = None
        return {"k": kind, "a": {"min_value": mn, "max_value": mx}}
    if kind == "unique_values_eq":
        return None
    # ---- custom checks --------------------------------------------------
    if kind == "c_strat":
        # a check + its own strategy, both made by a factory (closure over the
        # parameters): every check of one factory shares its code objects
        if cls == "int" and rng.random() < 0.4:
            m = rng.choice([2, 3, 5, 7, 10])
            a = {"fn": "mod", "m": m, "r": int(w) % m}
        else:
            a = {"fn": "between", "lo": enc(nb(-rng.choice([0, 1, 3, 20, 200]))),
                 "hi": enc(nb(rng.choice([0, 1, 3, 20, 200])))}
            if cls == "int" and not (lo_hi[0] <= dec(a["lo"]) and dec(a["hi"]) <= lo_hi[1]):
                return None
        a["ew"] = rng.random() < 0.4
        return {"k": "c_strat", "a": a}
    if kind == "c_aggn":
        # aggregate over the whole container whose verdict depends on which
        # elements are present (n is set by fix_aggregates once the size is known)
        fns = ["count_ge", "nunique_ge"]
        if cls in ORDERED:
            fns += ["any_ge", "any_le"]
        if cls in ("int", "float"):
            fns += ["mean_ge", "mean_le"]
        fn = rng.choice(fns)
        a = {"fn": fn}
        if fn in AGG_COUNTING:
            a["n"] = 1
        else:
            d = rng.choice([0, 0, 1, 5])
            a["b"] = enc(nb(-d) if fn.endswith("_ge") else nb(d))
        return {"k": "c_aggn", "a": a}
    if kind in ("c_ew", "c_vec", "c_agg"):
        if cls == "str":
            opts = [{"fn": "maxlen", "n": len(w) + rng.choice([0, 1, 4, 30])}]
            absent = [c for c in "qQ#@" if c not in w]
            if absent:
                opts.append({"fn": "noch", "ch": rng.choice(absent)})
            a = rng.choice(opts)
        elif cls in ("bool", "complex"):
            a = {"fn": "true"}
        elif cls == "int" and rng.random() < 0.35:
            m = rng.choice([2, 3])
            a = {"fn": "mod", "m": m, "r": int(w) % m}
        else:
            d = rng.choice([0, 1, 5, 100])
            a = ({"fn": "le", "b": enc(nb(d))} if rng.random() < 0.5
                 else {"fn": "ge", "b": enc(nb(-d))})
        return {"k": kind, "a": a}
    raise KeyError(kind)


RANK = {"eq": 0, "isin": 0, "in_range": 1, "c_strat": 1, "str_matches": 1,
        "str_startswith": 1, "str_endswith": 1, "str_contains": 2, "str_length": 2,
        "gt": 3, "ge": 3, "lt": 3, "le": 3, "ne": 4, "notin": 4}


def chain_support(chain, cands):
    n = 0
    for v in cands:
        try:
            if all(holds(c, v) for c in chain):
                n += 1
        except Exception:       # noqa: BLE001 - e.g. int(x) on odd values
            pass
    return n


def pick_dtype(rng, classes=None):
    classes = classes or list(CLASS_WEIGHT)
    cls = rng.choices(classes, [CLASS_WEIGHT[c] for c in classes])[0]
    return rng.choice(DTYPES[cls])


def gen_field(rng, dtype=None, name=None, n_checks=None, p_custom=0.18,
              allow_flags=True, witness=None, force=()):
    dtype = dtype or pick_dtype(rng)
    cls = CLASS_OF[dtype]
    w = gen_witness(rng, dtype) if witness is None else witness
    step = _step(rng, cls)
    if n_checks is None:
        n_checks = rng.choice([0, 1, 1, 1, 2, 2, 2, 3, 3])
    chain = []
    for _ in range(n_checks):
        for _try in range(6):
            if rng.random() < p_custom:
                kind = rng.choice(CUSTOM_KINDS[cls])
            else:
                kind = rng.choice(BUILTIN_KINDS[cls])
            c = gen_check(rng, kind, w, cls, dtype, step)
            if c is not None and holds(c, w):
                chain.append(c)
                break
    for kind in force:
        for _try in range(8):
            c = gen_check(rng, kind, w, cls, dtype, step)
            if c is not None and holds(c, w):
                if len(chain) >= 3:
                    chain.pop(rng.randrange(len(chain)))
                chain.insert(0 if rng.random() < 0.5 else rng.randrange(len(chain) + 1), c)
                break
    if rng.random() < 0.55:
        # the documented advice: most restrictive check first (otherwise the
        # chain is still valid, but hypothesis rarely finds an example)
        chain.sort(key=lambda c: RANK.get(c["k"], 5))
    if cls in ("dt", "td"):
        for c in chain:
            how = rng.choice(["pd", "pd", "pd", "pd", "py", "np", "np"])
            if c["k"] in ARG_KIND_CHECKS and how != "pd" and _arg_kind_ok(c, how, dtype):
                c["as"] = how
    cands = neighbours(rng, w, cls, dtype, step)
    for c in chain:      # isin lists contribute candidates as well
        if c["k"] == "isin":
            cands = cands + [x for x in dec(c["a"]["allowed_values"])
                             if not any(x == y for y in cands) and not is_fractional(x)]
    support = chain_support(chain, cands)
    assert support >= 1, (dtype, w, chain)
    f = {"dtype": dtype, "cls": cls, "witness": enc(w), "checks": chain,
         "nullable": False, "unique": False, "name": name, "regex": False,
         "support": support, "step": step}
    if allow_flags:
        r = rng.random()
        f["nullable"] = r < 0.35
        f["unique"] = 0.2 < r < 0.5          # 0.2..0.35: both flags
        if (f["nullable"] and supports_nulls(f) and len(chain) < 3
                and not any(c["k"] == "c_aggn" for c in chain) and rng.random() < 0.15):
            # nulls + an aggregate that is evaluated on the non-null elements
            c = gen_check(rng, "c_aggn", w, cls, dtype, step)
            chain.insert(rng.randrange(len(chain) + 1), c)
    return f


# time arguments can be handed to Check.* as pandas, python or numpy objects
ARG_KIND_CHECKS = {"eq", "ne", "gt", "ge", "lt", "le", "in_range", "isin", "notin"}


def _flat_args(c):
    out = []
    for x in c["a"].values():
        x = dec(x)
        out.extend(x if isinstance(x, list) else [x])
    return [x for x in out if isinstance(x, (pd.Timestamp, pd.Timedelta))]


def _arg_kind_ok(c, how, dtype):
    vals = _flat_args(c)
    if not vals:
        return False
    if how == "np":           # numpy datetimes carry no time zone
        return tz_of(dtype) is None
    # datetime.datetime / datetime.timedelta have microsecond resolution
    return all(v.value % 1000 == 0 for v in vals)


def as_kind(x, how):
    if isinstance(x, list):
        return [as_kind(y, how) for y in x]
    if isinstance(x, pd.Timestamp):
        return x.to_pydatetime() if how == "py" else x.to_datetime64()
    if isinstance(x, pd.Timedelta):
        return x.to_pytimedelta() if how == "py" else x.to_timedelta64()
    return x


# --------------------------------------------------------------------------
# contradictory chains (no value satisfies the chain): size >= 1, no nulls
# --------------------------------------------------------------------------
def gen_contradiction(rng, dtype=None):
    """field spec whose chain has an empty solution set (checked below with
    ``holds`` on the witness neighbourhood AND argued per pattern)"""
    dtype = dtype or pick_dtype(rng)
    cls = CLASS_OF[dtype]
    w = gen_witness(rng, dtype)
    if cls == "int":          # keep room for neighbours inside the range
        lo, hi = INT_RANGE[dtype]
        w = min(max(w, lo + 12), hi - 12)
    step = _step(rng, cls)
    nb = lambda d: enc(shift(w, cls, d, step))      # noqa: E731
    pats = []
    if cls in ORDERED:
        pats += [
            ("gt-lt-empty", [{"k": "gt", "a": {"min_value": nb(2)}},
                             {"k": "lt", "a": {"max_value": nb(-2)}}]),
            ("ge-le-empty", [{"k": "ge", "a": {"min_value": nb(1)}},
                             {"k": "le", "a": {"max_value": nb(-1)}}]),
            ("in_range-gt", [{"k": "in_range", "a": {"min_value": nb(-3), "max_value": nb(3),
                                                    "include_min": True, "include_max": True}},
                             {"k": "gt", "a": {"min_value": nb(3)}}]),
            ("in_range-lt", [{"k": "lt", "a": {"max_value": nb(-3)}},
                             {"k": "in_range", "a": {"min_value": nb(-3), "max_value": nb(3),
                                                    "include_min": True, "include_max": True}}]),
            ("isin-gt", [{"k": "isin", "a": {"allowed_values": [nb(-2), nb(0), nb(1)]}},
                         {"k": "gt", "a": {"min_value": nb(1)}}]),
            ("eq-lt", [{"k": "eq", "a": {"value": nb(0)}},
                       {"k": "lt", "a": {"max_value": nb(0)}}]),
        ]
    if cls == "int":
        pats.append(("int-open-interval-empty",
                     [{"k": "in_range", "a": {"min_value": nb(0), "max_value": nb(1),
                                              "include_min": False, "include_max": False}}]))
    if cls == "int" and abs(w) < 2 ** 52:
        # no integer lies between two fractions of the same unit interval
        fa, fb = rng.choice([(0.25, 0.75), (0.5, 0.5), (0.1, 0.9)])
        pats.append(("int-fractional-interval-empty",
                     [{"k": "in_range", "a": {"min_value": w + fa, "max_value": w + fb,
                                              "include_min": True, "include_max": True}}]))
        pats.append(("int-fractional-ge-le-empty",
                     [{"k": "ge", "a": {"min_value": w + fa}},
                      {"k": "le", "a": {"max_value": w + fb}}]))
    if cls == "bool":
        pats += [("eq-eq", [{"k": "eq", "a": {"value": True}}, {"k": "eq", "a": {"value": False}}]),
                 ("isin-notin", [{"k": "isin", "a": {"allowed_values": [w]}},
                                 {"k": "notin", "a": {"forbidden_values": [w]}}]),
                 ("eq-ne", [{"k": "eq", "a": {"value": w}}, {"k": "ne", "a": {"value": w}}])]
    if cls == "str":
        a, b = "ab" + w, "cd" + w
        pats += [
            ("eq-eq", [{"k": "eq", "a": {"value": a}}, {"k": "eq", "a": {"value": b}}]),
            ("eq-ne", [{"k": "eq", "a": {"value": a}}, {"k": "ne", "a": {"value": a}}]),
            ("isin-isin", [{"k": "isin", "a": {"allowed_values": [a, a + "x"]}},
                           {"k": "isin", "a": {"allowed_values": [b, b + "y"]}}]),
            ("isin-notin", [{"k": "isin", "a": {"allowed_values": [a, b]}},
                            {"k": "notin", "a": {"forbidden_values": [b, a, "zz"]}}]),
            ("len-startswith", [{"k": "str_length", "a": {"min_value": 0, "max_value": 2}},
                                {"k": "str_startswith", "a": {"string": "abcd"}}]),
            ("eq-endswith", [{"k": "eq", "a": {"value": "abc"}},
                             {"k": "str_endswith", "a": {"string": "x"}}]),
            ("isin-matches", [{"k": "isin", "a": {"allowed_values": ["a", "bb"]}},
                              {"k": "str_matches", "a": {"pattern": "c+"}}]),
            ("len-len", [{"k": "str_length", "a": {"min_value": 4, "max_value": None}},
                         {"k": "str_length", "a": {"min_value": None, "max_value": 2}}]),
            ("startswith-startswith", [{"k": "str_startswith", "a": {"string": "ab"}},
                                       {"k": "str_startswith", "a": {"string": "ba"}}]),
        ]
    if cls not in ("bool", "str"):
        pats += [
            ("eq-eq", [{"k": "eq", "a": {"value": nb(0)}}, {"k": "eq", "a": {"value": nb(1)}}]),
            ("eq-ne", [{"k": "eq", "a": {"value": nb(0)}}, {"k": "ne", "a": {"value": nb(0)}}]),
            ("isin-isin", [{"k": "isin", "a": {"allowed_values": [nb(0), nb(1)]}},
                           {"k": "isin", "a": {"allowed_values": [nb(2), nb(3)]}}]),
            ("isin-notin", [{"k": "isin", "a": {"allowed_values": [nb(0), nb(1)]}},
                            {"k": "notin", "a": {"forbidden_values": [nb(1), nb(0), nb(4)]}}]),
            ("eq-isin", [{"k": "eq", "a": {"value": nb(0)}},
                         {"k": "isin", "a": {"allowed_values": [nb(2), nb(3)]}}]),
        ]
    pat, chain = rng.choice(pats)
    chain = list(chain)
    # every order; sometimes a third, harmless check anywhere in the chain
    rng.shuffle(chain)
    if rng.random() < 0.3:
        extra = gen_check(rng, "ne", w, cls, dtype, step)
        chain.insert(rng.randrange(len(chain) + 1), extra)
    cands = neighbours(rng, w, cls, dtype, step)
    if cls == "str":
        cands = cands + ["abc", "a", "bb", "abcd", "ab", "ba", "ab" + w, "cd" + w]
    assert chain_support(chain, cands) == 0, (pat, chain)
    return {"dtype": dtype, "cls": cls, "witness": None, "checks": chain,
            "nullable": False, "unique": False, "name": None, "regex": False,
            "support": 0, "pattern": pat}


def gen_overconstrained_unique(rng):
    """unique field whose chain admits exactly one value (bool: two), asked for
    more rows than there are values"""
    if rng.random() < 0.3:
        dtype = rng.choice(DTYPES["bool"])
        f = gen_field(rng, dtype, n_checks=0, allow_flags=False)
        f.update(unique=True, support=2, pattern="bool-unique-size>2")
        return f, rng.choice([3, 4, 5])
    dtype = pick_dtype(rng, ["int", "float", "str", "dt", "td"])
    f = gen_field(rng, dtype, n_checks=0, allow_flags=False)
    w = dec(f["witness"])
    if rng.random() < 0.5:
        f["checks"] = [{"k": "eq", "a": {"value": enc(w)}}]
        pat = "eq-unique-size>1"
    else:
        f["checks"] = [{"k": "isin", "a": {"allowed_values": [enc(w)]}}]
        pat = "isin1-unique-size>1"
    f.update(unique=True, support=1, pattern=pat)
    return f, rng.choice([2, 3, 5])


# --------------------------------------------------------------------------
# cases
# --------------------------------------------------------------------------
KINDS = ["series", "column", "index", "multiindex", "frame"]
SIZES = [None, 0, 1, 2, 3, 4, 5]


def _size_for(rng, fields, zero_ok=True):
    size = rng.choice(SIZES)
    if size == 0 and not zero_ok and rng.random() < 0.8:
        # SeriesSchema/Column strategies filter out empty series: size=0 always
        # ends in Unsatisfiable (not decided); keep only a few of those
        size = rng.choice([1, 2, 3])
    cap = min([f["support"] for f in fields if f["unique"]] or [99])
    if size is None:
        # size=None lets hypothesis choose the length: only sound for unique
        # fields when the chain has plenty of values
        return None if cap >= 8 else min(cap, rng.choice([1, 2, 3]))
    return min(size, cap)


REGEX_NAMES = [r"r{i}_[a-c]", r"r{i}_\d", r"r{i}\.x+", r"r{i}_(a|b)", r"r{i}-[xy]{{2}}"]


def gen_case(rng, kind=None, family=None):
    """-> case dict {family, kind, size, mode, n_regex, fields / frame spec}"""
    family = family or rng.choices(
        ["sat", "contradiction", "overunique"], [86, 10, 4])[0]
    kind = kind or rng.choices(KINDS, [24, 16, 14, 10, 36])[0]
    mode = "example" if rng.random() < 0.2 else "strategy"
    case = {"family": family, "kind": kind, "mode": mode, "n_regex": 1}
    if family == "contradiction":
        f = gen_contradiction(rng)
        size = rng.choice([1, 2, 3, 5])
    elif family == "overunique":
        f, size = gen_overconstrained_unique(rng)
    if family != "sat":
        if kind in ("column", "frame"):
            f["name"] = "c0"
        if kind == "multiindex":
            g = gen_field(rng, name="l1", allow_flags=False)
            f["name"] = "l0"
            case["fields"] = [f, g] if rng.random() < 0.5 else [g, f]
        elif kind == "frame":
            g = gen_field(rng, name="c1", allow_flags=False)
            case["fields"] = [f, g] if rng.random() < 0.5 else [g, f]
            case["index"] = None
            case["df_checks"] = []
            case["df_unique"] = None
            case["df_dtype"] = None
        else:
            case["fields"] = [f]
        case["size"] = size
        return case

    # a factory-made check + strategy (closure over its parameters) on the
    # first field of some cases: see gen_followers
    fkw = {}
    if rng.random() < 0.07:
        fkw = {"dtype": pick_dtype(rng, ["int", "float"]), "force": ("c_strat",)}
    elif rng.random() < 0.08:
        # integer field with a fractional bound (float argument)
        fkw = {"dtype": rng.choice(DTYPES["int"]), "force": ("fbound",)}
    if kind == "series":
        f = gen_field(rng, name=rng.choice([None, "s"]), **fkw)
        case["fields"] = [f]
        case["index"] = None
        if rng.random() < 0.2:
            case["index"] = gen_index_spec(rng)
        case["size"] = _size_for(rng, [f] + _ix_fields(case["index"]), zero_ok=False)
    elif kind == "column":
        f = gen_field(rng, name=rng.choice(["c", "col 1", "a.b"]), **fkw)
        case["fields"] = [f]
        case["size"] = _size_for(rng, [f], zero_ok=False)
    elif kind == "index":
        f = gen_field(rng, name=rng.choice([None, "ix"]), **fkw)
        case["fields"] = [f]
        case["size"] = _size_for(rng, [f])
    elif kind == "multiindex":
        n = rng.choice([2, 2, 3])
        named = rng.random() < 0.8
        fs = [gen_field(rng, name=(f"l{i}" if named else None), **(fkw if i == 0 else {}))
              for i in range(n)]
        case["fields"] = fs
        case["size"] = _size_for(rng, fs)
    else:
        gen_frame(rng, case, fkw)
    fix_aggregates(rng, case)
    if case["mode"] == "example" and any(
            c["k"] in FALLBACK_ONLY for f in case["fields"] + _ix_fields(case.get("index"))
            for c in f["checks"]) or any(c["k"] in FALLBACK_ONLY for c in case.get("df_checks") or []):
        # example() cannot be given a time limit; whole-object rejection
        # sampling is only driven through strategy()
        case["mode"] = "strategy"
    return case


FALLBACK_ONLY = {"c_vec", "c_agg", "c_dfvec", "c_dfagg", "c_aggn", "c_dfaggn"}
CUSTOM_FIELD_KINDS = {"c_ew", "c_vec", "c_agg", "c_strat", "c_aggn"}


def fix_aggregates(rng, case):
    """counting aggregates ask for at most as many elements as the container
    will have (size None: hypothesis chooses the length; ask for little)"""
    size = case["size"]
    m = 2 if size is None else size
    for f in list(case["fields"]) + _ix_fields(case.get("index")):
        for c in f["checks"]:
            if c["k"] == "c_aggn" and c["a"]["fn"] in AGG_COUNTING:
                n = rng.randint(1, max(1, m))
                if c["a"]["fn"] == "nunique_ge":
                    n = min(n, f["support"])
                c["a"]["n"] = min(n, m)
    for c in case.get("df_checks") or []:
        if c["k"] == "c_dfaggn":
            c["a"]["n"] = rng.randint(0, m * len(case["fields"]))


def has_custom(case):
    return any(c["k"] in CUSTOM_FIELD_KINDS
               for f in list(case["fields"]) + _ix_fields(case.get("index"))
               for c in f["checks"])


def sibling(rng, case):
    """the same schema made by the same factories with other parameters: every
    custom check of every field is drawn again around the SAME witness (so the
    rest of the chain stays valid); names, dtypes, flags, builtin checks and
    the code objects of the custom checks are identical"""
    import copy
    case = copy.deepcopy(case)
    for f in list(case["fields"]) + _ix_fields(case.get("index")):
        if "step" not in f or f["witness"] is None:
            continue
        w, cls, dtype, step = dec(f["witness"]), f["cls"], f["dtype"], f["step"]
        for i, c in enumerate(f["checks"]):
            if c["k"] not in CUSTOM_FIELD_KINDS:
                continue
            for _try in range(12):
                c2 = gen_check(rng, c["k"], w, cls, dtype, step)
                if (c2 is not None and c2["a"]["fn"] == c["a"]["fn"] and holds(c2, w)
                        and c2["a"].get("ew") == c["a"].get("ew") and c2 != c):
                    f["checks"][i] = c2
                    break
        cands = neighbours(rng, w, cls, dtype, step)
        for c in f["checks"]:
            if c["k"] == "isin":
                cands = cands + [x for x in dec(c["a"]["allowed_values"])
                                 if not any(x == y for y in cands) and not is_fractional(x)]
        f["support"] = max(1, chain_support(f["checks"], cands))
    _reclip(case)
    fix_aggregates(rng, case)
    return case


def _reclip(case):
    uniq = [f for f in list(case["fields"]) + _ix_fields(case.get("index"))
            if f["unique"] or (case.get("df_unique") and f["name"] in case["df_unique"])]
    cap = min([f["support"] for f in uniq] or [99])
    if case["size"] is None:
        if cap < 8:
            case["size"] = min(cap, 2)
    else:
        case["size"] = min(case["size"], cap)


def gen_followers(rng, case):
    """cases executed right after ``case`` in the same process: strategies are
    built per schema, whatever was built before must not leak into them.
      params: sibling schemas (same factories, other parameters)
      resize: the SAME schema object asked for another size"""
    out = []
    if case["family"] != "sat":
        return out
    if has_custom(case) and rng.random() < 0.3:
        prev = case
        for _ in range(rng.choice([1, 1, 2])):
            prev = sibling(rng, prev)
            out.append(dict(prev, follows="params"))
    elif rng.random() < 0.05:
        import copy
        c2 = copy.deepcopy(case)
        sizes = [z for z in (1, 2, 3, 4, 5) if z != case["size"]]
        c2["size"] = rng.choice(sizes)
        _reclip(c2)
        fix_aggregates(rng, c2)
        if c2["size"] != case["size"]:
            out.append(dict(c2, follows="resize"))
    return out


def gen_cold_case(rng, j):
    """simple satisfiable case for the fresh-interpreter family: 1-2 builtin
    checks per field, no flags, inclusive bounds, plain strings"""
    kind = KINDS[j % len(KINDS)]
    case = {"family": "sat", "kind": kind, "mode": "strategy", "n_regex": 1,
            "size": rng.choice([1, 2, 3])}

    def fld(name):
        dtype = rng.choice(["int64", "int32", "float64", "str", "datetime64[ns]"])
        w = None
        if dtype == "str":
            w = "".join(rng.choice("abcxyz") for _ in range(rng.randint(1, 4)))
        if dtype == "datetime64[ns]":
            w = pd.Timestamp("2001-02-03") + pd.Timedelta(rng.randint(0, 1000), unit="D")
        f = gen_field(rng, dtype, name=name, n_checks=rng.choice([1, 2]), p_custom=0.0,
                      allow_flags=False, witness=w)
        for c in f["checks"]:
            if c["k"] == "in_range":
                c["a"]["include_min"] = c["a"]["include_max"] = True
        f["checks"].sort(key=lambda c: RANK.get(c["k"], 5))
        f["checks"] = [c for c in f["checks"] if c["k"] != "eq"] or f["checks"][:1]
        return f

    if kind == "multiindex":
        case["fields"] = [fld("l0"), fld("l1")]
    elif kind == "frame":
        case["fields"] = [fld("c0"), fld("c1")]
        case.update(index={"multi": False, "fields": [fld("ix")]} if rng.random() < 0.5 else None,
                    df_checks=[], df_unique=None, df_dtype=None)
    else:
        case["fields"] = [fld("c" if kind == "column" else None)]
        if kind == "series":
            case["index"] = None
    return case


def _ix_fields(ix):
    return [] if not ix else ix["fields"]


def gen_index_spec(rng):
    if rng.random() < 0.7:
        return {"multi": False, "fields": [gen_field(rng, name=rng.choice([None, "ix"]))]}
    n = rng.choice([2, 3])
    return {"multi": True,
            "fields": [gen_field(rng, name=f"l{i}") for i in range(n)]}


def gen_frame(rng, case, fkw=None):
    fkw = fkw or {}
    ncols = rng.choice([1, 2, 2, 3])
    df_checks = []
    fields = []
    with_df_checks = rng.random() < 0.22
    if with_df_checks:
        # frame-level checks are applied to every column, so all columns share
        # a dtype class and the arguments are chosen around ALL witnesses
        cls = rng.choices(["int", "float", "str", "dt"], [4, 3, 2, 1])[0]
        if cls == "int":
            dts = [rng.choice(["int64", "int32", "int16", "Int64"]) for _ in range(ncols)]
        else:
            dts = [rng.choice(DTYPES[cls]) for _ in range(ncols)]
        if cls == "dt":
            dts = [dts[0]] * ncols
        fields = [gen_field(rng, dt, name=f"c{i}", n_checks=rng.choice([0, 0, 1, 2]))
                  for i, dt in enumerate(dts)]
        ws = [dec(f["witness"]) for f in fields]
        df_checks = gen_df_checks(rng, cls, dts, ws)
    else:
        for i in range(ncols):
            f = gen_field(rng, name=f"c{i}", **(fkw if i == 0 else {}))
            if rng.random() < 0.12:
                f["regex"] = True
                f["name"] = rng.choice(REGEX_NAMES).format(i=i)
            fields.append(f)
    case["fields"] = fields
    case["df_checks"] = df_checks
    case["index"] = gen_index_spec(rng) if rng.random() < 0.3 else None
    case["df_unique"] = None
    if rng.random() < 0.1:
        names = [f["name"] for f in fields if not f["regex"]]
        if names:
            case["df_unique"] = rng.sample(names, rng.randint(1, len(names)))
    case["df_dtype"] = None
    if not with_df_checks and rng.random() < 0.06:
        # frame-level dtype: every column is declared with the same dtype
        dt = pick_dtype(rng)
        fields[:] = [gen_field(rng, dt, name=f"c{i}") for i in range(ncols)]
        case["df_dtype"] = dt
    case["n_regex"] = rng.choice([1, 1, 2]) if any(f["regex"] for f in fields) else 1
    frame_options(rng, case, 0.25)
    uniq = [f for f in fields if f["unique"] or
            (case["df_unique"] and f["name"] in case["df_unique"])]
    pseudo = [dict(f, unique=True) for f in uniq]
    case["size"] = _size_for(rng, pseudo + _ix_fields(case["index"]))


def frame_options(rng, case, p_ordered):
    """schema-wide options that constrain the SET and ORDER of the columns of
    the frame: ordered=True (columns in declaration order, regex columns
    expanded in place), strict=True (no column the schema does not declare),
    strict="filter" (undeclared columns are dropped)"""
    case["ordered"] = rng.random() < p_ordered
    case["strict"] = rng.choice([False, False, False, True, True, "filter"])


def regex_before_plain(case):
    """a regex column is declared ahead of a plainly named one"""
    seen = False
    for f in case["fields"]:
        if f.get("regex"):
            seen = True
        elif seen:
            return True
    return False


# --------------------------------------------------------------------------
# family "regex": frames whose columns are (also) regex columns. Everything
# dataframe_strategy does per column - unique / nullable flags and the null
# mask that honours them, dtype conversion, str mapping, fallback filters of
# checks without strategy, row strategies for frame-level checks - has to be
# done for the GENERATED column names, not for the keys of the schema
# --------------------------------------------------------------------------
FLAG_COMBOS = [(True, True), (True, False), (False, True), (False, False)]
N_REGEX_CHOICES = [1, 2, 2, 3]


def _null_dtype(rng, p=0.8):
    """a dtype, most of the time one that can hold nulls"""
    dt = pick_dtype(rng)
    if rng.random() < p:
        for _ in range(8):
            if supports_nulls({"cls": CLASS_OF[dt], "dtype": dt}):
                break
            dt = pick_dtype(rng)
    return dt


def _clip_size(rng, size, fields, df_unique=None):
    uniq = [f for f in fields if f["unique"] or (df_unique and f["name"] in df_unique)]
    cap = min([f["support"] for f in uniq] or [99])
    if size is None:
        return None if cap >= 8 else min(cap, rng.choice([2, 3]))
    return min(size, cap)


def gen_regex_case(rng, j):
    """frame case with 1-2 regex columns (n_regex_columns 1-3) next to 0-2
    plain columns. The first regex column takes the j-th combination of
    (nullable, unique), so every run sees all four equally often; sizes are
    mostly explicit and >= 2 (the frame strategy only inserts nulls for an
    explicit size). Variants: frame-level checks (row strategy), frame-level
    dtype, frame-level unique=[...] on the plain columns, index component"""
    case = {"family": "sat", "kind": "frame", "focus": "regex",
            "mode": "example" if rng.random() < 0.15 else "strategy",
            "n_regex": rng.choice(N_REGEX_CHOICES),
            "df_checks": [], "df_unique": None, "df_dtype": None}
    variant = rng.choices(["plain", "df_checks", "df_dtype", "df_unique"], [58, 16, 10, 16])[0]
    n_rx = rng.choice([1, 1, 1, 2])
    n_plain = rng.choice([0, 1, 1, 2])
    if variant == "df_unique":
        n_plain = max(1, n_plain)
    ncols = n_rx + n_plain
    nchk = lambda: rng.choice([0, 0, 1, 1, 2])      # noqa: E731
    if variant == "df_checks":
        cls = rng.choices(["int", "float", "str", "dt"], [3, 4, 3, 1])[0]
        if cls == "int":
            dts = [rng.choice(["Int64", "Int32", "int64", "Int16"]) for _ in range(ncols)]
        else:
            dts = [rng.choice(DTYPES[cls]) for _ in range(ncols)]
        if cls == "dt":
            dts = [dts[0]] * ncols
        fields = [gen_field(rng, dt, name=f"c{i}", n_checks=rng.choice([0, 0, 1]),
                            allow_flags=i >= n_rx) for i, dt in enumerate(dts)]
        case["df_checks"] = gen_df_checks(rng, cls, dts, [dec(f["witness"]) for f in fields])
    elif variant == "df_dtype":
        dt = _null_dtype(rng)
        fields = [gen_field(rng, dt, name=f"c{i}", n_checks=nchk(), allow_flags=i >= n_rx)
                  for i in range(ncols)]
        case["df_dtype"] = dt
    else:
        fields = [gen_field(rng, _null_dtype(rng) if i < n_rx else None, name=f"c{i}",
                            n_checks=nchk(), allow_flags=i >= n_rx) for i in range(ncols)]
    for i in range(n_rx):
        f = fields[i]
        f["regex"] = True
        f["name"] = rng.choice(REGEX_NAMES).format(i=i)
        f["nullable"], f["unique"] = FLAG_COMBOS[j % 4] if i == 0 else rng.choice(FLAG_COMBOS)
    if variant == "df_unique":
        names = [f["name"] for f in fields if not f["regex"]]
        case["df_unique"] = rng.sample(names, rng.randint(1, len(names)))
    rng.shuffle(fields)         # the regex columns are not always the first ones
    case["fields"] = fields
    case["index"] = gen_index_spec(rng) if rng.random() < 0.2 else None
    frame_options(rng, case, 0.4)
    size = rng.choice([2, 3, 3, 4, 4, 5, 5, 5, None, 1, 0])
    case["size"] = _clip_size(rng, size, fields + _ix_fields(case["index"]), case["df_unique"])
    fix_aggregates(rng, case)
    if case["mode"] == "example" and (has_custom(case) or any(
            c["k"].startswith("c_") for c in case["df_checks"])):
        # example() cannot be given a time limit: builtin checks only
        case["mode"] = "strategy"
    return case


def gen_df_checks(rng, cls, dts, ws):
    out = []
    n = rng.choice([1, 1, 2])
    for _ in range(n):
        r = rng.random()
        if cls == "str":
            mx = max(len(w) for w in ws)
            opts = [{"k": "ne", "a": {"value": "zz"}},
                    {"k": "isin", "a": {"allowed_values": sorted(set(ws)) + ["zz"]}},
                    {"k": "notin", "a": {"forbidden_values": ["zz", "q q"]}},
                    {"k": "c_dfvec", "a": {"fn": "maxlen", "n": mx + 3}},
                    {"k": "c_dfaggn", "a": {"fn": "count_ge", "n": 0}}]
            c = rng.choice(opts)
        else:
            lo, hi = min(ws), max(ws)
            step = 0.25 if cls == "float" else (10 ** 9 if cls == "dt" else 1)
            dcls = cls
            d = rng.choice([0, 1, 3, 50])
            a, b = shift(lo, dcls, -d, step), shift(hi, dcls, d, step)
            if cls == "int":
                rg = [INT_RANGE[x] for x in dts]
                a = max(a, max(x[0] for x in rg))
                b = min(b, min(x[1] for x in rg))
            opts = [{"k": "ge", "a": {"min_value": enc(a)}},
                    {"k": "le", "a": {"max_value": enc(b)}},
                    {"k": "in_range", "a": {"min_value": enc(a), "max_value": enc(b),
                                            "include_min": True, "include_max": True}},
                    {"k": "isin", "a": {"allowed_values": enc(sorted(set(ws)) + [b])}},
                    {"k": "c_dfew", "a": {"fn": "le", "b": enc(b)}},
                    {"k": "c_dfew", "a": {"fn": "ge", "b": enc(a)}},
                    {"k": "c_dfvec", "a": {"fn": "ge", "b": enc(a)}},
                    {"k": "c_dfagg", "a": {"fn": "le", "b": enc(b)}},
                    {"k": "c_dfaggn", "a": {"fn": "count_ge", "n": 0}}]
            if d:
                opts.append({"k": "ne", "a": {"value": enc(a)}})
                opts.append({"k": "gt", "a": {"min_value": enc(a)}})
                opts.append({"k": "notin", "a": {"forbidden_values": enc([a, b])}})
            c = rng.choice(opts)
        if all(holds(c, w) for w in ws):
            out.append(c)
    return out


# --------------------------------------------------------------------------
# builders: spec -> real pandera objects
# --------------------------------------------------------------------------
def _np_type(dtype):
    return np.dtype(dtype.lower() if dtype[0] in "IUF" else dtype).type


def build_check(chk, dtype=None):
    import pandera as pa
    k, a = chk["k"], {n: dec(x) for n, x in chk["a"].items()}
    if not k.startswith("c_"):
        if chk.get("as"):
            a = {n: as_kind(x, chk["as"]) for n, x in a.items()}
        return getattr(pa.Check, k)(**a)
    raw = CUSTOM[chk["a"]["fn"]][0](chk["a"])
    if k == "c_aggn":
        return pa.Check(_aggregate(chk["a"]["fn"], a), name=f"c_aggn_{chk['a']['fn']}")
    if k == "c_dfaggn":
        n = a["n"]
        return pa.Check(lambda df: int(df.count().sum()) >= n, name="c_dfaggn_count_ge")

    def pred(x):
        # null tolerant: whether pandera hands nulls to a custom check depends
        # on the container; the custom checks never constrain nulls
        try:
            if x is None or x is pd.NaT or x is pd.NA or x != x:
                return True
        except (TypeError, ValueError):
            pass
        return bool(raw(x))

    if k == "c_ew":
        return pa.Check(pred, element_wise=True, name=f"c_ew_{chk['a']['fn']}")
    if k == "c_vec":
        return pa.Check(lambda s: s.map(pred).astype(bool), name=f"c_vec_{chk['a']['fn']}")
    if k == "c_agg":
        return pa.Check(lambda s: bool(all(pred(x) for x in s)), name=f"c_agg_{chk['a']['fn']}")
    if k == "c_dfew":
        # frame-level element-wise checks see a ROW (Series) in validate() and
        # a scalar in the strategy's fallback filter: written to serve both
        b = a["b"]
        if chk["a"]["fn"] == "le":
            return pa.Check(lambda x: (x <= b) | pd.isna(x), element_wise=True, name="c_dfew_le")
        return pa.Check(lambda x: (x >= b) | pd.isna(x), element_wise=True, name="c_dfew_ge")
    if k == "c_dfvec":
        return pa.Check(lambda df: df.apply(lambda col: col.map(pred)).astype(bool),
                        name=f"c_dfvec_{chk['a']['fn']}")
    if k == "c_dfagg":
        return pa.Check(lambda df: bool(all(pred(x) for col in df for x in df[col])),
                        name=f"c_dfagg_{chk['a']['fn']}")
    if k == "c_strat":
        return _factory_check(chk["a"]["fn"], a, pred)
    raise KeyError(k)


def _factory_check(fn, a, pred):
    """custom check + custom strategy, the documented pattern; the functions
    are closures, so all checks of one (fn, element_wise) family share their
    code objects and differ in the captured parameters only"""
    import hypothesis.strategies as st
    import pandera as pa
    from pandera import strategies as pst
    if fn == "between":
        lo, hi = a["lo"], a["hi"]

        def strat(pandera_dtype, strategy=None):
            if strategy is None:
                base = (st.integers(lo, hi) if isinstance(lo, int)
                        else st.floats(lo, hi, allow_nan=False))
                return base.map(pst.to_numpy_dtype(pandera_dtype).type)
            return strategy.filter(lambda v: lo <= v <= hi)

        vec = lambda s: s.between(lo, hi)       # noqa: E731
    elif fn == "mod":
        m, r = a["m"], a["r"]

        def strat(pandera_dtype, strategy=None):
            if strategy is None:
                np_dtype = pst.to_numpy_dtype(pandera_dtype)
                info = np.iinfo(np_dtype)
                qlo, qhi = -((r - int(info.min)) // m), (int(info.max) - r) // m
                return st.integers(max(qlo, -1000), min(qhi, 1000)).map(
                    lambda q: q * m + r).map(np_dtype.type)
            return strategy.filter(lambda v: int(v) % m == r)

        vec = lambda s: s.map(pred).astype(bool)    # noqa: E731
    else:
        raise KeyError(fn)
    if a.get("ew"):
        return pa.Check(pred, element_wise=True, strategy=strat, name=f"c_strat_{fn}")
    return pa.Check(vec, strategy=strat, name=f"c_strat_{fn}")


def _aggregate(fn, a):
    """scalar verdict over the container validate() hands to the check (for
    field checks: the non-null elements)"""
    n, b = a.get("n"), a.get("b")
    if fn == "count_ge":
        return lambda s: int(s.notna().sum()) >= n
    if fn == "nunique_ge":
        return lambda s: int(s.nunique()) >= n
    if fn == "any_ge":
        return lambda s: bool((s.dropna() >= b).any())
    if fn == "any_le":
        return lambda s: bool((s.dropna() <= b).any())
    if fn == "mean_ge":
        return lambda s: len(s.dropna()) > 0 and bool(float(s.dropna().mean()) >= b)
    if fn == "mean_le":
        return lambda s: len(s.dropna()) > 0 and bool(float(s.dropna().mean()) <= b)
    raise KeyError(fn)


def _common(f):
    return dict(checks=[build_check(c, f["dtype"]) for c in f["checks"]],
                nullable=f["nullable"], unique=f["unique"])


def build_index(ix):
    import pandera as pa
    if ix is None:
        return None
    if not ix["multi"]:
        f = ix["fields"][0]
        return pa.Index(f["dtype"], name=f["name"], **_common(f))
    return pa.MultiIndex([pa.Index(f["dtype"], name=f["name"], **_common(f))
                          for f in ix["fields"]])


def build(case):
    """-> pandera schema object for the case"""
    import pandera as pa
    kind, fs = case["kind"], case["fields"]
    if kind == "series":
        f = fs[0]
        return pa.SeriesSchema(f["dtype"], name=f["name"],
                               index=build_index(case.get("index")), **_common(f))
    if kind == "column":
        f = fs[0]
        return pa.Column(f["dtype"], name=f["name"], **_common(f))
    if kind == "index":
        f = fs[0]
        return pa.Index(f["dtype"], name=f["name"], **_common(f))
    if kind == "multiindex":
        return pa.MultiIndex([pa.Index(f["dtype"], name=f["name"], **_common(f))
                              for f in fs])
    cols = {}
    for f in fs:
        cols[f["name"]] = pa.Column(f["dtype"], regex=f["regex"], **_common(f))
    return pa.DataFrameSchema(
        cols, checks=[build_check(c) for c in case.get("df_checks", [])],
        index=build_index(case.get("index")), unique=case.get("df_unique"),
        dtype=case.get("df_dtype"), ordered=bool(case.get("ordered")),
        strict=case.get("strict") or False)


# --------------------------------------------------------------------------
# directed corpus: one tiny, fixed case per call site where the unchanged tree
# was seen to emit invalid data (so every run visits each of them, whatever
# the seed), written in the same spec language as the generated cases
# --------------------------------------------------------------------------
def _F(dtype, checks=(), nullable=False, unique=False, name=None, witness=None, support=9,
       regex=False):
    return {"dtype": dtype, "cls": CLASS_OF[dtype], "witness": enc(witness),
            "checks": [{"k": k, "a": {n: enc(v) for n, v in a.items()}} for k, a in checks],
            "nullable": nullable, "unique": unique, "name": name, "regex": regex,
            "support": support}


def _case(kind, fields, size, family="sat", **kw):
    c = {"family": family, "kind": kind, "mode": "strategy", "n_regex": kw.pop("n_regex", 1),
         "fields": fields, "size": size}
    if kind == "series":
        c["index"] = kw.pop("index", None)
    if kind == "frame":
        c.update(index=kw.pop("index", None), df_checks=kw.pop("df_checks", []),
                 df_unique=kw.pop("df_unique", None), df_dtype=None,
                 ordered=kw.pop("ordered", False), strict=kw.pop("strict", False))
    if family != "sat":
        for f in fields:
            f["pattern"] = kw.get("pattern", "directed")
    return c


def directed_cases():
    ts = pd.Timestamp("2020-01-01 00:00:00.000000001")
    tk = pd.Timestamp("2020-01-01 12:00", tz="Asia/Tokyo")
    chk = lambda k, **a: (k, a)       # noqa: E731
    return [
        _case("series", [_F("str", [chk("str_startswith", string="a.b")], witness="a.bc")], 2),
        _case("series", [_F("str", [chk("str_endswith", string="x|y")], witness="zx|y")], 2),
        _case("series", [_F("int64", [chk("isin", allowed_values=[1, 2]), chk("eq", value=7)])], 2,
              family="contradiction", pattern="directed:isin-eq"),
        _case("series", [_F("int64", [chk("ne", value=7), chk("eq", value=7)])], 2,
              family="contradiction", pattern="directed:ne-eq"),
        _case("series", [_F("uint8", [chk("in_range", min_value=0, max_value=2,
                                          include_min=False, include_max=False)], witness=1)], 3),
        _case("series", [_F("datetime64[ns]", [chk(
            "in_range", min_value=pd.Timestamp("2020-01-01"), max_value=ts + pd.Timedelta(1, unit="ns"),
            include_min=False, include_max=False)], witness=ts)], 3),
        _case("series", [_F("float64", nullable=True, unique=True, witness=0.5)], 3),
        _case("frame", [_F("float64", nullable=True, name="a", witness=0.5)], 3, df_unique=["a"]),
        _case("series", [_F("int64", nullable=True, witness=1)], 3),
        _case("frame", [_F("bool", nullable=True, name="a", witness=True)], 3),
        _case("series", [_F("int64", witness=1)], 2,
              index={"multi": False, "fields": [_F("str", name="k", witness="a")]}),
        _case("index", [_F("datetime64[ns]", [chk("eq", value=ts)], witness=ts)], 1),
        _case("frame", [_F("timedelta64[ns]", [chk("isin", allowed_values=[pd.Timedelta(1501, unit="ns")])],
                           name="a", witness=pd.Timedelta(1501, unit="ns"))], 1),
        _case("frame", [_F("datetime64[ns, Asia/Tokyo]", [chk("eq", value=tk)], name="a", witness=tk)], 1),
        _case("frame", [_F("int64", [chk("lt", max_value=10)], name="a", witness=3)], 3,
              df_checks=[{"k": "ge", "a": {"min_value": 0}}]),
        _case("multiindex", [_F("string", name="a", witness="x"), _F("int64", name="b", witness=1)], 2),
        _case("series", [_F("str", [chk("eq", value="a\x00")], witness="a\x00", support=1)], 2),
        _case("index", [_F("int64", [chk("in_range", min_value=0, max_value=9, include_min=True,
                                         include_max=True),
                                     ("c_vec", {"fn": "mod", "m": 2, "r": 0})], witness=4)], 3),
        # nulls are inserted before the whole-container filters judge the data
        _case("series", [_F("float64", [chk("in_range", min_value=-10.0, max_value=10.0,
                                            include_min=True, include_max=True),
                                        ("c_aggn", {"fn": "count_ge", "n": 2})],
                            nullable=True, witness=1.0)], 3),
        _case("column", [_F("str", [("c_aggn", {"fn": "nunique_ge", "n": 2})], nullable=True,
                            name="c", witness="a")], 3),
        _case("frame", [_F("float64", [("c_aggn", {"fn": "mean_ge", "b": 0.0})], nullable=True,
                           name="a", witness=1.0)], 3),
        # bounds exactly on the zero of the class
        _case("series", [_F("timedelta64[ns]", [chk("ge", min_value=pd.Timedelta(0))],
                            witness=pd.Timedelta(1, unit="s"))], 3),
        _case("index", [_F("timedelta64[ns]", [chk(
            "in_range", min_value=pd.Timedelta(-1, unit="D"), max_value=pd.Timedelta(0),
            include_min=True, include_max=True)], witness=pd.Timedelta(-1, unit="s"))], 3),
        _case("frame", [_F("float64", [chk("le", max_value=0.0)], name="a", witness=-1.0),
                        _F("int64", [chk("ge", min_value=0)], name="b", witness=1)], 3),
        # a SEQUENCE: two schemas made by the same check+strategy factory
        [_case("series", [_F("int64", [("c_strat", {"fn": "between", "lo": lo, "hi": lo + 5,
                                                    "ew": False})], witness=lo + 1)], 3)
         for lo in (0, 100)],
        [_case("frame", [_F("int64", [chk("ge", min_value=0),
                                      ("c_strat", {"fn": "mod", "m": m, "r": 0, "ew": True})],
                            name="a", witness=0)], 2)
         for m in (3, 7)],
        # regex columns: flags, null masks and dtypes belong to the GENERATED
        # column names (nullable x unique, next to plain columns, with checks)
        _case("frame", [_F("float64", nullable=True, unique=True, name=r"m_\d", regex=True,
                           witness=0.5)], 5, n_regex=2),
        _case("frame", [_F("int64", unique=True, name="id", witness=1),
                        _F("str", [chk("str_length", min_value=1, max_value=4)], nullable=True,
                           unique=True, name="t_[a-c]", regex=True, witness="ab")], 5, n_regex=3),
        _case("frame", [_F("Int64", [chk("ge", min_value=0)], nullable=True, name="n_(a|b)",
                           regex=True, witness=1),
                        _F("datetime64[ns]", nullable=True, unique=True, name=r"d\.x+", regex=True,
                           witness=pd.Timestamp("2020-01-01"))], 4, n_regex=2),
        # schema-wide column order / column set: regex columns are expanded in
        # place, ahead of, between and behind plainly named columns
        _case("frame", [_F("float64", name=r"m_\d", regex=True, witness=0.5),
                        _F("int64", name="id", witness=1)], 2, ordered=True),
        _case("frame", [_F("int64", name="a", witness=1),
                        _F("str", name="t_[a-c]", regex=True, witness="ab"),
                        _F("float64", name="z", witness=0.5),
                        _F("bool", name=r"f\d", regex=True, witness=True)], 2, n_regex=2,
              ordered=True, strict=True),
        _case("frame", [_F("int64", name="b", witness=1), _F("int64", name="a", witness=1),
                        _F("int64", name="B", witness=1)], 2, ordered=True, strict="filter"),
        # integer fields bounded by numbers with a fraction, both signs, both
        # sides: whatever rounding the base strategy applies has to stay inside
        # the admitted set (or the strategy says that it cannot serve the schema)
        _case("series", [_F("int64", [chk("ge", min_value=2.5)], witness=3)], 3),
        _case("series", [_F("int64", [chk("ge", min_value=-2.5)], witness=-2)], 3),
        _case("column", [_F("int32", [chk("le", max_value=2.5)], name="c", witness=2)], 3),
        _case("index", [_F("int16", [chk("le", max_value=-2.5)], witness=-3)], 3),
        _case("frame", [_F("uint8", [chk("in_range", min_value=0.5, max_value=9.5,
                                         include_min=True, include_max=True)],
                           name="a", witness=1)], 3),
        _case("frame", [_F("Int64", [chk("in_range", min_value=-9.5, max_value=-0.5,
                                         include_min=True, include_max=True)], nullable=True,
                           name="a", witness=-1)], 3),
        _case("multiindex", [_F("int64", [chk("gt", min_value=0.25)], name="a", witness=1),
                             _F("int8", [chk("lt", max_value=-0.25)], name="b", witness=-1)], 2),
        _case("series", [_F("int64", [chk("in_range", min_value=2.25, max_value=2.75,
                                          include_min=True, include_max=True)])], 2,
              family="contradiction", pattern="directed:int-fractional-interval-empty"),
        # a chained str_matches filters its parent with the SAME anchoring the
        # check validates with (the parents admit values that only contain the
        # pattern further in)
        _case("series", [_F("str", [chk("isin", allowed_values=["bb", "ab", "xbb", "b"]),
                                    chk("str_matches", pattern="b+")], witness="bb", support=2)], 2),
        _case("frame", [_F("str", [chk("str_contains", pattern="k"),
                                   chk("str_matches", pattern="k[a-z]?")], name="a",
                           witness="k")], 2),
        # value lists of integer fields that also hold numbers with a fraction
        _case("series", [_F("int64", [chk("isin", allowed_values=[1, 2.5, -3.5])], witness=1,
                            support=1)], 2),
        _case("index", [_F("uint8", [chk("notin", forbidden_values=[0.5, 1.0]),
                                     chk("ne", value=2.5)], witness=3)], 3),
    ]
