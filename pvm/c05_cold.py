"""C05 cold-start child: ONE case in a fresh interpreter, nothing validated yet.

usage: python -m pvm.c05_cold <seed> <case index> <partial.json>
The snapshot (deep copy) and the fingerprint of the schema are taken before the
first validation of the process, so that state which pandera fills lazily
(backend registries, built-in check dispatchers) is part of what the history
may not change on the schema.  Writes Run.to_partial() for the parent to merge.
"""
import json
import random
import sys

from . import env


def main():
    seed, idx, out = sys.argv[1], int(sys.argv[2]), sys.argv[3]
    env.ensure_deps()
    env.pin_repo()
    from .checks import c05
    run = c05.new_run()
    rng = random.Random(f"{seed}|C05|cold|{idx}")
    try:
        # hypothesis-based operations are slow to import and not the point here
        c05.one_case(run, rng, idx, allow_hypothesis=False, cold=True)
    except Exception as e:  # harness trouble is never a verdict
        run.count(f"harness_error:{type(e).__name__}")
        run.note_inconclusive(f"cold case {idx}: harness error {type(e).__name__}: {e}"[:300])
    with open(out, "w") as f:
        json.dump(run.to_partial(), f, default=repr)
    return 0


if __name__ == "__main__":
    sys.exit(main())
