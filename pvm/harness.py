"""Run real validate calls and normalise what came out (pandas + polars)."""
from __future__ import annotations

import math
from dataclasses import dataclass, field

import numpy as np
import pandas as pd


def norm(x):
    """Normalise a cell value to the model's value domain."""
    if x is None or x is pd.NaT or x is pd.NA:
        return None
    if isinstance(x, (bool, np.bool_)):
        return bool(x)
    if isinstance(x, (int, np.integer)):
        return int(x)
    if isinstance(x, (float, np.floating)):
        return None if math.isnan(x) else float(x)
    if isinstance(x, (pd.Timestamp, np.datetime64)):
        t = pd.Timestamp(x)
        return None if t is pd.NaT else t.strftime("%Y-%m-%d")
    try:
        import datetime as dt
        if isinstance(x, dt.datetime):
            return x.strftime("%Y-%m-%d")
    except Exception:
        pass
    if isinstance(x, tuple):
        return tuple(norm(v) for v in x)
    return x


@dataclass
class E1:
    reason: str
    column: object
    check_index: object
    check: str
    cells: object      # list[(index label, value)] | None when scalar
    scalar: object = None
    context: str = ""  # schema class name


@dataclass
class Outcome:
    kind: str                 # ok | SchemaError | SchemaErrors | exc
    result: object = None
    exc: object = None
    errors: list = field(default_factory=list)
    failure_cases: object = None
    error_counts: object = None
    ctx_leak: object = None   # (config before, config after) when validate changed it

    @property
    def accepted(self):
        return self.kind == "ok"

    def reasons(self):
        return sorted({e.reason for e in self.errors})


def _one(err):
    fc = err.failure_cases
    cells, scalar = None, None
    if isinstance(fc, pd.DataFrame):
        cells = []
        for _, r in fc.iterrows():
            cells.append((norm(r.get("index")), norm(r.get("failure_case")),
                          r.get("column") if "column" in fc.columns else None))
    else:
        try:
            import polars as pl
            if isinstance(fc, pl.DataFrame):
                cells = [tuple(norm(v) for v in row) for row in fc.rows()]
            else:
                scalar = fc
        except ImportError:
            scalar = fc
    col = err.column_name if getattr(err, "column_name", None) is not None \
        else getattr(err.schema, "name", None)
    chk = err.check
    return E1(err.reason_code.name, col, err.check_index,
              chk if isinstance(chk, str) else (getattr(chk, "error", None) or str(chk)),
              cells, scalar, type(err.schema).__name__)


def config_state():
    """The configuration a validation running *now in this thread* would see:
    the thread-local context configuration and the process-wide one."""
    from pandera.config import get_config_context, get_config_global

    def tup(c):
        return (c.validation_enabled, getattr(c.validation_depth, "name", c.validation_depth),
                c.cache_dataframe, c.keep_cached_dataframe)
    return {"context": tup(get_config_context(validation_depth_default=None)),
            "global": tup(get_config_global())}


# Config-context monitor: every validate call of the harness is bracketed by
# two reads of the configuration.  A validate that returns (or raises) and
# leaves another configuration behind than it found changes the meaning of
# every later validation of the thread.  The observations are queued here and
# drained by the check that made the call (``drain_context_leaks``).
CONTEXT_LEAKS = []
MONITORED = {"n": 0}


def drain_context_leaks():
    out = list(CONTEXT_LEAKS)
    del CONTEXT_LEAKS[:]
    return out


def run_validate(schema, obj, **kw):
    try:
        before = config_state()
    except Exception:      # pandera.config not importable in this form: no monitor
        before = None
    out = _run_validate(schema, obj, **kw)
    if before is not None:
        after = config_state()
        MONITORED["n"] += 1
        if after != before:
            out.ctx_leak = {"before": before, "after": after,
                            "schema": type(schema).__name__, "object": type(obj).__name__,
                            "outcome": out.kind, "kwargs": {k: repr(v) for k, v in kw.items()}}
            if len(CONTEXT_LEAKS) < 50:
                CONTEXT_LEAKS.append(out.ctx_leak)
    return out


def pristine(fn, *a, **kw):
    """Run ``fn`` in a fresh thread and hand back its result / exception.

    pandera's context configuration is thread-local: a fresh thread starts from
    the process-wide configuration, whatever earlier validations (or the
    validation under test) left behind in the long-lived calling thread.  The
    reference side of an oracle (re-validations, the explicit sub-frame, ...)
    runs here; the validation under test stays in the calling thread."""
    import threading
    box = {}

    def target():
        try:
            box["r"] = fn(*a, **kw)
        except BaseException as e:  # noqa: BLE001
            box["e"] = e
    t = threading.Thread(target=target, name="pvm-pristine")
    t.start()
    t.join()
    if "e" in box:
        raise box["e"]
    return box["r"]


def run_validate_pristine(schema, obj, **kw):
    return pristine(run_validate, schema, obj, **kw)


def _run_validate(schema, obj, **kw):
    import pandera.errors as pe
    try:
        res = schema.validate(obj, **kw)
        return Outcome("ok", result=res)
    except pe.SchemaErrors as e:
        o = Outcome("SchemaErrors", exc=e)
        try:
            o.errors = [_one(x) for x in e.schema_errors]
            o.failure_cases = e.failure_cases
            o.error_counts = dict(e.error_counts)
        except Exception as e2:   # a broken report is itself an observation
            o.kind = "exc"
            o.exc = e2
        return o
    except pe.SchemaError as e:
        o = Outcome("SchemaError", exc=e)
        try:
            o.errors = [_one(e)]
        except Exception as e2:
            o.kind, o.exc = "exc", e2
        return o
    except Exception as e:  # anything else: outside the documented channel
        return Outcome("exc", exc=e)


def exc_sig(e):
    import traceback
    tb = traceback.extract_tb(e.__traceback__)
    inner = [f for f in tb if "/pandera/" in f.filename]
    where = ""
    if inner:
        f = inner[-1]
        where = f"{f.filename.split('/pandera/')[-1]}:{f.name}"
    return f"{type(e).__name__}@{where}"
