"""Run real validate calls and normalise what came out (pandas + polars)."""
from __future__ import annotations

import math
from dataclasses import dataclass, field

import numpy as np
import pandas as pd


def norm(x):
    """Normalise a cell value to the model's value domain."""
    if x is None or x is pd.NaT or x is pd.NA:
        return None
    if isinstance(x, (bool, np.bool_)):
        return bool(x)
    if isinstance(x, (int, np.integer)):
        return int(x)
    if isinstance(x, (float, np.floating)):
        return None if math.isnan(x) else float(x)
    if isinstance(x, (pd.Timestamp, np.datetime64)):
        t = pd.Timestamp(x)
        return None if t is pd.NaT else t.strftime("%Y-%m-%d")
    try:
        import datetime as dt
        if isinstance(x, dt.datetime):
            return x.strftime("%Y-%m-%d")
    except Exception:
        pass
    if isinstance(x, tuple):
        return tuple(norm(v) for v in x)
    return x


@dataclass
class E1:
    reason: str
    column: object
    check_index: object
    check: str
    cells: object      # list[(index label, value)] | None when scalar
    scalar: object = None
    context: str = ""  # schema class name


@dataclass
class Outcome:
    kind: str                 # ok | SchemaError | SchemaErrors | exc
    result: object = None
    exc: object = None
    errors: list = field(default_factory=list)
    failure_cases: object = None
    error_counts: object = None

    @property
    def accepted(self):
        return self.kind == "ok"

    def reasons(self):
        return sorted({e.reason for e in self.errors})


def _one(err):
    fc = err.failure_cases
    cells, scalar = None, None
    if isinstance(fc, pd.DataFrame):
        cells = []
        for _, r in fc.iterrows():
            cells.append((norm(r.get("index")), norm(r.get("failure_case")),
                          r.get("column") if "column" in fc.columns else None))
    else:
        try:
            import polars as pl
            if isinstance(fc, pl.DataFrame):
                cells = [tuple(norm(v) for v in row) for row in fc.rows()]
            else:
                scalar = fc
        except ImportError:
            scalar = fc
    col = err.column_name if getattr(err, "column_name", None) is not None \
        else getattr(err.schema, "name", None)
    chk = err.check
    return E1(err.reason_code.name, col, err.check_index,
              chk if isinstance(chk, str) else (getattr(chk, "error", None) or str(chk)),
              cells, scalar, type(err.schema).__name__)


def run_validate(schema, obj, **kw):
    import pandera.errors as pe
    try:
        res = schema.validate(obj, **kw)
        return Outcome("ok", result=res)
    except pe.SchemaErrors as e:
        o = Outcome("SchemaErrors", exc=e)
        try:
            o.errors = [_one(x) for x in e.schema_errors]
            o.failure_cases = e.failure_cases
            o.error_counts = dict(e.error_counts)
        except Exception as e2:   # a broken report is itself an observation
            o.kind = "exc"
            o.exc = e2
        return o
    except pe.SchemaError as e:
        o = Outcome("SchemaError", exc=e)
        try:
            o.errors = [_one(e)]
        except Exception as e2:
            o.kind, o.exc = "exc", e2
        return o
    except Exception as e:  # anything else: outside the documented channel
        return Outcome("exc", exc=e)


def exc_sig(e):
    import traceback
    tb = traceback.extract_tb(e.__traceback__)
    inner = [f for f in tb if "/pandera/" in f.filename]
    where = ""
    if inner:
        f = inner[-1]
        where = f"{f.filename.split('/pandera/')[-1]}:{f.name}"
    return f"{type(e).__name__}@{where}"
