"""Environment pinning for every check.

* puts $PVM_REPO (default /repo) first on sys.path and verifies that the
  imported ``pandera`` really comes from there (self-validation runs point
  PVM_REPO at a mutated scratch copy);
* makes third-party verification deps (icontract) importable from
  /verif/.deps, installing them offline from the wheelhouse when missing;
* parses seed / tier.
"""
from __future__ import annotations

import os
import subprocess
import sys
import warnings

VERIF = os.path.dirname(os.path.dirname(os.path.abspath(__file__)))
REPO = os.path.abspath(os.environ.get("PVM_REPO", "/repo"))
DEPS = os.path.join(VERIF, ".deps")
WHEELS = "/opt/veriftools/wheels"
PY = "/venv/bin/python"

os.environ.setdefault("PYTHONDONTWRITEBYTECODE", "1")
sys.dont_write_bytecode = True


def seed() -> int:
    try:
        return int(os.environ.get("VERIF_SEED", "0"))
    except ValueError:
        return 0


def tier(default: str = "quick") -> str:
    t = os.environ.get("VERIF_TIER", default)
    return t if t in ("quick", "thorough") else default


def ensure_deps() -> None:
    """icontract beside the repository's interpreter, offline."""
    if DEPS not in sys.path:
        sys.path.insert(1, DEPS)
    try:
        import icontract  # noqa: F401
        return
    except ImportError:
        pass
    os.makedirs(DEPS, exist_ok=True)
    subprocess.run(
        [PY, "-m", "pip", "install", "-q", "--no-index", "--find-links",
         WHEELS, "--target", DEPS, "icontract"],
        check=False, stdout=subprocess.DEVNULL, stderr=subprocess.DEVNULL,
    )
    import importlib
    importlib.invalidate_caches()


_pinned = False


def pin_repo():
    """Import pandera from $PVM_REPO and return the module."""
    global _pinned
    if REPO in sys.path:
        sys.path.remove(REPO)
    sys.path.insert(0, REPO)
    warnings.filterwarnings("ignore")
    import pandera  # noqa
    where = os.path.abspath(pandera.__file__)
    if not where.startswith(REPO + os.sep):
        # an editable install may have been imported before us
        raise RuntimeError(
            f"pandera imported from {where}, expected under {REPO}")
    _pinned = True
    return pandera


def pandera_path() -> str:
    import pandera
    return os.path.abspath(pandera.__file__)
