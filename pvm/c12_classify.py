"""C12 classifier: minimal witness -> mechanism key.

Input is what the *minimised* case still needs (``tokens`` of the minimal
spec), the route and the failure kinds observed on it.  A rule matches only
when every remaining token and every failure kind is one the rule allows, so
an unrelated cause (e.g. a deliberately broken template slot) never lands on
one of these keys; it stays ``None`` -> ``unclassified:<kind>`` -> the run
fails.
"""
from __future__ import annotations

PRIORITY = ["write-exc", "read-exc", "proj:", "eq-false", "rewrite-exc",
            "text-2nd", "verdict", "source-mutated", "earlier-yaml"]
MUTATION_KINDS = ("source-mutated", "earlier-yaml-unequal-after-writer")
STRUCTURAL = ("ncols=", "index", "multiindex")


def primary(kinds):
    for p in PRIORITY:
        for k in kinds:
            if k.startswith(p):
                return k
    return kinds[0]


def split(kinds):
    """Failure kinds of one minimal witness -> groups classified apart."""
    a = [k for k in kinds if k in MUTATION_KINDS]
    b = [k for k in kinds if k not in MUTATION_KINDS]
    return [g for g in (b, a) if g]


def _tok(tokens):
    return [t for t in tokens
            if not (t.startswith("ncols=") or t in ("index", "multiindex"))]


def _classes(tokens, prefix):
    """Value classes of the tokens ``prefix:<c1+c2>``."""
    out = set()
    for t in tokens:
        if t.startswith(prefix + ":"):
            out.update(t[len(prefix) + 1:].split("+"))
    return out


def _all(tokens, *prefixes):
    return bool(tokens) and all(t.startswith(prefixes) for t in tokens)


def _kinds_ok(kinds, allowed, required_any):
    return all(k.startswith(tuple(allowed)) for k in kinds) and \
        any(k.startswith(tuple(required_any)) for k in kinds)


def _collapsed_to_one_per_kind(len_detail, kinds):
    """The re-read component has exactly one check per distinct kind."""
    return isinstance(len_detail, dict) and \
        len_detail.get("orig") == len(kinds) and \
        len_detail.get("back") == len(set(kinds)) < len(kinds)


COMMON_TAIL = ("eq-false", "text-2nd-gen-differs", "verdict-differs")
ARGS = lambda p: (f"{p}.check:", f"{p}.check-arg:", f"{p}.check-opt:")
PLACES = ("col", "idx", "frame")
# benign context a minimal witness may keep for index-level causes
IDX_CTX = ("idx.name:plain", "idx.dtype:")


def classify(route, kinds, tokens, detail):
    T = _tok(tokens)
    K = list(kinds)
    # ---- the writer changed the schema it was given (D10) ----------------
    if all(k in MUTATION_KINDS for k in K):
        d = (detail or {}).get(K[0]) or {}
        if isinstance(d, dict) and \
                d.get("check_statistics_keys_added") == ["options"]:
            return "parse_checks-options-key-left-in-check-statistics"
        return None

    def arg_classes(place):
        out = set()
        for t in T:
            if t.startswith(f"{place}.check-arg:"):
                v = t.split(":", 1)[1]
                if v.startswith("list["):
                    out.update("list:" + x for x in v[5:-1].split(","))
                else:
                    out.add(v)
        return out

    def check_kind_list(place):
        return [t.split(":", 1)[1] for t in T
                if t.startswith(f"{place}.check:")]

    def check_names(place):
        return {t.split(":", 1)[1] for t in T
                if t.startswith(f"{place}.check:")}

    # ---- SCRIPT_TEMPLATE slots printed without repr() --------------------
    if route == "script":
        if T == ["frame.strict=filter"] and _kinds_ok(
                K, ("read-exc:SchemaInitError",), ("read-exc",)):
            return "script-frame-strict-unquoted"
        for slot in ("title", "description"):
            if _all(T, f"frame.{slot}:") and len(T) == 1 and _kinds_ok(
                    K, ("write-exc:InvalidInput", "read-exc:NameError",
                        "read-exc:SyntaxError", f"proj:frame.{slot}",
                        "rewrite-exc:InvalidInput") + COMMON_TAIL,
                    ("write-exc", "read-exc", f"proj:frame.{slot}")):
                return f"script-frame-{slot}-unquoted"
        if _all(T, "frame.dtype:") and len(T) == 1 and _kinds_ok(
                K, ("read-exc:NameError", "read-exc:TypeError",
                    "write-exc:InvalidInput", "proj:frame.dtype")
                + COMMON_TAIL, ("read-exc", "write-exc", "proj:")):
            return "script-frame-dtype-unquoted"
        # INDEX_TEMPLATE has no unique slot
        if "idx.unique=True" in T and _all(
                T, "idx.unique=True", *IDX_CTX) and _kinds_ok(
                K, ("proj:idx.unique",) + COMMON_TAIL, ("proj:idx.unique",)):
            return "script-index-template-lacks-unique"
        # frame-level checks= prints the statistics dict
        if _all(T, *ARGS("frame"), "frame.checks:duplicate-kind") and _kinds_ok(
                K, ("proj:frame.checks", "rewrite-exc:AttributeError",
                    "read-exc:NameError") + COMMON_TAIL,
                ("proj:frame.checks.name", "read-exc:NameError")):
            return "script-frame-checks-emitted-as-statistics-dict"
        # quoting without escaping / str() instead of repr()
        bad_sq = {"squote", "backslash", "newline", "nonstr:int"}
        bad_dq = {"dquote", "backslash", "newline", "nonstr:int"}
        if _all(T, "col.name:") and _classes(T, "col.name") & bad_sq and \
                _kinds_ok(K, ("write-exc:InvalidInput", "read-exc:SyntaxError",
                              "proj:colkeys", "proj:col") + COMMON_TAIL,
                          ("write-exc", "read-exc", "proj:colkeys")):
            return "script-column-key-not-repr"
        if _all(T, "idx.name:", "idx.dtype:") and \
                _classes(T, "idx.name") & bad_dq and \
                _kinds_ok(K, ("write-exc:InvalidInput", "read-exc:SyntaxError",
                              "proj:idx.name") + COMMON_TAIL,
                          ("write-exc", "read-exc", "proj:idx.name")):
            return "script-index-name-not-repr"
        for place in ("col", "idx"):
            for slot in ("title", "description"):
                pre = f"{place}.{slot}"
                ctx = IDX_CTX if place == "idx" else ()
                if any(t.startswith(pre + ":") for t in T) and \
                        _all(T, pre + ":", *ctx) and \
                        _classes(T, pre) & bad_dq and _kinds_ok(
                        K, ("write-exc:InvalidInput", "read-exc:SyntaxError",
                            f"proj:{pre}") + COMMON_TAIL,
                        ("write-exc", "read-exc", f"proj:{pre}")):
                    return "script-component-title-description-not-escaped"
        # repr(float('inf')) is not a Python literal
        for place in PLACES[:2]:
            if _all(T, *ARGS(place), f"{place}.dtype:", *IDX_CTX) and \
                    any("nonfinite" in c for c in arg_classes(place)) and \
                    _kinds_ok(K, ("read-exc:NameError",), ("read-exc",)):
                return "script-nonfinite-float-statistic-not-a-literal"

    # ---- frame-level dtype written as a DataType object ------------------
    if route in ("yaml", "json") and _all(T, "frame.dtype:") and \
            len(T) == 1 and _kinds_ok(
            K, ("write-exc:RepresenterError", "write-exc:TypeError"),
            ("write-exc",)):
        return "serialize_schema-frame-dtype-not-stringified"

    # ---- checks keyed by name: two of one kind collapse ------------------
    for place in PLACES:
        if f"{place}.checks:duplicate-kind" in T and \
                _all(T, *ARGS(place), f"{place}.checks:duplicate-kind",
                     f"{place}.dtype:", *IDX_CTX) and \
                _kinds_ok(K, (f"proj:{place}.checks",) + COMMON_TAIL,
                          (f"proj:{place}.checks.len",)) and \
                _collapsed_to_one_per_kind(
                    (detail or {}).get(f"proj:{place}.checks.len"),
                    check_kind_list(place)):
            return "checks-keyed-by-name-duplicate-kind-collapsed"

    # ---- statistics that the writers cannot express ----------------------
    wtext = " ".join(str(v) for k, v in (detail or {}).items()
                     if str(k).startswith("write-exc"))
    for place in PLACES:
        if not _all(T, *ARGS(place), f"{place}.dtype:", *IDX_CTX):
            continue
        names, ac = check_names(place), arg_classes(place)
        if len(names) != 1:
            continue
        name = next(iter(names))
        dtl = {"ts-second", "ts-subsecond", "ts-tz", "td"}
        if place == "frame" and route in ("yaml", "json") and (
                ac & (dtl | {"list:" + c for c in dtl})) and \
                "frozenset" not in wtext and _kinds_ok(
                K, ("write-exc:RepresenterError", "write-exc:TypeError"),
                ("write-exc",)):
            # dataframe-level checks are serialised without any dtype
            return "frame-level-check-datetimelike-statistic-not-converted"
        if name == "unique_values_eq":
            if route in ("yaml", "json") and "frozenset" in wtext and \
                    _kinds_ok(K, ("write-exc:RepresenterError",
                                  "write-exc:TypeError"), ("write-exc",)):
                return "unique_values_eq-statistics-hold-a-frozenset"
            if route == "script" and "frozenset(" in str(
                    (detail or {}).get("__text__")) and _kinds_ok(
                    K, ("eq-false", "text-2nd-gen-differs"), ("eq-false",)):
                return "unique_values_eq-statistics-hold-a-frozenset"
            continue
        if route not in ("yaml", "json"):
            continue
        datetimelike_list = {c for c in ac if c.startswith("list:") and
                             c[5:] in ("ts-second", "ts-subsecond", "ts-tz",
                                       "td")}
        if datetimelike_list and name in ("isin", "notin") and _kinds_ok(
                K, ("write-exc:RepresenterError", "write-exc:TypeError"),
                ("write-exc",)):
            return "datetimelike-values-inside-list-statistic-not-converted"
        default_dt = {f"{place}.dtype:datetime64[ns]",
                      f"{place}.dtype:timedelta64[ns]"}
        if place != "frame" and ac & {"ts-second", "ts-subsecond", "ts-tz",
                                     "td"} and not (default_dt & set(T)) \
                and _kinds_ok(
                K, ("write-exc:RepresenterError", "write-exc:TypeError"),
                ("write-exc",)):
            # handle_stat_dtype compares the column dtype with the *default*
            # DateTime()/Timedelta(): tz-aware or other-unit columns miss it
            return "statistic-conversion-requires-default-DateTime-or-Timedelta-dtype"
        if "ts-subsecond" in ac and any(
                t.startswith(f"{place}.dtype:datetime64[") and "," not in t
                for t in T) and (_kinds_ok(
                K, (f"proj:{place}.checks.statistics",) + COMMON_TAIL,
                (f"proj:{place}.checks.statistics",)) or (
                # truncation made in_range's exclusive bounds coincide
                K == ["read-exc:ValueError"] and name == "in_range" and
                "defines an empty interval" in str(
                    (detail or {}).get("read-exc:ValueError")))):
            return "DATETIME_FORMAT-drops-subseconds-of-statistic"

    # ---- str(dtype) does not carry the dtype's parameters ----------------
    for place in ("col", "idx"):
        if len(T) == 1 and T[0].startswith(f"{place}.dtype:param:") and \
                _kinds_ok(K, (f"proj:{place}.dtype",) + COMMON_TAIL,
                          (f"proj:{place}.dtype",)):
            return "dtype-string-alias-drops-parameters"
    return None


# coverage floors for the quick tier (about 1/4 of what the unchanged tree
# gives with seed 0); thorough uses 3x these
FLOORS_QUICK = {"probe:accept": 350, "probe:reject": 700,
                "part:catalogue": 130, "part:random": 30,
                "monitor:script:earlier-yaml-still-equal": 130}
for _r in ("yaml", "json", "script"):
    for _m in ("pandera-eq", "projection", "second-generation-text",
               "verdict-vector"):
        FLOORS_QUICK[f"monitor:{_r}:{_m}"] = 150
    FLOORS_QUICK[f"monitor:{_r}:source-unchanged"] = 180
    FLOORS_QUICK[f"roundtrip_ok:{_r}"] = 130
for _k in ("equal_to", "not_equal_to", "greater_than",
           "greater_than_or_equal_to", "less_than", "less_than_or_equal_to",
           "in_range", "isin", "notin", "str_matches", "str_contains",
           "str_startswith", "str_endswith", "str_length",
           "unique_values_eq"):
    FLOORS_QUICK[f"class:col.check:{_k}"] = 2
for _k, _v in {"frame.strict": 1, "frame.ordered": 2, "frame.unique": 2,
               "frame.title": 5, "frame.description": 5, "frame.name": 4,
               "frame.dtype": 2, "frame.coerce": 1, "frame.check": 15,
               "frame.check-opt": 8, "col.nullable": 2, "col.unique": 1,
               "col.coerce": 2, "col.required": 2, "col.regex": 2,
               "col.title": 5, "col.description": 6, "col.name": 8,
               "col.check-opt": 30, "col.checks": 4, "idx.unique": 1,
               "idx.nullable": 2, "idx.coerce": 1, "idx.title": 3,
               "idx.description": 3, "idx.name": 50, "idx.check": 25,
               "multiindex": 10, "index": 35}.items():
    FLOORS_QUICK[f"feature:{_k}"] = _v
for _o in ("ignore_na", "raise_warning", "n_failure_cases"):
    FLOORS_QUICK[f"class:col.check-opt:{_o}"] = 8
