"""C12 classifier: minimal witness -> mechanism key.

Input is what the *minimised* case still needs (``tokens`` of the minimal
spec), the route and the failure kinds observed on it.  A rule matches only
when every remaining token and every failure kind is one the rule allows, so
an unrelated cause (e.g. a deliberately broken template slot) never lands on
one of these keys; it stays ``None`` -> ``unclassified:<kind>`` -> the run
fails.
"""
from __future__ import annotations

PRIORITY = ["write-exc", "read-exc", "proj:", "eq-false", "rewrite-exc",
            "text-2nd", "verdict", "write-not-repeatable", "source-mutated",
            "earlier-yaml", "file-"]
MUTATION_KINDS = ("source-mutated", "earlier-yaml-unequal-after-writer")
STRUCTURAL = ("ncols=", "index", "multiindex")


def primary(kinds):
    for p in PRIORITY:
        for k in kinds:
            if k.startswith(p):
                return k
    return kinds[0]


def split(kinds):
    """Failure kinds of one minimal witness -> groups classified apart."""
    a = [k for k in kinds if k in MUTATION_KINDS]
    b = [k for k in kinds if k not in MUTATION_KINDS]
    return [g for g in (b, a) if g]


def _tok(tokens):
    # *.xtype:* tokens only describe the pair (check argument, dtype), both
    # of which have their own tokens: they are evidence, not causes
    return [t for t in tokens
            if not (t.startswith("ncols=") or t in ("index", "multiindex")
                    or ".xtype:" in t)]


def _classes(tokens, prefix):
    """Value classes of the tokens ``prefix:<c1+c2>``."""
    out = set()
    for t in tokens:
        if t.startswith(prefix + ":"):
            out.update(t[len(prefix) + 1:].split("+"))
    return out


def _all(tokens, *prefixes):
    return bool(tokens) and all(t.startswith(prefixes) for t in tokens)


def _kinds_ok(kinds, allowed, required_any):
    return all(k.startswith(tuple(allowed)) for k in kinds) and \
        any(k.startswith(tuple(required_any)) for k in kinds)


def _collapsed_to_one_per_kind(len_detail, kinds):
    """The re-read component has exactly one check per distinct kind."""
    return isinstance(len_detail, dict) and \
        len_detail.get("orig") == len(kinds) and \
        len_detail.get("back") == len(set(kinds)) < len(kinds)


def _came_back_as_str(d):
    """Projection detail of a text slot: the re-read value is a real str."""
    back = d.get("back") if isinstance(d, dict) else None
    return isinstance(back, str) and not back.startswith("<")


COMMON_TAIL = ("eq-false", "text-2nd-gen-differs", "verdict-differs")
ARGS = lambda p: (f"{p}.check:", f"{p}.check-arg:", f"{p}.check-opt:")
PLACES = ("col", "idx", "frame")
# benign context a minimal witness may keep for index-level causes
IDX_CTX = ("idx.name:plain", "idx.dtype:")


def classify(route, kinds, tokens, detail):
    T = _tok(tokens)
    K = list(kinds)
    # ---- the writer changed the schema it was given (D10) ----------------
    if all(k in MUTATION_KINDS for k in K):
        d = (detail or {}).get(K[0]) or {}
        if isinstance(d, dict) and \
                d.get("check_statistics_keys_added") == ["options"]:
            return "parse_checks-options-key-left-in-check-statistics"
        return None

    def arg_classes(place):
        out = set()
        for t in T:
            if t.startswith(f"{place}.check-arg:"):
                v = t.split(":", 1)[1]
                if v.startswith("list["):
                    out.update("list:" + x for x in v[5:-1].split(","))
                else:
                    out.add(v)
        return out

    def check_kind_list(place):
        return [t.split(":", 1)[1] for t in T
                if t.startswith(f"{place}.check:")]

    def check_names(place):
        return {t.split(":", 1)[1] for t in T
                if t.startswith(f"{place}.check:")}

    # ---- SCRIPT_TEMPLATE slots printed without repr() --------------------
    if route == "script":
        if T == ["frame.strict=filter"] and _kinds_ok(
                K, ("read-exc:SchemaInitError",), ("read-exc",)):
            return "script-frame-strict-unquoted"
        for slot in ("title", "description"):
            if _all(T, f"frame.{slot}:") and len(T) == 1 and _kinds_ok(
                    K, ("write-exc:InvalidInput", "read-exc:NameError",
                        "read-exc:SyntaxError", f"proj:frame.{slot}",
                        "rewrite-exc:InvalidInput") + COMMON_TAIL,
                    ("write-exc", "read-exc", f"proj:frame.{slot}")) and \
                    not _came_back_as_str(
                        (detail or {}).get(f"proj:frame.{slot}")):
                # an unquoted slot is *evaluated*: what comes back is not a
                # string (None, True, a type); another string is another cause
                return f"script-frame-{slot}-unquoted"
        if _all(T, "frame.dtype:") and len(T) == 1 and _kinds_ok(
                K, ("read-exc:NameError", "read-exc:TypeError",
                    "write-exc:InvalidInput", "proj:frame.dtype")
                + COMMON_TAIL, ("read-exc", "write-exc", "proj:")):
            return "script-frame-dtype-unquoted"
        # INDEX_TEMPLATE has no unique slot
        if "idx.unique=True" in T and _all(
                T, "idx.unique=True", *IDX_CTX) and _kinds_ok(
                K, ("proj:idx.unique",) + COMMON_TAIL, ("proj:idx.unique",)):
            return "script-index-template-lacks-unique"
        # frame-level checks= prints the statistics dict
        if _all(T, *ARGS("frame"), "frame.checks:duplicate-kind") and _kinds_ok(
                K, ("proj:frame.checks", "rewrite-exc:AttributeError",
                    "read-exc:NameError") + COMMON_TAIL,
                ("proj:frame.checks.name", "read-exc:NameError")):
            return "script-frame-checks-emitted-as-statistics-dict"
        # quoting without escaping / str() instead of repr()
        bad_sq = {"squote", "backslash", "newline", "nonstr:int"}
        bad_dq = {"dquote", "backslash", "newline", "nonstr:int"}
        if _all(T, "col.name:") and _classes(T, "col.name") & bad_sq and \
                _kinds_ok(K, ("write-exc:InvalidInput", "read-exc:SyntaxError",
                              "proj:colkeys", "proj:col") + COMMON_TAIL,
                          ("write-exc", "read-exc", "proj:colkeys")):
            return "script-column-key-not-repr"
        if _all(T, "idx.name:", "idx.dtype:") and \
                _classes(T, "idx.name") & bad_dq and \
                _kinds_ok(K, ("write-exc:InvalidInput", "read-exc:SyntaxError",
                              "proj:idx.name") + COMMON_TAIL,
                          ("write-exc", "read-exc", "proj:idx.name")):
            return "script-index-name-not-repr"
        for place in ("col", "idx"):
            for slot in ("title", "description"):
                pre = f"{place}.{slot}"
                ctx = IDX_CTX if place == "idx" else ()
                if any(t.startswith(pre + ":") for t in T) and \
                        _all(T, pre + ":", *ctx) and \
                        _classes(T, pre) & bad_dq and _kinds_ok(
                        K, ("write-exc:InvalidInput", "read-exc:SyntaxError",
                            f"proj:{pre}") + COMMON_TAIL,
                        ("write-exc", "read-exc", f"proj:{pre}")):
                    return "script-component-title-description-not-escaped"
        # repr(float('inf')) is not a Python literal
        for place in PLACES[:2]:
            if _all(T, *ARGS(place), f"{place}.dtype:", *IDX_CTX) and \
                    any("nonfinite" in c for c in arg_classes(place)) and \
                    _kinds_ok(K, ("read-exc:NameError",), ("read-exc",)):
                return "script-nonfinite-float-statistic-not-a-literal"

    # ---- frame-level dtype written as a DataType object ------------------
    if route in ("yaml", "json") and _all(T, "frame.dtype:") and \
            len(T) == 1 and _kinds_ok(
            K, ("write-exc:RepresenterError", "write-exc:TypeError"),
            ("write-exc",)):
        return "serialize_schema-frame-dtype-not-stringified"

    # ---- checks keyed by name: two of one kind collapse ------------------
    for place in PLACES:
        if f"{place}.checks:duplicate-kind" in T and \
                _all(T, *ARGS(place), f"{place}.checks:duplicate-kind",
                     f"{place}.dtype:", *IDX_CTX) and \
                _kinds_ok(K, (f"proj:{place}.checks",) + COMMON_TAIL,
                          (f"proj:{place}.checks.len",)) and \
                _collapsed_to_one_per_kind(
                    (detail or {}).get(f"proj:{place}.checks.len"),
                    check_kind_list(place)):
            return "checks-keyed-by-name-duplicate-kind-collapsed"

    # ---- statistics that the writers cannot express ----------------------
    wtext = " ".join(str(v) for k, v in (detail or {}).items()
                     if str(k).startswith("write-exc"))
    for place in PLACES:
        if not _all(T, *ARGS(place), f"{place}.dtype:", *IDX_CTX):
            continue
        names, ac = check_names(place), arg_classes(place)
        if len(names) != 1:
            continue
        name = next(iter(names))
        dtl = {"ts-second", "ts-subsecond", "ts-tz", "td"}
        if place == "frame" and route in ("yaml", "json") and (
                ac & (dtl | {"list:" + c for c in dtl})) and \
                "frozenset" not in wtext and _kinds_ok(
                K, ("write-exc:RepresenterError", "write-exc:TypeError"),
                ("write-exc",)):
            # dataframe-level checks are serialised without any dtype
            return "frame-level-check-datetimelike-statistic-not-converted"
        if name == "unique_values_eq":
            if route in ("yaml", "json") and "frozenset" in wtext and \
                    _kinds_ok(K, ("write-exc:RepresenterError",
                                  "write-exc:TypeError"), ("write-exc",)):
                return "unique_values_eq-statistics-hold-a-frozenset"
            if route == "script" and "frozenset(" in str(
                    (detail or {}).get("__text__")) and _kinds_ok(
                    K, ("eq-false", "text-2nd-gen-differs"), ("eq-false",)):
                return "unique_values_eq-statistics-hold-a-frozenset"
            continue
        if route not in ("yaml", "json"):
            continue
        datetimelike_list = {c for c in ac if c.startswith("list:") and
                             c[5:] in ("ts-second", "ts-subsecond", "ts-tz",
                                       "td")}
        if datetimelike_list and name in ("isin", "notin") and _kinds_ok(
                K, ("write-exc:RepresenterError", "write-exc:TypeError"),
                ("write-exc",)):
            return "datetimelike-values-inside-list-statistic-not-converted"
        default_dt = {f"{place}.dtype:datetime64[ns]",
                      f"{place}.dtype:timedelta64[ns]"}
        if place != "frame" and ac & {"ts-second", "ts-subsecond", "ts-tz",
                                     "td"} and not (default_dt & set(T)) \
                and _kinds_ok(
                K, ("write-exc:RepresenterError", "write-exc:TypeError"),
                ("write-exc",)):
            # handle_stat_dtype compares the column dtype with the *default*
            # DateTime()/Timedelta(): tz-aware or other-unit columns miss it
            return "statistic-conversion-requires-default-DateTime-or-Timedelta-dtype"
        if "ts-subsecond" in ac and any(
                t.startswith(f"{place}.dtype:datetime64[") and "," not in t
                for t in T) and (_kinds_ok(
                K, (f"proj:{place}.checks.statistics",) + COMMON_TAIL,
                (f"proj:{place}.checks.statistics",)) or (
                # truncation made in_range's exclusive bounds coincide
                K == ["read-exc:ValueError"] and name == "in_range" and
                "defines an empty interval" in str(
                    (detail or {}).get("read-exc:ValueError")))):
            return "DATETIME_FORMAT-drops-subseconds-of-statistic"

    # ---- str(dtype) does not carry the dtype's parameters ----------------
    for place in ("col", "idx"):
        if len(T) == 1 and T[0].startswith(f"{place}.dtype:param:") and \
                _kinds_ok(K, (f"proj:{place}.dtype",) + COMMON_TAIL,
                          (f"proj:{place}.dtype",)):
            return "dtype-string-alias-drops-parameters"
    return None


# coverage floors: about 1/4 of what the repaired tree gives (quick: minimum
# over seeds 0,1,2,3,12345; thorough: seed 0, where the 6000 random cases
# dominate every counter).  The deterministic catalogue alone gives every
# counter at least once, whatever the seed.  feature:/class:/strclass:/
# strarg:/sibling:/history-case:/sequence:/part: count generated classes,
# monitor:/probe:/roundtrip_ok: count evaluations of the deciding monitors.
FLOORS = {'quick': {'class:col.check-opt:ignore_na': 30,
           'class:col.check-opt:n_failure_cases': 38,
           'class:col.check-opt:raise_warning': 32,
           'class:col.check:equal_to': 19,
           'class:col.check:greater_than': 33,
           'class:col.check:greater_than_or_equal_to': 6,
           'class:col.check:in_range': 9,
           'class:col.check:isin': 48,
           'class:col.check:less_than': 9,
           'class:col.check:less_than_or_equal_to': 8,
           'class:col.check:not_equal_to': 10,
           'class:col.check:notin': 8,
           'class:col.check:str_contains': 3,
           'class:col.check:str_endswith': 2,
           'class:col.check:str_length': 5,
           'class:col.check:str_matches': 3,
           'class:col.check:str_startswith': 7,
           'class:col.check:unique_values_eq': 7,
           'feature:col.check': 198,
           'feature:col.check-arg': 232,
           'feature:col.check-opt': 102,
           'feature:col.checks': 2,
           'feature:col.coerce': 1,
           'feature:col.description': 7,
           'feature:col.dtype': 393,
           'feature:col.name': 8,
           'feature:col.nullable': 1,
           'feature:col.regex': 1,
           'feature:col.required': 2,
           'feature:col.title': 5,
           'feature:col.unique': 1,
           'feature:frame.add_missing_columns': 1,
           'feature:frame.check': 20,
           'feature:frame.check-arg': 26,
           'feature:frame.check-opt': 11,
           'feature:frame.checks': 1,
           'feature:frame.coerce': 1,
           'feature:frame.description': 4,
           'feature:frame.dtype': 2,
           'feature:frame.name': 6,
           'feature:frame.ordered': 1,
           'feature:frame.report_duplicates': 1,
           'feature:frame.strict': 1,
           'feature:frame.title': 5,
           'feature:frame.unique': 2,
           'feature:frame.unique_column_names': 1,
           'feature:idx.check': 39,
           'feature:idx.check-arg': 49,
           'feature:idx.check-opt': 16,
           'feature:idx.checks': 1,
           'feature:idx.coerce': 1,
           'feature:idx.description': 3,
           'feature:idx.dtype': 81,
           'feature:idx.name': 66,
           'feature:idx.nullable': 1,
           'feature:idx.title': 3,
           'feature:idx.unique': 1,
           'feature:index': 46,
           'feature:multiindex': 15,
           'feature:ncols': 268,
           'feature:xcomp.checks': 26,
           'history-case:seq:col.coerce-then-default': 1,
           'history-case:seq:col.description-then-default': 1,
           'history-case:seq:col.nullable-then-default': 1,
           'history-case:seq:col.required-then-default': 1,
           'history-case:seq:col.title-then-default': 1,
           'history-case:seq:col.unique-then-default': 1,
           'history-case:seq:frame.coerce-then-default': 1,
           'history-case:seq:frame.name-then-default': 1,
           'history-case:seq:frame.ordered-then-default': 1,
           'history-case:seq:frame.strict-then-default': 1,
           'history-case:seq:frame.title-then-default': 1,
           'history-case:seq:frame.unique-then-default': 1,
           'history-case:seq:option-values': 1,
           'history-case:seq:opts-then-plain': 9,
           'history-case:seq:plain-then-opts': 9,
           'history-case:seq:same-check-other-column-label': 1,
           'history-case:seq:same-check-other-dtype': 3,
           'history-case:seq:same-schema-twice': 1,
           'history-case:sibling.col-col-col:option-values': 1,
           'history-case:sibling.col-col:opts-first': 4,
           'history-case:sibling.col-col:other-dtype': 1,
           'history-case:sibling.col-col:plain-first': 4,
           'history-case:sibling.col-idx:opts-first': 1,
           'history-case:sibling.col-idx:plain-first': 1,
           'history-case:sibling.frame-col:opts-first': 1,
           'history-case:sibling.frame-col:plain-first': 1,
           'history-case:sibling.mi-mi:opts-first': 1,
           'history-case:sibling.mi-mi:plain-first': 1,
           'monitor:json:pandera-eq': 264,
           'monitor:json:projection': 264,
           'monitor:json:second-generation-text': 264,
           'monitor:json:source-unchanged': 267,
           'monitor:json:verdict-vector': 264,
           'monitor:json:write-repeatable': 264,
           'monitor:script:earlier-yaml-still-equal': 264,
           'monitor:script:pandera-eq': 268,
           'monitor:script:projection': 268,
           'monitor:script:second-generation-text': 268,
           'monitor:script:source-unchanged': 268,
           'monitor:script:verdict-vector': 268,
           'monitor:script:write-repeatable': 268,
           'monitor:yaml:pandera-eq': 264,
           'monitor:yaml:projection': 264,
           'monitor:yaml:second-generation-text': 264,
           'monitor:yaml:source-unchanged': 268,
           'monitor:yaml:verdict-vector': 264,
           'monitor:yaml:write-repeatable': 264,
           'part:catalogue': 188,
           'part:catalogue-seq': 15,
           'part:random': 27,
           'part:random-seq': 8,
           'probe:accept': 567,
           'probe:reject': 1026,
           'roundtrip_ok:json': 255,
           'roundtrip_ok:script': 258,
           'roundtrip_ok:yaml': 256,
           'sequence:later-element-judged': 27,
           'sequence:later-element:attributes-differ': 6,
           'sequence:later-element:options-differ': 16,
           'sequence:later-element:same-spec': 3,
           'sequence:len=2': 18,
           'sequence:len=3': 3,
           'sibling:same-check-different-options': 25,
           'sibling:same-check-same-options': 1,
           'strarg:backslash': 6,
           'strarg:brace': 3,
           'strarg:dquote': 2,
           'strarg:empty': 1,
           'strarg:keyword': 2,
           'strarg:newline': 1,
           'strarg:plain': 44,
           'strarg:pyword': 7,
           'strarg:space': 6,
           'strarg:squote': 2,
           'strarg:unicode': 2,
           'strarg:yamlish': 5,
           'strclass:backslash': 4,
           'strclass:brace': 4,
           'strclass:dquote': 3,
           'strclass:empty': 3,
           'strclass:keyword': 4,
           'strclass:newline': 4,
           'strclass:nonstr:int': 2,
           'strclass:plain': 64,
           'strclass:pyword': 4,
           'strclass:space': 5,
           'strclass:squote': 3,
           'strclass:unicode': 4,
           'strclass:yamlish': 3},
 'thorough': {'class:col.check-opt:ignore_na': 805,
              'class:col.check-opt:n_failure_cases': 867,
              'class:col.check-opt:raise_warning': 813,
              'class:col.check:equal_to': 371,
              'class:col.check:greater_than': 189,
              'class:col.check:greater_than_or_equal_to': 211,
              'class:col.check:in_range': 206,
              'class:col.check:isin': 400,
              'class:col.check:less_than': 229,
              'class:col.check:less_than_or_equal_to': 210,
              'class:col.check:not_equal_to': 336,
              'class:col.check:notin': 273,
              'class:col.check:str_contains': 71,
              'class:col.check:str_endswith': 66,
              'class:col.check:str_length': 62,
              'class:col.check:str_matches': 58,
              'class:col.check:str_startswith': 95,
              'class:col.check:unique_values_eq': 242,
              'feature:col.check': 3024,
              'feature:col.check-arg': 3707,
              'feature:col.check-opt': 2486,
              'feature:col.checks': 129,
              'feature:col.coerce': 64,
              'feature:col.description': 208,
              'feature:col.dtype': 4578,
              'feature:col.name': 227,
              'feature:col.nullable': 74,
              'feature:col.regex': 74,
              'feature:col.required': 78,
              'feature:col.title': 192,
              'feature:col.unique': 67,
              'feature:frame.add_missing_columns': 52,
              'feature:frame.check': 425,
              'feature:frame.check-arg': 516,
              'feature:frame.check-opt': 285,
              'feature:frame.checks': 4,
              'feature:frame.coerce': 55,
              'feature:frame.description': 114,
              'feature:frame.dtype': 55,
              'feature:frame.name': 100,
              'feature:frame.ordered': 53,
              'feature:frame.report_duplicates': 56,
              'feature:frame.strict': 53,
              'feature:frame.title': 115,
              'feature:frame.unique': 61,
              'feature:frame.unique_column_names': 47,
              'feature:idx.check': 688,
              'feature:idx.check-arg': 844,
              'feature:idx.check-opt': 583,
              'feature:idx.checks': 34,
              'feature:idx.coerce': 31,
              'feature:idx.description': 57,
              'feature:idx.dtype': 1562,
              'feature:idx.name': 867,
              'feature:idx.nullable': 29,
              'feature:idx.title': 50,
              'feature:idx.unique': 28,
              'feature:index': 472,
              'feature:multiindex': 445,
              'feature:ncols': 2608,
              'feature:xcomp.checks': 459,
              'history-case:seq:col.coerce-then-default': 1,
              'history-case:seq:col.description-then-default': 1,
              'history-case:seq:col.nullable-then-default': 1,
              'history-case:seq:col.required-then-default': 1,
              'history-case:seq:col.title-then-default': 1,
              'history-case:seq:col.unique-then-default': 1,
              'history-case:seq:frame.coerce-then-default': 1,
              'history-case:seq:frame.name-then-default': 1,
              'history-case:seq:frame.ordered-then-default': 1,
              'history-case:seq:frame.strict-then-default': 1,
              'history-case:seq:frame.title-then-default': 1,
              'history-case:seq:frame.unique-then-default': 1,
              'history-case:seq:option-values': 9,
              'history-case:seq:opts-then-plain': 54,
              'history-case:seq:plain-then-opts': 54,
              'history-case:seq:same-check-other-column-label': 6,
              'history-case:seq:same-check-other-dtype': 3,
              'history-case:seq:same-schema-twice': 6,
              'history-case:sibling.col-col-col:option-values': 3,
              'history-case:sibling.col-col:opts-first': 27,
              'history-case:sibling.col-col:other-dtype': 1,
              'history-case:sibling.col-col:plain-first': 27,
              'history-case:sibling.col-idx:opts-first': 9,
              'history-case:sibling.col-idx:plain-first': 9,
              'history-case:sibling.frame-col:opts-first': 3,
              'history-case:sibling.frame-col:plain-first': 3,
              'history-case:sibling.mi-mi:opts-first': 9,
              'history-case:sibling.mi-mi:plain-first': 9,
              'monitor:json:pandera-eq': 2518,
              'monitor:json:projection': 2518,
              'monitor:json:second-generation-text': 2518,
              'monitor:json:source-unchanged': 2604,
              'monitor:json:verdict-vector': 2518,
              'monitor:json:write-repeatable': 2518,
              'monitor:script:earlier-yaml-still-equal': 2519,
              'monitor:script:pandera-eq': 2605,
              'monitor:script:projection': 2605,
              'monitor:script:second-generation-text': 2605,
              'monitor:script:source-unchanged': 2605,
              'monitor:script:verdict-vector': 2605,
              'monitor:script:write-repeatable': 2605,
              'monitor:yaml:pandera-eq': 2519,
              'monitor:yaml:projection': 2519,
              'monitor:yaml:second-generation-text': 2519,
              'monitor:yaml:source-unchanged': 2605,
              'monitor:yaml:verdict-vector': 2519,
              'monitor:yaml:write-repeatable': 2519,
              'part:catalogue': 455,
              'part:catalogue-seq': 67,
              'part:random': 1129,
              'part:random-seq': 370,
              'probe:accept': 3917,
              'probe:reject': 11688,
              'roundtrip_ok:json': 2331,
              'roundtrip_ok:script': 2409,
              'roundtrip_ok:yaml': 2331,
              'sequence:later-element-judged': 585,
              'sequence:later-element:attributes-differ': 99,
              'sequence:later-element:options-differ': 310,
              'sequence:later-element:same-spec': 175,
              'sequence:len=2': 290,
              'sequence:len=3': 147,
              'sibling:same-check-different-options': 381,
              'sibling:same-check-same-options': 78,
              'strarg:backslash': 113,
              'strarg:brace': 38,
              'strarg:dquote': 33,
              'strarg:empty': 7,
              'strarg:keyword': 31,
              'strarg:newline': 7,
              'strarg:plain': 356,
              'strarg:pyword': 164,
              'strarg:space': 140,
              'strarg:squote': 35,
              'strarg:unicode': 96,
              'strarg:yamlish': 82,
              'strclass:backslash': 105,
              'strclass:brace': 112,
              'strclass:dquote': 92,
              'strclass:empty': 86,
              'strclass:keyword': 82,
              'strclass:newline': 98,
              'strclass:nonstr:int': 2,
              'strclass:other': 2,
              'strclass:plain': 907,
              'strclass:pyword': 103,
              'strclass:space': 92,
              'strclass:squote': 93,
              'strclass:unicode': 96,
              'strclass:yamlish': 99}}

# counters added with the widened workload (unicode line breaks / control /
# invisible / astral / edge white space / long text; statistics of another
# python type than the data = xtype:*; the file form of every route), same
# rule: minimum over the seeds 0,1,2,3,12345 (quick) / seed 0 (thorough),
# divided by four.  The deterministic catalogue alone reaches each of them.
FLOORS["quick"].update(
{'feature:col.xtype': 17,
 'feature:idx.xtype': 3,
 'monitor:json:file-read-equals-original': 124,
 'monitor:json:file-second-generation': 124,
 'monitor:script:file-read-equals-original': 126,
 'monitor:script:file-second-generation': 126,
 'monitor:yaml:file-read-equals-original': 124,
 'monitor:yaml:file-second-generation': 124,
 'strarg:astral': 1,
 'strarg:control': 3,
 'strarg:edgews': 3,
 'strarg:invisible': 2,
 'strarg:long': 1,
 'strarg:ulinebreak': 3,
 'strclass:astral': 2,
 'strclass:control': 6,
 'strclass:edgews': 3,
 'strclass:invisible': 3,
 'strclass:long': 3,
 'strclass:ulinebreak': 4,
 'xtype:bigint-on-float': 2,
 'xtype:float-frac-on-int': 5,
 'xtype:float-on-untyped': 1,
 'xtype:float-whole-on-int': 4,
 'xtype:int-on-float': 4,
 'xtype:nonfinite-on-int': 1})
FLOORS["thorough"].update(
{'feature:col.xtype': 262,
 'feature:idx.xtype': 44,
 'monitor:json:file-read-equals-original': 1407,
 'monitor:json:file-second-generation': 1407,
 'monitor:script:file-read-equals-original': 1442,
 'monitor:script:file-second-generation': 1442,
 'monitor:yaml:file-read-equals-original': 1407,
 'monitor:yaml:file-second-generation': 1407,
 'strarg:astral': 8,
 'strarg:control': 66,
 'strarg:edgews': 90,
 'strarg:invisible': 42,
 'strarg:long': 20,
 'strarg:ulinebreak': 54,
 'strclass:astral': 49,
 'strclass:control': 88,
 'strclass:edgews': 131,
 'strclass:invisible': 71,
 'strclass:long': 89,
 'strclass:ulinebreak': 112,
 'xtype:bigint-on-float': 18,
 'xtype:bool-on-float': 6,
 'xtype:bool-on-int': 13,
 'xtype:float-frac-on-int': 98,
 'xtype:float-on-untyped': 15,
 'xtype:float-whole-on-int': 70,
 'xtype:int-on-float': 50,
 'xtype:nonfinite-on-int': 29,
 'xtype:number-on-cat': 2,
 'xtype:number-on-str': 2})
# "other" is the residual string class (no special character, not an
# identifier); only random concatenations produce it and the added classes
# absorb most of them: a by-product, not a class the workload aims at
FLOORS["thorough"].pop("strclass:other", None)
