"""C12 classifier: minimal witness -> mechanism key.

Input is what the *minimised* case still needs (``tokens`` of the minimal
spec), the route and the failure kinds observed on it.  A rule matches only
when every remaining token and every failure kind is one the rule allows, so
an unrelated cause (e.g. a deliberately broken template slot) never lands on
one of these keys; it stays ``None`` -> ``unclassified:<kind>`` -> the run
fails.
"""
from __future__ import annotations

PRIORITY = ["write-exc", "read-exc", "proj:", "eq-false", "rewrite-exc",
            "text-2nd", "verdict", "source-mutated", "earlier-yaml"]
MUTATION_KINDS = ("source-mutated", "earlier-yaml-unequal-after-writer")
STRUCTURAL = ("ncols=", "index", "multiindex")


def primary(kinds):
    for p in PRIORITY:
        for k in kinds:
            if k.startswith(p):
                return k
    return kinds[0]


def split(kinds):
    """Failure kinds of one minimal witness -> groups classified apart."""
    a = [k for k in kinds if k in MUTATION_KINDS]
    b = [k for k in kinds if k not in MUTATION_KINDS]
    return [g for g in (b, a) if g]


def _tok(tokens):
    return [t for t in tokens
            if not (t.startswith("ncols=") or t in ("index", "multiindex"))]


def _classes(tokens, prefix):
    """Value classes of the tokens ``prefix:<c1+c2>``."""
    out = set()
    for t in tokens:
        if t.startswith(prefix + ":"):
            out.update(t[len(prefix) + 1:].split("+"))
    return out


def _all(tokens, *prefixes):
    return bool(tokens) and all(t.startswith(prefixes) for t in tokens)


def _kinds_ok(kinds, allowed, required_any):
    return all(k.startswith(tuple(allowed)) for k in kinds) and \
        any(k.startswith(tuple(required_any)) for k in kinds)


def _collapsed_to_one_per_kind(len_detail, kinds):
    """The re-read component has exactly one check per distinct kind."""
    return isinstance(len_detail, dict) and \
        len_detail.get("orig") == len(kinds) and \
        len_detail.get("back") == len(set(kinds)) < len(kinds)


COMMON_TAIL = ("eq-false", "text-2nd-gen-differs", "verdict-differs")
ARGS = lambda p: (f"{p}.check:", f"{p}.check-arg:", f"{p}.check-opt:")
PLACES = ("col", "idx", "frame")
# benign context a minimal witness may keep for index-level causes
IDX_CTX = ("idx.name:plain", "idx.dtype:")


def classify(route, kinds, tokens, detail):
    T = _tok(tokens)
    K = list(kinds)
    # ---- the writer changed the schema it was given (D10) ----------------
    if all(k in MUTATION_KINDS for k in K):
        d = (detail or {}).get(K[0]) or {}
        if isinstance(d, dict) and \
                d.get("check_statistics_keys_added") == ["options"]:
            return "parse_checks-options-key-left-in-check-statistics"
        return None

    def arg_classes(place):
        out = set()
        for t in T:
            if t.startswith(f"{place}.check-arg:"):
                v = t.split(":", 1)[1]
                if v.startswith("list["):
                    out.update("list:" + x for x in v[5:-1].split(","))
                else:
                    out.add(v)
        return out

    def check_kind_list(place):
        return [t.split(":", 1)[1] for t in T
                if t.startswith(f"{place}.check:")]

    def check_names(place):
        return {t.split(":", 1)[1] for t in T
                if t.startswith(f"{place}.check:")}

    # ---- SCRIPT_TEMPLATE slots printed without repr() --------------------
    if route == "script":
        if T == ["frame.strict=filter"] and _kinds_ok(
                K, ("read-exc:SchemaInitError",), ("read-exc",)):
            return "script-frame-strict-unquoted"
        for slot in ("title", "description"):
            if _all(T, f"frame.{slot}:") and len(T) == 1 and _kinds_ok(
                    K, ("write-exc:InvalidInput", "read-exc:NameError",
                        "read-exc:SyntaxError", f"proj:frame.{slot}",
                        "rewrite-exc:InvalidInput") + COMMON_TAIL,
                    ("write-exc", "read-exc", f"proj:frame.{slot}")):
                return f"script-frame-{slot}-unquoted"
        if _all(T, "frame.dtype:") and len(T) == 1 and _kinds_ok(
                K, ("read-exc:NameError", "read-exc:TypeError",
                    "write-exc:InvalidInput", "proj:frame.dtype")
                + COMMON_TAIL, ("read-exc", "write-exc", "proj:")):
            return "script-frame-dtype-unquoted"
        # INDEX_TEMPLATE has no unique slot
        if "idx.unique=True" in T and _all(
                T, "idx.unique=True", *IDX_CTX) and _kinds_ok(
                K, ("proj:idx.unique",) + COMMON_TAIL, ("proj:idx.unique",)):
            return "script-index-template-lacks-unique"
        # frame-level checks= prints the statistics dict
        if _all(T, *ARGS("frame"), "frame.checks:duplicate-kind") and _kinds_ok(
                K, ("proj:frame.checks", "rewrite-exc:AttributeError",
                    "read-exc:NameError") + COMMON_TAIL,
                ("proj:frame.checks.name", "read-exc:NameError")):
            return "script-frame-checks-emitted-as-statistics-dict"
        # quoting without escaping / str() instead of repr()
        bad_sq = {"squote", "backslash", "newline", "nonstr:int"}
        bad_dq = {"dquote", "backslash", "newline", "nonstr:int"}
        if _all(T, "col.name:") and _classes(T, "col.name") & bad_sq and \
                _kinds_ok(K, ("write-exc:InvalidInput", "read-exc:SyntaxError",
                              "proj:colkeys", "proj:col") + COMMON_TAIL,
                          ("write-exc", "read-exc", "proj:colkeys")):
            return "script-column-key-not-repr"
        if _all(T, "idx.name:", "idx.dtype:") and \
                _classes(T, "idx.name") & bad_dq and \
                _kinds_ok(K, ("write-exc:InvalidInput", "read-exc:SyntaxError",
                              "proj:idx.name") + COMMON_TAIL,
                          ("write-exc", "read-exc", "proj:idx.name")):
            return "script-index-name-not-repr"
        for place in ("col", "idx"):
            for slot in ("title", "description"):
                pre = f"{place}.{slot}"
                ctx = IDX_CTX if place == "idx" else ()
                if any(t.startswith(pre + ":") for t in T) and \
                        _all(T, pre + ":", *ctx) and \
                        _classes(T, pre) & bad_dq and _kinds_ok(
                        K, ("write-exc:InvalidInput", "read-exc:SyntaxError",
                            f"proj:{pre}") + COMMON_TAIL,
                        ("write-exc", "read-exc", f"proj:{pre}")):
                    return "script-component-title-description-not-escaped"
        # repr(float('inf')) is not a Python literal
        for place in PLACES[:2]:
            if _all(T, *ARGS(place), f"{place}.dtype:", *IDX_CTX) and \
                    any("nonfinite" in c for c in arg_classes(place)) and \
                    _kinds_ok(K, ("read-exc:NameError",), ("read-exc",)):
                return "script-nonfinite-float-statistic-not-a-literal"

    # ---- frame-level dtype written as a DataType object ------------------
    if route in ("yaml", "json") and _all(T, "frame.dtype:") and \
            len(T) == 1 and _kinds_ok(
            K, ("write-exc:RepresenterError", "write-exc:TypeError"),
            ("write-exc",)):
        return "serialize_schema-frame-dtype-not-stringified"

    # ---- checks keyed by name: two of one kind collapse ------------------
    for place in PLACES:
        if f"{place}.checks:duplicate-kind" in T and \
                _all(T, *ARGS(place), f"{place}.checks:duplicate-kind",
                     f"{place}.dtype:", *IDX_CTX) and \
                _kinds_ok(K, (f"proj:{place}.checks",) + COMMON_TAIL,
                          (f"proj:{place}.checks.len",)) and \
                _collapsed_to_one_per_kind(
                    (detail or {}).get(f"proj:{place}.checks.len"),
                    check_kind_list(place)):
            return "checks-keyed-by-name-duplicate-kind-collapsed"

    # ---- statistics that the writers cannot express ----------------------
    wtext = " ".join(str(v) for k, v in (detail or {}).items()
                     if str(k).startswith("write-exc"))
    for place in PLACES:
        if not _all(T, *ARGS(place), f"{place}.dtype:", *IDX_CTX):
            continue
        names, ac = check_names(place), arg_classes(place)
        if len(names) != 1:
            continue
        name = next(iter(names))
        dtl = {"ts-second", "ts-subsecond", "ts-tz", "td"}
        if place == "frame" and route in ("yaml", "json") and (
                ac & (dtl | {"list:" + c for c in dtl})) and \
                "frozenset" not in wtext and _kinds_ok(
                K, ("write-exc:RepresenterError", "write-exc:TypeError"),
                ("write-exc",)):
            # dataframe-level checks are serialised without any dtype
            return "frame-level-check-datetimelike-statistic-not-converted"
        if name == "unique_values_eq":
            if route in ("yaml", "json") and "frozenset" in wtext and \
                    _kinds_ok(K, ("write-exc:RepresenterError",
                                  "write-exc:TypeError"), ("write-exc",)):
                return "unique_values_eq-statistics-hold-a-frozenset"
            if route == "script" and "frozenset(" in str(
                    (detail or {}).get("__text__")) and _kinds_ok(
                    K, ("eq-false", "text-2nd-gen-differs"), ("eq-false",)):
                return "unique_values_eq-statistics-hold-a-frozenset"
            continue
        if route not in ("yaml", "json"):
            continue
        datetimelike_list = {c for c in ac if c.startswith("list:") and
                             c[5:] in ("ts-second", "ts-subsecond", "ts-tz",
                                       "td")}
        if datetimelike_list and name in ("isin", "notin") and _kinds_ok(
                K, ("write-exc:RepresenterError", "write-exc:TypeError"),
                ("write-exc",)):
            return "datetimelike-values-inside-list-statistic-not-converted"
        default_dt = {f"{place}.dtype:datetime64[ns]",
                      f"{place}.dtype:timedelta64[ns]"}
        if place != "frame" and ac & {"ts-second", "ts-subsecond", "ts-tz",
                                     "td"} and not (default_dt & set(T)) \
                and _kinds_ok(
                K, ("write-exc:RepresenterError", "write-exc:TypeError"),
                ("write-exc",)):
            # handle_stat_dtype compares the column dtype with the *default*
            # DateTime()/Timedelta(): tz-aware or other-unit columns miss it
            return "statistic-conversion-requires-default-DateTime-or-Timedelta-dtype"
        if "ts-subsecond" in ac and any(
                t.startswith(f"{place}.dtype:datetime64[") and "," not in t
                for t in T) and (_kinds_ok(
                K, (f"proj:{place}.checks.statistics",) + COMMON_TAIL,
                (f"proj:{place}.checks.statistics",)) or (
                # truncation made in_range's exclusive bounds coincide
                K == ["read-exc:ValueError"] and name == "in_range" and
                "defines an empty interval" in str(
                    (detail or {}).get("read-exc:ValueError")))):
            return "DATETIME_FORMAT-drops-subseconds-of-statistic"

    # ---- str(dtype) does not carry the dtype's parameters ----------------
    for place in ("col", "idx"):
        if len(T) == 1 and T[0].startswith(f"{place}.dtype:param:") and \
                _kinds_ok(K, (f"proj:{place}.dtype",) + COMMON_TAIL,
                          (f"proj:{place}.dtype",)):
            return "dtype-string-alias-drops-parameters"
    return None


# coverage floors: about 1/4 of what the repaired tree gives (quick: minimum
# over seeds 0,1,2,3,12345; thorough: seed 0, where the 6000 random cases
# dominate every counter).  The deterministic catalogue alone gives every
# counter at least once, whatever the seed.
FLOORS = {
"quick": {
    "class:col.check-opt:ignore_na": 7,
    "class:col.check-opt:n_failure_cases": 10,
    "class:col.check-opt:raise_warning": 8, "class:col.check:equal_to": 8,
    "class:col.check:greater_than": 7,
    "class:col.check:greater_than_or_equal_to": 5,
    "class:col.check:in_range": 8, "class:col.check:isin": 10,
    "class:col.check:less_than": 5, "class:col.check:less_than_or_equal_to":
    4, "class:col.check:not_equal_to": 7, "class:col.check:notin": 6,
    "class:col.check:str_contains": 1, "class:col.check:str_endswith": 1,
    "class:col.check:str_length": 4, "class:col.check:str_matches": 2,
    "class:col.check:str_startswith": 2, "class:col.check:unique_values_eq":
    6, "feature:col.check-opt": 27, "feature:col.checks": 3,
    "feature:col.coerce": 1, "feature:col.description": 6,
    "feature:col.name": 6, "feature:col.nullable": 1, "feature:col.regex":
    1, "feature:col.required": 1, "feature:col.title": 7,
    "feature:col.unique": 1, "feature:frame.check": 16,
    "feature:frame.check-opt": 8, "feature:frame.coerce": 1,
    "feature:frame.description": 4, "feature:frame.dtype": 1,
    "feature:frame.name": 4, "feature:frame.ordered": 1,
    "feature:frame.strict": 1, "feature:frame.title": 4,
    "feature:frame.unique": 2, "feature:idx.check": 27,
    "feature:idx.coerce": 1, "feature:idx.description": 3,
    "feature:idx.name": 55, "feature:idx.nullable": 1, "feature:idx.title":
    3, "feature:idx.unique": 1, "feature:index": 39, "feature:multiindex":
    11, "monitor:json:pandera-eq": 180, "monitor:json:projection": 180,
    "monitor:json:second-generation-text": 180,
    "monitor:json:source-unchanged": 182, "monitor:json:verdict-vector":
    180, "monitor:script:earlier-yaml-still-equal": 181,
    "monitor:script:pandera-eq": 183, "monitor:script:projection": 183,
    "monitor:script:second-generation-text": 183,
    "monitor:script:source-unchanged": 183, "monitor:script:verdict-vector":
    183, "monitor:yaml:pandera-eq": 181, "monitor:yaml:projection": 181,
    "monitor:yaml:second-generation-text": 181,
    "monitor:yaml:source-unchanged": 183, "monitor:yaml:verdict-vector":
    181, "part:catalogue": 146, "part:random": 36, "probe:accept": 372,
    "probe:reject": 716, "roundtrip_ok:json": 172, "roundtrip_ok:script":
    174, "roundtrip_ok:yaml": 173
},
"thorough": {
    "class:col.check-opt:ignore_na": 239,
    "class:col.check-opt:n_failure_cases": 260,
    "class:col.check-opt:raise_warning": 245, "class:col.check:equal_to":
    137, "class:col.check:greater_than": 79,
    "class:col.check:greater_than_or_equal_to": 80,
    "class:col.check:in_range": 76, "class:col.check:isin": 145,
    "class:col.check:less_than": 76,
    "class:col.check:less_than_or_equal_to": 86,
    "class:col.check:not_equal_to": 131, "class:col.check:notin": 111,
    "class:col.check:str_contains": 23, "class:col.check:str_endswith": 23,
    "class:col.check:str_length": 29, "class:col.check:str_matches": 24,
    "class:col.check:str_startswith": 28,
    "class:col.check:unique_values_eq": 103, "feature:col.check-opt": 746,
    "feature:col.checks": 107, "feature:col.coerce": 61,
    "feature:col.description": 186, "feature:col.name": 181,
    "feature:col.nullable": 62, "feature:col.regex": 63,
    "feature:col.required": 61, "feature:col.title": 174,
    "feature:col.unique": 60, "feature:frame.check": 327,
    "feature:frame.check-opt": 247, "feature:frame.coerce": 51,
    "feature:frame.description": 95, "feature:frame.dtype": 52,
    "feature:frame.name": 88, "feature:frame.ordered": 47,
    "feature:frame.strict": 45, "feature:frame.title": 94,
    "feature:frame.unique": 43, "feature:idx.check": 248,
    "feature:idx.coerce": 25, "feature:idx.description": 47,
    "feature:idx.name": 598, "feature:idx.nullable": 24,
    "feature:idx.title": 44, "feature:idx.unique": 22, "feature:index": 345,
    "feature:multiindex": 311, "monitor:json:pandera-eq": 1676,
    "monitor:json:projection": 1676, "monitor:json:second-generation-text":
    1676, "monitor:json:source-unchanged": 1734,
    "monitor:json:verdict-vector": 1676,
    "monitor:script:earlier-yaml-still-equal": 1677,
    "monitor:script:pandera-eq": 1735, "monitor:script:projection": 1735,
    "monitor:script:second-generation-text": 1735,
    "monitor:script:source-unchanged": 1735,
    "monitor:script:verdict-vector": 1735, "monitor:yaml:pandera-eq": 1677,
    "monitor:yaml:projection": 1677, "monitor:yaml:second-generation-text":
    1677, "monitor:yaml:source-unchanged": 1735,
    "monitor:yaml:verdict-vector": 1677, "part:catalogue": 260,
    "part:random": 1479, "probe:accept": 2641, "probe:reject": 7741,
    "roundtrip_ok:json": 1526, "roundtrip_ok:script": 1579,
    "roundtrip_ok:yaml": 1526
},
}
