"""Run bookkeeping: what the monitors observed, violations, evidence file.

A ``Run`` collects
  * evaluations          every executed case
  * distinct_nontrivial  distinct canonical hashes of the cases that satisfy
                         the check's non-triviality rule (counted, not derived)
  * counters             per-class event counts (what the monitors saw)
  * samples              a few actual cases, written out
  * violations           witnesses, each with a *mechanism* key computed by the
                         check's classifier (never a hash / random value)
  * floors               coverage floors; a missed floor makes the run
                         inconclusive (exit 2), never "held"
Runs are mergeable so that sharded workers can be combined by the parent.
"""
from __future__ import annotations

import hashlib
import json
import os
import time
from collections import Counter

from . import env

MAX_SAMPLES = 6
MAX_WITNESSES_PER_MECH = 4


def jsonable(o, depth=0):
    """Best-effort conversion of arbitrary witness data to JSON."""
    if depth > 12:
        return repr(o)[:200]
    if o is None or isinstance(o, (bool, int, str)):
        return o
    if isinstance(o, float):
        if o != o:
            return "NaN"
        if o in (float("inf"), float("-inf")):
            return "inf" if o > 0 else "-inf"
        return o
    if isinstance(o, dict):
        return {str(k): jsonable(v, depth + 1) for k, v in o.items()}
    if isinstance(o, (list, tuple)):
        return [jsonable(v, depth + 1) for v in o]
    if isinstance(o, (set, frozenset)):
        return sorted((jsonable(v, depth + 1) for v in o), key=repr)
    return repr(o)[:400]


def canon_hash(obj) -> str:
    s = json.dumps(jsonable(obj), sort_keys=True, default=repr)
    return hashlib.sha1(s.encode()).hexdigest()[:16]


class Run:
    def __init__(self, pid: str, level: str, rule: str, assumptions=None):
        self.pid = pid
        self.level = level
        self.rule = rule
        self.assumptions = list(assumptions or [])
        self.evaluations = 0
        self.distinct = set()
        self.counters = Counter()
        self.samples = []
        self.violations = []          # list of dict(kind, mechanism, witness)
        self.floors = {}              # counter name -> minimum
        self.inconclusive = []        # reasons
        self.extra = {}               # extra coverage keys (exhaustive, ...)
        self.case_ref = None          # (seed, tier, case index) being executed
        self.t0 = time.time()

    # -- recording -------------------------------------------------------
    def case(self, key, nontrivial=True, sample=None):
        self.evaluations += 1
        if nontrivial:
            self.distinct.add(key if isinstance(key, str) and len(key) == 16
                              else canon_hash(key))
        if sample is not None and len(self.samples) < MAX_SAMPLES:
            self.samples.append(jsonable(sample))

    def count(self, name, n=1):
        self.counters[name] += n

    def floor(self, name, minimum):
        self.floors[name] = max(minimum, self.floors.get(name, 0))

    def violation(self, kind, witness, mechanism=None):
        mech = mechanism or f"unclassified:{kind}"
        self.counters[f"violation:{mech}"] += 1
        n = sum(1 for v in self.violations if v["mechanism"] == mech)
        if n < MAX_WITNESSES_PER_MECH:
            w = jsonable(witness)
            if self.case_ref and isinstance(w, dict) and "_replay" not in w:
                w = dict(w, _replay=dict(self.case_ref))
            self.violations.append(
                {"kind": kind, "mechanism": mech, "witness": w})

    def note_inconclusive(self, why):
        self.inconclusive.append(str(why))

    # -- merge -----------------------------------------------------------
    def to_partial(self):
        return {
            "evaluations": self.evaluations,
            "distinct": sorted(self.distinct),
            "counters": dict(self.counters),
            "samples": self.samples,
            "violations": self.violations,
            "inconclusive": self.inconclusive,
            "extra": self.extra,
        }

    def merge(self, p):
        self.evaluations += p["evaluations"]
        self.distinct.update(p["distinct"])
        self.counters.update(p["counters"])
        for s in p["samples"]:
            if len(self.samples) < MAX_SAMPLES:
                self.samples.append(s)
        for v in p["violations"]:
            n = sum(1 for w in self.violations
                    if w["mechanism"] == v["mechanism"])
            if n < MAX_WITNESSES_PER_MECH:
                self.violations.append(v)
        self.inconclusive.extend(p["inconclusive"])
        for k, v in p.get("extra", {}).items():
            if isinstance(v, bool):
                self.extra[k] = self.extra.get(k, True) and v
            elif isinstance(v, int):
                self.extra[k] = self.extra.get(k, 0) + v
            else:
                self.extra.setdefault(k, v)

    # -- finish ----------------------------------------------------------
    def finish(self, tier, seed):
        from .findings import load_known
        known = load_known()
        open_keys = {k["key"]: k for k in known
                     if k["property"] == self.pid and k["status"] == "open"}
        new, seen_known = [], {}
        for v in self.violations:
            if v["mechanism"] in open_keys:
                seen_known.setdefault(v["mechanism"], v)
            else:
                new.append(v)
        # counters may know of mechanisms whose witnesses were capped
        for name, n in self.counters.items():
            if name.startswith("violation:"):
                mech = name[len("violation:"):]
                if mech in open_keys and mech not in seen_known:
                    seen_known[mech] = None

        for name, minimum in self.floors.items():
            if self.counters.get(name, 0) < minimum:
                self.inconclusive.append(
                    f"coverage floor missed: {name}={self.counters.get(name, 0)}"
                    f" < {minimum}")
        if self.evaluations == 0:
            self.inconclusive.append("no case was evaluated")

        wall = time.time() - self.t0
        lines = []
        for mech in sorted(seen_known):
            lines.append(f"KNOWN-FINDING: property={self.pid} {mech}: "
                         f"{open_keys[mech]['what']}")
        replay_paths = []
        for v in new:
            d = os.path.join(os.environ.get("PVM_EVIDENCE_DIR") or env.VERIF, "replays", self.pid)
            os.makedirs(d, exist_ok=True)
            path = os.path.join(d, canon_hash(v) + ".json")
            with open(path, "w") as f:
                json.dump({"property": self.pid, "seed": seed, "tier": tier,
                           **v}, f, indent=1, default=repr)
            replay_paths.append(path)
            lines.append(f"VIOLATION property={self.pid} replay={path}")
            lines.append(f"  mechanism={v['mechanism']} kind={v['kind']}")

        coverage = {
            "evaluations": int(self.evaluations),
            "distinct_nontrivial": int(len(self.distinct)),
            "rule": self.rule,
            "samples": self.samples[:MAX_SAMPLES] or ["<none recorded>"],
            "events": {k: int(v) for k, v in sorted(self.counters.items())},
            "known_findings_observed": sorted(seen_known),
            "inconclusive_reasons": self.inconclusive,
            "pandera_path": env.pandera_path(),
        }
        coverage.update(self.extra)
        ev = {
            "property_id": self.pid,
            "tier": tier,
            "seed": int(seed),
            "level": self.level,
            "coverage": coverage,
            "assumptions": self.assumptions,
            "wall_s": round(wall, 3),
            "violations": len(new),
        }
        evdir = os.environ.get("PVM_EVIDENCE_DIR") or os.path.join(env.VERIF, "evidence")
        os.makedirs(evdir, exist_ok=True)
        with open(os.path.join(evdir, f"{self.pid}.json"), "w") as f:
            json.dump(ev, f, indent=1, default=repr)

        for ln in lines:
            print(ln)
        status = ("VIOLATED" if new else
                  "INCONCLUSIVE" if self.inconclusive else "HELD")
        print(f"[{self.pid}] {status} tier={tier} seed={seed} "
              f"evaluations={self.evaluations} "
              f"distinct_nontrivial={len(self.distinct)} "
              f"known={len(seen_known)} new={len(new)} wall={wall:.1f}s")
        for r in self.inconclusive:
            print(f"[{self.pid}] inconclusive: {r}")
        if new:
            return 1
        if self.inconclusive:
            return 2
        return 0
