"""C06 workloads: JSON-able case descriptors + builders (pandas and polars).

A case descriptor ``d`` is a superset of pvm.gen.spec's (spec, table):

  d["backend"]  "pandas" | "polars"
  d["spec"]     spec dict of pvm.gen.spec plus, per field: "parsers",
                "drop_invalid_rows", dtype "faulty_int" / None, custom checks
                {"kind":"custom","shape":..,"pred":..,"opts":{..}}; per frame:
                "checks", "parsers" ({"fn": name in c06_faults.PD_PARSER_FRAME}),
                "multiindex" (options of pa.MultiIndex when "index" has more
                than one level: coerce / strict / ordered / unique)
  d["table"]    table dict of pvm.gen.spec; labels may be non-strings
                (tuples encoded as {"tuple":[..]}), cells may be unhashable
                ({"list":[..]})
  d["call"]     {"lazy","head","tail","sample","inplace","depth","arg","lazyframe",
                 "component": i -> validate with the i-th Column of the
                 schema alone (Column.validate(dataframe))}
  d["tags"]     which "unusual but legal" transformations were applied

Part A cases come from pvm.gen.spec.gen_case + hostile transformations; part B
cases are small schemas dense in user callbacks.
"""
from __future__ import annotations

import copy
import json
import random

import numpy as np
import pandas as pd

from . import c06_faults as CF
from .gen import build as B, spec as G

GROUP_COL = "g"


# ------------------------------------------------------------------ encoding
def dec_label(x):
    if isinstance(x, dict) and "tuple" in x:
        return tuple(dec_label(v) for v in x["tuple"])
    return x


def dec_cell(x):
    if isinstance(x, dict) and "list" in x:
        return list(x["list"])
    if isinstance(x, dict) and "dict" in x:
        return dict(x["dict"])
    return x


# ------------------------------------------------------------------ pandas build
def _meta(c, where):
    """what the monitor needs to know about the check a fault fired in"""
    return {"where": where,
            "raise_warning": bool((c.get("opts") or {}).get("raise_warning")),
            # the check sits on a Column(drop_invalid_rows=True): pandas runs
            # such a column's checks once to drop rows and once more on the
            # remaining rows, so one check has several invocations per call
            "col_drop": bool(c.get("on_drop_column"))}


def _pd_custom_check(pa, c, faults, where="column"):
    shape, pred, opts = c["shape"], c["pred"], dict(c.get("opts") or {})
    meta = _meta(c, where)

    def w(kind, fn):
        return faults.wrap(kind, fn, meta=meta)
    if shape == "vec":
        return pa.Check(w("check_vec", CF.PD_VEC[pred]), **opts)
    if shape == "elem":
        return pa.Check(w("check_elem", CF.PD_ELEM[pred]), element_wise=True, **opts)
    if shape == "groupby_col":
        return pa.Check(w("check_groupby", CF.PD_GROUP[pred]),
                        groupby=GROUP_COL, **opts)
    if shape == "groupby_fn":
        return pa.Check(w("check_groupby", CF.PD_GROUP[pred]),
                        groupby=w("groupby_fn", lambda df: df.groupby(GROUP_COL)),
                        **opts)
    if shape == "frame":
        return pa.Check(w("check_frame", CF.PD_FRAME[pred]), **opts)
    if shape == "frame_row":
        return pa.Check(w("check_frame_row", CF.PD_ROW[pred]),
                        element_wise=True, **opts)
    raise KeyError(shape)


def _pd_checks(pa, fs_dtype, checks, faults, where="column"):
    out = []
    for c in checks or []:
        if c["kind"] == "custom":
            out.append(_pd_custom_check(pa, c, faults, where))
        else:
            out.append(B.build_check(pa, fs_dtype if fs_dtype in B.PD_DTYPE
                                     else "int64", c))
    return out


def _pd_parsers(pa, parsers, faults, frame=False):
    out = []
    for p in parsers or []:
        if frame:
            out.append(pa.Parser(faults.wrap(
                "parser_frame", CF.PD_PARSER_FRAME[p.get("fn", "identity")])))
        elif p.get("element_wise"):
            out.append(pa.Parser(faults.wrap("parser_elem",
                                             CF.PD_PARSER_ELEM["identity"]),
                                 element_wise=True))
        else:
            out.append(pa.Parser(faults.wrap("parser", CF.PD_PARSER[p["fn"]])))
    return out


def _pd_dtype(d):
    if d == "faulty_int":
        return CF.pandas_faulty_int()()
    if d == "faulty_int_inplace":
        return CF.pandas_faulty_int_inplace()()
    return B.pd_dtype(d)


def _pd_field_kwargs(pa, fs, faults, where="column"):
    kw = dict(checks=_pd_checks(pa, fs["dtype"], fs.get("checks"), faults,
                                where),
              nullable=fs.get("nullable", False), unique=fs.get("unique", False),
              coerce=fs.get("coerce", False),
              report_duplicates=fs.get("report_duplicates", "all"))
    if fs.get("parsers"):
        kw["parsers"] = _pd_parsers(pa, fs["parsers"], faults)
    if fs.get("default") is not None:
        kw["default"] = B._val(fs["dtype"] or fs.get("dtype_was"), fs["default"])
    if fs.get("drop_invalid_rows"):
        kw["drop_invalid_rows"] = True
    return kw


def pandas_schema(spec, faults):
    import pandera as pa
    index = None
    if spec.get("index"):
        levels = [pa.Index(_pd_dtype(fs["dtype"]), name=fs["name"],
                           **_pd_field_kwargs(
                               pa, fs, faults,
                               "index" if len(spec["index"]) == 1
                               else "multiindex-level"))
                  for fs in spec["index"]]
        mi = spec.get("multiindex") or {}
        index = levels[0] if len(levels) == 1 else pa.MultiIndex(
            levels, **{k: mi[k] for k in ("coerce", "strict", "ordered", "unique")
                       if k in mi})
    if spec["kind"] == "series":
        fs = spec["field"]
        kw = _pd_field_kwargs(pa, fs, faults, "series")
        kw.pop("drop_invalid_rows", None)
        return pa.SeriesSchema(_pd_dtype(fs["dtype"]), name=fs["name"], index=index,
                               drop_invalid_rows=spec.get("drop_invalid_rows", False)
                               or fs.get("drop_invalid_rows", False), **kw)
    cols = {}
    for fs in spec["columns"]:
        key = dec_label(fs.get("key", fs["name"]))
        cols[key] = pa.Column(_pd_dtype(fs["dtype"]), required=fs.get("required", True),
                              regex=fs.get("regex", False),
                              **_pd_field_kwargs(
                                  pa, fs, faults,
                                  "regex-column" if fs.get("regex") else "column"))
    return pa.DataFrameSchema(
        cols, index=index, strict=spec.get("strict", False),
        ordered=spec.get("ordered", False), unique=spec.get("unique"),
        report_duplicates=spec.get("report_duplicates", "all"),
        unique_column_names=spec.get("unique_column_names", False),
        add_missing_columns=spec.get("add_missing_columns", False),
        coerce=spec.get("coerce", False),
        drop_invalid_rows=spec.get("drop_invalid_rows", False),
        dtype=_pd_dtype(spec.get("dtype")),
        checks=_pd_checks(pa, "int64", spec.get("checks"), faults, "frame"),
        parsers=_pd_parsers(pa, spec.get("parsers"), faults, frame=True) or None,
    )


def _pd_col_array(c):
    vals = [dec_cell(v) for v in c["values"]]
    if c["phys"] == "object":
        a = np.empty(len(vals), dtype=object)
        for i, v in enumerate(vals):
            a[i] = v
        return a
    return B._pd_array(c["phys"], vals)


def pandas_table(spec, table):
    cols = table["columns"]
    n = len(cols[0]["values"]) if cols else table.get("nrows", 0)
    idx = B.pandas_index(table.get("index"), n)
    if spec["kind"] == "series":
        c = cols[0]
        return pd.Series(_pd_col_array(c), index=idx, name=dec_label(c["name"]))
    if not cols:
        return pd.DataFrame(index=idx)
    parts = [pd.Series(_pd_col_array(c), index=idx) for c in cols]
    df = pd.concat(parts, axis=1)
    labels = [dec_label(c["name"]) for c in cols]
    if labels and all(isinstance(l, tuple) for l in labels) \
            and len({len(l) for l in labels}) == 1:
        df.columns = pd.MultiIndex.from_tuples(labels)
    else:
        ix = pd.Index(labels, dtype=object) if any(
            not isinstance(l, str) for l in labels) else pd.Index(labels)
        df.columns = ix
    return df


# ------------------------------------------------------------------ polars build
def _pl_checks(pa, dtype, checks, faults, frame=False, where="column"):
    vec, elem, fr = CF.pl_preds()
    out = []
    wrap_ = faults.wrap
    for c in checks or []:
        if c["kind"] != "custom":
            out.append(getattr(pa.Check, c["kind"])(
                **B._pl_args(dtype if dtype in B.PD_DTYPE else "int64", c["args"])))
            continue
        shape, pred = c["shape"], c["pred"]
        opts = dict(c.get("opts") or {})
        meta = _meta(c, "frame" if frame else where)
        if shape == "frame":
            out.append(pa.Check(wrap_("check_frame", fr.get(pred, fr["true"]),
                                      meta=meta), **opts))
        elif shape == "elem":
            out.append(pa.Check(wrap_("check_elem", elem.get(pred, elem["true"]),
                                      meta=meta),
                                element_wise=True, **opts))
        else:
            out.append(pa.Check(wrap_("check_vec", vec.get(pred, vec["true"]),
                                      meta=meta), **opts))
    return out


def _pl_dtype(d):
    if d == "faulty_int":
        return CF.polars_faulty_int()()
    return B.pl_dtype(d)


def polars_schema(spec, faults):
    import pandera.polars as pa
    cols = {}
    for fs in spec["columns"]:
        kw = dict(checks=_pl_checks(pa, fs["dtype"], fs.get("checks"), faults,
                                    where="regex-column" if fs.get("regex")
                                    else "column"),
                  nullable=fs.get("nullable", False),
                  unique=fs.get("unique", False), coerce=fs.get("coerce", False),
                  required=fs.get("required", True))
        if fs.get("regex"):
            kw["regex"] = True
        if fs.get("default") is not None:
            kw["default"] = B._pl_val(fs["dtype"] or fs.get("dtype_was"),
                                      fs["default"])
        if fs.get("drop_invalid_rows"):
            kw["drop_invalid_rows"] = True
        cols[fs.get("key", fs["name"])] = pa.Column(_pl_dtype(fs["dtype"]), **kw)
    return pa.DataFrameSchema(
        cols, strict=spec.get("strict", False), ordered=spec.get("ordered", False),
        unique=spec.get("unique"),
        add_missing_columns=spec.get("add_missing_columns", False),
        coerce=spec.get("coerce", False),
        drop_invalid_rows=spec.get("drop_invalid_rows", False),
        dtype=_pl_dtype(spec.get("dtype")),
        checks=_pl_checks(pa, "int64", spec.get("checks"), faults, frame=True),
    )


def polars_table(table, lazy=False):
    import datetime as dt

    import polars as pl
    data = {}
    for c in table["columns"]:
        vals = c["values"]
        if c["phys"] == "datetime":
            vals = [None if v is None else dt.datetime.fromisoformat(v) for v in vals]
        data[str(c["name"])] = pl.Series(str(c["name"]), vals,
                                         dtype=B.pl_phys(c["phys"]))
    df = pl.DataFrame(data)
    return df.lazy() if lazy else df


# ------------------------------------------------------------------ build a case
def build(d, faults):
    """-> (schema, obj, validate kwargs, is_dataframe_like_argument)."""
    spec, table, call = d["spec"], d["table"], d["call"]
    if d["backend"] == "pandas":
        schema = pandas_schema(spec, faults)
        obj = pandas_table(spec, table)
        if call.get("component") is not None:
            # a Column used on its own: Column.validate(dataframe)
            schema = list(schema.columns.values())[call["component"]]
    else:
        schema = polars_schema(spec, faults)
        obj = polars_table(table, lazy=call.get("lazyframe", False))
    arg = call.get("arg", "data")
    is_frame = True
    if arg != "data":
        is_frame = False
        if arg == "none":
            obj = None
        elif arg == "list":
            obj = [[1, 2], [3, 4]]
        elif arg == "dict":
            obj = {"a": [1, 2]}
        elif arg == "ndarray":
            obj = np.arange(4).reshape(2, 2)
        elif arg == "string":
            obj = "not a frame"
        elif arg == "series_for_frame":
            obj = pd.Series([1, 2], name="a")
        elif arg == "frame_for_series":
            obj = pd.DataFrame({"a": [1, 2]})
        elif arg == "other_backend":
            import polars as pl
            obj = pl.DataFrame({"a": [1, 2]}) if d["backend"] == "pandas" \
                else pd.DataFrame({"a": [1, 2]})
    kw = {k: call[k] for k in ("lazy", "head", "tail", "sample", "inplace")
          if call.get(k) not in (None, False)}
    if "sample" in kw:
        kw["random_state"] = 0
    return schema, obj, kw, is_frame


# ------------------------------------------------------------------ part A gen
def _rows(table):
    cols = table["columns"]
    return len(cols[0]["values"]) if cols else 0


def hostile(rng, backend):
    """One 'unusual but legal' case (DESIGN 4/C06 part A)."""
    neutral = backend == "polars"
    spec, table, muts = G.gen_case(rng, neutral=neutral,
                                   kind="frame" if neutral else None)
    call = {"lazy": rng.random() < 0.5}
    tags = []
    frame = spec["kind"] == "frame"
    fields = spec["columns"] if frame else [spec["field"]]

    def T(p):
        return rng.random() < p

    # -- drop_invalid_rows with every kind of error
    if T(0.35):
        where = rng.choice(["frame", "frame", "column"]) if frame else "frame"
        if where == "frame":
            spec["drop_invalid_rows"] = True
        elif fields:
            rng.choice(fields)["drop_invalid_rows"] = True
        call["lazy"] = rng.random() < 0.9
        tags.append("drop_invalid_rows:" + where + (":eager" if not call["lazy"] else ""))
    # -- add_missing_columns
    if frame and T(0.25):
        spec["add_missing_columns"] = True
        for fs in fields:
            r = rng.random()
            if r < 0.4:
                pool = G.POOL[fs["dtype"]]
                fs["default"] = rng.choice(pool)
            elif r < 0.7:
                fs["nullable"] = True
        if table["columns"] and T(0.8):
            k = rng.randrange(len(table["columns"]))
            if len(table["columns"]) > 1 or T(0.3):
                del table["columns"][k]
        tags.append("add_missing_columns")
    # -- coercion
    if T(0.3):
        if frame and T(0.4):
            spec["coerce"] = True
        for fs in fields:
            if T(0.5):
                fs["coerce"] = True
        if spec.get("index") and T(0.5):
            every = T(0.5)      # else: on some levels of a MultiIndex only
            for fs in spec["index"]:
                fs["coerce"] = every or T(0.5)
        tags.append("coerce")
    if T(0.12) and fields:
        fs = rng.choice(fields)
        fs["dtype_was"] = fs["dtype"]
        fs["checks"] = []          # built-in check args need a declared dtype
        fs["dtype"] = None
        fs["coerce"] = True
        if T(0.6):
            fs["default"] = None
        tags.append("dtype=None+coerce")
    if frame and T(0.1):
        spec["dtype"] = rng.choice(["int64", "float64", "str"])
        spec["coerce"] = T(0.5)
        tags.append("frame-dtype")
    if frame and T(0.15):
        spec["strict"] = "filter"
        tags.append("strict=filter")
    # -- wrongly typed data under value checks
    if T(0.3) and table["columns"]:
        c = rng.choice(table["columns"])
        other = rng.choice(["int64", "float64", "str", "bool", "datetime"])
        n = len(c["values"])
        c["values"] = [rng.choice(G.POOL[other]) for _ in range(n)]
        c["phys"] = G.PHYS_OF[other]
        tags.append("retyped-column")
    # -- hostile cells (pandas object columns)
    if not neutral and T(0.15) and table["columns"]:
        c = rng.choice(table["columns"])
        n = len(c["values"])
        kind = rng.choice(["unhashable", "mixed"])
        if kind == "unhashable":
            c["values"] = [{"list": [i, i]} for i in range(n)]
        else:
            c["values"] = [rng.choice(["a", 1, 2.5, None, True]) for _ in range(n)]
        c["phys"] = "object"
        tags.append("cells:" + kind)
    # -- empty frames
    r = rng.random()
    if r < 0.08:
        for c in table["columns"]:
            c["values"] = []
        if table.get("index"):
            for lv in table["index"]["levels"]:
                lv["values"] = []
        tags.append("empty-rows")
    elif r < 0.12 and frame:
        n = _rows(table)
        table["columns"] = []
        table["nrows"] = n
        tags.append("no-columns")
    # -- labels
    if not neutral and frame and table["columns"]:
        if T(0.15):
            c = rng.choice(table["columns"])
            k = rng.randrange(len(table["columns"]) + 1)
            table["columns"].insert(k, copy.deepcopy(c))
            tags.append("duplicate-labels")
            if T(0.5):
                spec["ordered"] = True
            if T(0.3):
                spec["unique_column_names"] = True
        if T(0.2):
            c = rng.choice(table["columns"])
            newl = rng.choice([0, 1, 7, 2.5, None, True, {"tuple": ["a", 1]}])
            old = c["name"]
            c["name"] = newl
            tags.append("non-string-label")
            if T(0.4):     # declare it in the schema too
                for fs in fields:
                    if fs["name"] == old and not fs["regex"]:
                        fs["key"] = newl
                        fs["name"] = newl
            if not any(fs["regex"] for fs in fields) and T(0.7):
                fs = G.gen_field(rng, rng.choice(["r_.*", "a|b", ".", "\\d+"]))
                fs["regex"] = True
                fs["required"] = T(0.5)
                spec["columns"].append(fs)
                tags.append("regex+non-string-label")
        if T(0.06):
            for i, c in enumerate(table["columns"]):
                c["name"] = {"tuple": [str(c["name"]), i % 2]}
            tags.append("multiindex-columns")
    # -- index shape mismatches
    if not neutral and T(0.1):
        if spec.get("index") and len(spec["index"]) == 1:
            n = _rows(table)
            table["index"] = {"levels": [
                {"name": "i0", "phys": "int64", "values": list(range(n))},
                {"name": "i1", "phys": "object", "values": ["k"] * n}]}
            tags.append("index-schema-vs-multiindex")
        elif spec.get("index") and len(spec["index"]) > 1:
            table["index"] = None
            tags.append("multiindex-schema-vs-plain")
        elif table["columns"] and _rows(table) >= 2:
            n = _rows(table)
            table["index"] = {"levels": [{"name": None, "phys": "int64",
                                          "values": [0] * n}]}
            tags.append("duplicate-index-labels")
    # -- frame level checks on heterogeneous frames
    if frame and T(0.2):
        spec["checks"] = [G.gen_check(rng, rng.choice(["int64", "float64", "str"]))]
        if T(0.3):
            spec["checks"].append({"kind": "custom", "shape": "frame",
                                   "pred": rng.choice(list(CF.PD_FRAME))
                                   if not neutral else
                                   rng.choice(["true", "never", "scalar_false"])})
        tags.append("frame-level-check")
    if frame and not spec.get("unique") and T(0.15):
        names = [fs["name"] for fs in fields if isinstance(fs["name"], str)
                 and not fs["regex"]]
        if names:
            spec["unique"] = rng.sample(names, min(len(names), rng.randint(1, 2)))
            tags.append("joint-unique")
    # -- call options
    if T(0.2):
        opt = rng.choice(["head", "tail", "sample"])
        n = _rows(table)
        if opt == "sample":
            # sample(n > len) is an argument error of the caller (not judged)
            if n >= 1:
                call["sample"] = rng.randint(1, min(3, n))
                tags.append("subsample")
        else:
            call[opt] = rng.randint(1, 3)
            tags.append("subsample")
    if not neutral and T(0.1):
        call["inplace"] = True
        tags.append("inplace")
    if neutral and T(0.5):
        call["lazyframe"] = True
        tags.append("LazyFrame")
    if T(0.12):
        call["depth"] = rng.choice(["SCHEMA_ONLY", "DATA_ONLY", "SCHEMA_AND_DATA"])
        tags.append("depth:" + call["depth"])
    if T(0.04):
        call["arg"] = rng.choice(
            ["none", "list", "dict", "ndarray", "string", "other_backend"]
            + (["series_for_frame"] if frame else ["frame_for_series"]))
        tags.append("arg:" + call["arg"])
    for m in muts:
        tags.append("mut:" + m[0])
    return {"backend": backend, "spec": spec, "table": table, "call": call,
            "tags": tags}


# ------------------------------------------------------------------ part B gen
PREDS = ["true", "true", "notnull", "short", "never", "scalar_true", "scalar_false",
         "mut_true"]
UNCOERCIBLE = ["x", "", "1.5x", None, "nan?"]


def _custom(rng, shape, polars=False):
    if shape in ("elem", "frame_row", "groupby_col", "groupby_fn"):
        pred = rng.choice(["true", "true", "notnull", "never"] +
                          ([] if polars else ["short"]) +
                          (["mut_true"] if shape.startswith("groupby") else []))
    elif polars:
        pred = rng.choice(["true", "true", "notnull", "never", "scalar_true",
                           "scalar_false"])
        if shape == "frame" and pred == "notnull":
            pred = "true"
    else:
        pred = rng.choice(PREDS)
    c = {"kind": "custom", "shape": shape, "pred": pred, "opts": {}}
    if rng.random() < 0.15:
        c["opts"]["ignore_na"] = False
    if rng.random() < 0.1 and not polars:
        c["opts"]["n_failure_cases"] = 1
    if rng.random() < 0.15:
        c["opts"]["name"] = "named_check"
    if rng.random() < 0.1:
        c["opts"]["error"] = "custom error text"
    if rng.random() < 0.1:
        # a failing check only warns (SchemaWarning) instead of raising
        c["opts"]["raise_warning"] = True
    if shape.startswith("groupby") and rng.random() < 0.3:
        # only these groups are handed to the check; "z" is never a group of
        # the data (documented KeyError inside the check -> a failed check)
        c["opts"]["groups"] = rng.choice([["x"], ["x", "y"], ["y"], ["z"],
                                          "x"])
    return c


def _multiindex(rng, spec, table, nrows, tags):
    """A MultiIndex schema (2-3 levels): coerce is requested per level and /
    or on the MultiIndex itself, levels carry user callbacks, level data is
    conforming, coercible text or (sometimes) not coercible at all."""
    nlev = rng.choice([2, 2, 3])
    named = rng.random() < 0.85
    levels, tlevels = [], []
    for j in range(nlev):
        dtype = rng.choice(["int64", "int64", "str", "faulty_int"])
        base = "int64" if dtype.startswith("faulty_int") else dtype
        ix = G.gen_field(rng, f"i{j}" if named else None, base, p_checks=0)
        ix["dtype"] = dtype
        ix["unique"] = False
        ix["nullable"] = False
        ix["coerce"] = rng.random() < 0.45
        ix["checks"] = [_custom(rng, rng.choice(["vec", "elem"]))
                        for _ in range(rng.choice([0, 1, 1]))]
        if base == "int64":
            vals, phys = [rng.choice([0, 1, 2, 7]) for _ in range(nrows)], "int64"
            if j == 0:
                vals = list(range(nrows))
            if rng.random() < 0.4:
                # text that only a coercing level / MultiIndex accepts
                vals, phys = [str(v) for v in vals], "object"
                if rng.random() < 0.3:
                    vals[rng.randrange(nrows)] = rng.choice(
                        [u for u in UNCOERCIBLE if u is not None])
        else:
            vals, phys = [rng.choice(["k", "m", "zz"]) for _ in range(nrows)], "object"
        levels.append(ix)
        tlevels.append({"name": ix["name"], "phys": phys, "values": vals})
    spec["index"] = levels
    spec["multiindex"] = {"coerce": rng.random() < 0.25,
                          "strict": rng.random() < 0.3,
                          "ordered": rng.random() < 0.75}
    table["index"] = {"levels": tlevels}
    tags.append("multiindex")
    n_coerce = sum(bool(ix["coerce"]) for ix in levels)
    if spec["multiindex"]["coerce"]:
        tags.append("multiindex:coerce=True")
    elif 0 < n_coerce < nlev:
        tags.append("multiindex:coerce-on-some-levels")
    elif n_coerce == nlev:
        tags.append("multiindex:coerce-on-every-level")
    else:
        tags.append("multiindex:no-coerce")


def _column_level_drop(spec, table, call, tags, polars):
    """drop_invalid_rows=True on schema *components* (one or several columns;
    with call["component"]: the stand-alone Column; for a series case the
    first field becomes SeriesSchema(drop_invalid_rows=True)).  A component
    that drops rows validates its data more than once within one validate
    call (pandas: a row-dropping pass, then a pass on the remaining rows), so
    every user callback on it has several invocations and a fault at the k-th
    one may hit either pass.  Requires lazy=True.  The draw comes from a
    generator of its own (seeded by the case), so the cases drawn so far are
    what they were before this class existed."""
    sub = random.Random("c06-column-drop|" + json.dumps(
        [spec, table, call], sort_keys=True, default=str))
    if sub.random() >= 0.25:
        return
    cols = [fs for fs in spec["columns"] if fs["name"] != GROUP_COL] \
        or list(spec["columns"])
    if not cols:
        return
    picked = sub.sample(cols, min(len(cols), sub.choice([1, 1, 1, 2, 3])))
    comp = call.get("component")
    if comp is not None and spec["columns"][comp] not in picked:
        picked.append(spec["columns"][comp])
    for fs in picked:
        fs["drop_invalid_rows"] = True
        for c in fs.get("checks") or []:
            if c.get("kind") == "custom":
                c["on_drop_column"] = True
    call["lazy"] = True
    tags.append("drop_invalid_rows:column")
    if any(c.get("kind") == "custom" for fs in picked
           for c in fs.get("checks") or []):
        tags.append("drop_invalid_rows:column-with-user-check")


def callbacks_case(rng, backend):
    """A small schema dense in user callbacks (part B)."""
    polars = backend == "polars"
    nrows = rng.choice([1, 2, 3, 3, 4, 6])
    ncols = rng.randint(1, 3)
    names = rng.sample(["a", "b", "c", "x"], ncols)
    spec = {"kind": "frame", "columns": [], "index": None, "strict": False,
            "ordered": False, "unique": None, "report_duplicates": "all",
            "unique_column_names": False, "add_missing_columns": False,
            "coerce": False, "drop_invalid_rows": False, "dtype": None,
            "checks": [], "parsers": []}
    table = {"columns": [], "index": None}
    series = (not polars) and rng.random() < 0.15
    use_regex = rng.random() < 0.3
    tags = ["callbacks"]
    shapes_col = ["vec", "vec", "elem"] + ([] if polars else
                                           ["groupby_col", "groupby_fn"])
    for i, nme in enumerate(names):
        dtype = rng.choice(["int64", "float64", "str", "faulty_int", "faulty_int"]
                           + ([] if polars else ["faulty_int_inplace"]))
        base = "int64" if dtype.startswith("faulty_int") else dtype
        fs = G.gen_field(rng, nme, base, p_checks=0.3, max_checks=1,
                         neutral=polars, allow_unique=True)
        fs["coerce"] = rng.random() < 0.4
        vals = G.gen_values(rng, fs, nrows)     # built-in checks only so far
        fs["dtype"] = dtype
        for _ in range(rng.choice([0, 1, 1, 2])):
            fs["checks"].insert(rng.randint(0, len(fs["checks"])),
                                _custom(rng, rng.choice(shapes_col), polars))
        if not polars and rng.random() < 0.3:
            fs["parsers"] = [{"fn": rng.choice(list(CF.PD_PARSER)),
                              "element_wise": rng.random() < 0.25}]
            # a groupby check needs the whole frame; a column parser hands the
            # check a bare Series -> keep these two features apart
            fs["checks"] = [c for c in fs["checks"]
                            if c.get("shape") not in ("groupby_col", "groupby_fn")]
        phys = G.PHYS_OF[base]
        if fs["coerce"] and rng.random() < 0.5 and base in ("int64", "float64") \
                and not any(v is None for v in vals):
            vals, phys = [str(v) for v in vals], "object"
            if rng.random() < 0.45:
                # cells no coercion can convert: coerce() fails and pandera
                # computes the failure cases value by value (coerce_value)
                for _ in range(rng.randint(1, 2)):
                    vals[rng.randrange(nrows)] = rng.choice(UNCOERCIBLE)
                if "uncoercible-cells" not in tags:
                    tags.append("uncoercible-cells")
        label = nme
        if use_regex and i == 0:
            # regex column: matched labels r_a, r_bb validated one after another
            fs["regex"] = True
            fs["name"] = "^r_.*$" if polars else "r_.*"
            for lab in ["r_a", "r_bb"][:rng.randint(1, 2)]:
                table["columns"].append({"name": lab, "phys": phys,
                                         "values": list(vals)})
        else:
            table["columns"].append({"name": label, "phys": phys, "values": vals})
        spec["columns"].append(fs)
    # group column for groupby checks
    if not polars:
        table["columns"].append({"name": GROUP_COL, "phys": "object",
                                 "values": [rng.choice(["x", "y"])
                                            for _ in range(nrows)]})
        if rng.random() < 0.5:
            spec["columns"].append(G.gen_field(rng, GROUP_COL, "str", p_checks=0))
            spec["columns"][-1]["unique"] = False
    # frame-level callbacks
    for _ in range(rng.choice([0, 0, 1, 2])):
        shape = "frame" if polars else rng.choice(["frame", "frame", "frame_row"])
        spec["checks"].append(_custom(rng, shape, polars))
    if not polars and rng.random() < 0.25:
        spec["parsers"] = [{"fn": rng.choice(list(CF.PD_PARSER_FRAME))}]
    r = rng.random()
    if not polars and r < 0.2:
        ix = G.gen_field(rng, rng.choice(["i0", None]), "int64", p_checks=0)
        ix["unique"] = False
        ix["nullable"] = False
        ix["checks"] = [_custom(rng, rng.choice(["vec", "elem"]))]
        spec["index"] = [ix]
        table["index"] = {"levels": [{"name": ix["name"], "phys": "int64",
                                      "values": list(range(nrows))}]}
    elif not polars and r < 0.42:
        _multiindex(rng, spec, table, nrows, tags)
    spec["coerce"] = rng.random() < 0.15
    if rng.random() < 0.08:
        # dataframe-wide dtype: every column component is validated with
        # its dtype (and coerce) temporarily overridden
        spec["dtype"] = rng.choice(
            ["int64", "float64", "str"] +
            ([] if polars else ["faulty_int", "faulty_int_inplace"]))
        spec["coerce"] = rng.random() < 0.6
        tags.append("frame-dtype")
    spec["strict"] = rng.choice([False, False, True, "filter"])
    call = {"lazy": rng.random() < 0.55}
    if rng.random() < 0.2:
        spec["drop_invalid_rows"] = True
        call["lazy"] = True
        tags.append("drop_invalid_rows")
    if rng.random() < 0.1 and not polars:
        call["inplace"] = True
    if polars and rng.random() < 0.2:
        call["lazyframe"] = True
        call["depth"] = "SCHEMA_AND_DATA"   # otherwise no data-level callbacks run
        tags.append("LazyFrame")
    if rng.random() < 0.15:
        call[rng.choice(["head", "tail"])] = rng.randint(1, 3)
    if not polars and not series and rng.random() < 0.12:
        # schema components are schemas too: Column(...).validate(df); the
        # first column is the regex one when there is one
        call["component"] = rng.choice([0, 0, rng.randrange(len(names))])
        tags.append("standalone-column")
    _column_level_drop(spec, table, call, tags, polars)
    if series:
        fs = spec["columns"][0]
        fs["regex"] = False
        fs["checks"] = [c for c in fs["checks"]
                        if c.get("shape") not in ("groupby_col", "groupby_fn")]
        fs["name"] = rng.choice(["a", None])
        if not fs.get("parsers") and rng.random() < 0.5:
            # SeriesSchema.validate(inplace=False) copies on its own
            fs["parsers"] = [{"fn": rng.choice(
                ["inplace_first", "inplace_reverse", "inplace_clip"]),
                "element_wise": False}]
        col = table["columns"][0]
        col["name"] = fs["name"]
        spec = {"kind": "series", "field": fs, "index": spec["index"],
                "multiindex": spec.get("multiindex"),
                "drop_invalid_rows": spec["drop_invalid_rows"]}
        table = {"columns": [col], "index": table["index"]}
        tags.append("series")
    return {"backend": backend, "spec": spec, "table": table, "call": call,
            "tags": tags}
