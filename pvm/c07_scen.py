"""C07 scenarios: sets of 2-3 concurrent validate calls (DESIGN 4/C07).

A scenario is rebuilt from scratch (schemas, frames) for every schedule so a
state leak found in one schedule cannot contaminate the next one.  ``build``
is a pure function of (scenario name, variant, number of threads, seed).

Built.thunks[i]()  -> pvm.harness.Outcome of thread i's validate call
Built.schemas      -> {label: schema object}   fingerprinted before / after
Built.probe()      -> {field: value} shared-state fields sampled by the
                      scheduler at token hand-overs (witness for the
                      mechanism classifier; never the deciding step)
"""
from __future__ import annotations

import random
import re

import pandas as pd
import polars as pl

from . import harness as H, snap as S

_HEX = re.compile(r"0x[0-9a-fA-F]+")


def _clean(x):
    return _HEX.sub("0x", repr(x))[:300]


def sig(out):
    """Comparable signature of an Outcome: frames bit-for-bit, exceptions by
    type + reason codes + failure cases."""
    if out is None:
        return ("none",)
    if out.kind == "ok":
        try:
            return ("ok", S.kind(out.result), S.snap(out.result))
        except Exception as e:  # an uncollectable LazyFrame is an outcome too
            return ("ok-uncollectable", type(e).__name__)
    if out.kind == "exc":
        return ("exc", type(out.exc).__name__, _clean(str(out.exc)))
    errs = []
    for e in out.errors:
        errs.append((e.reason, _clean(e.column), e.check_index, _clean(e.check),
                     None if e.cells is None else [_clean(c) for c in e.cells],
                     _clean(e.scalar), e.context))
    return (out.kind, errs)


def brief(sg):
    """Short human readable form of a signature for witnesses."""
    if sg[0] == "ok":
        return f"ok:{sg[1]}"
    if sg[0] in ("exc", "ok-uncollectable", "none"):
        return ":".join(map(str, sg))[:200]
    return f"{sg[0]}:" + ",".join(f"{e[0]}@{e[1]}" for e in sg[1])[:300]


class Built:
    def __init__(self):
        self.thunks = []
        self.labels = []
        self.schemas = {}
        self.cleanup = None

    def add(self, label, thunk):
        self.labels.append(label)
        self.thunks.append(thunk)

    def probe(self):
        import pandera.config as cfg
        # public accessor (works whatever the storage of the context config
        # is); evaluated in the calling thread = that thread's view
        c = cfg.get_config_context(validation_depth_default=None)
        d = {"cfg.validation_depth": getattr(c.validation_depth, "name", None),
             "cfg.validation_enabled": c.validation_enabled,
             "cfg.cache_dataframe": c.cache_dataframe,
             "cfg.keep_cached_dataframe": c.keep_cached_dataframe}
        for lab, s in self.schemas.items():
            cols = getattr(s, "columns", None)
            if isinstance(cols, dict):
                for k, col in cols.items():
                    v = col.__dict__
                    d[f"col.{lab}.{k}.coerce"] = v.get("coerce")
                    d[f"col.{lab}.{k}.dtype"] = str(v.get("_dtype"))
                    d[f"col.{lab}.{k}.name"] = repr(v.get("name"))
            ix = getattr(s, "index", None)
            if ix is not None and hasattr(ix, "__dict__"):
                v = ix.__dict__
                d[f"col.{lab}.<index>.coerce"] = v.get("coerce")
                d[f"col.{lab}.<index>.dtype"] = str(v.get("_dtype"))
                d[f"col.{lab}.<index>.name"] = repr(v.get("name"))
        return d


def _v(schema, obj, **kw):
    return lambda: H.run_validate(schema, obj, **kw)


# ------------------------------------------------------------------ pandas
def pd_shared_coerce(rng, n):
    """One pandas schema with coerce=True columns; passing ∥ failing frame."""
    import pandera as pa
    with_index = rng.random() < 0.4
    cols = {"a": pa.Column(int, pa.Check.gt(0), coerce=True),
            "b": pa.Column(float, pa.Check.in_range(0, 10), coerce=True),
            "c": pa.Column(str, nullable=rng.random() < 0.5)}
    if rng.random() < 0.5:
        cols["d"] = pa.Column("datetime64[ns]", coerce=True, required=False)
    s = pa.DataFrameSchema(
        cols, index=pa.Index(int, coerce=True) if with_index else None,
        strict=rng.choice([False, False, True]))
    rows = rng.randint(2, 5)
    idx = [str(i) for i in range(rows)] if with_index else None
    good = pd.DataFrame({"a": [str(i + 1) for i in range(rows)],
                         "b": [f"{i}.5" for i in range(rows)],
                         "c": ["x"] * rows}, index=idx)
    bad = good.copy()
    how = rng.choice(["check", "coerce", "missing"])
    if how == "check":
        bad.loc[bad.index[rng.randrange(rows)], "a"] = "-4"
    elif how == "coerce":
        bad.loc[bad.index[rng.randrange(rows)], "b"] = "zz"
    else:
        bad = bad.drop(columns=["c"])
    b = Built()
    b.schemas["S"] = s
    b.add("S.validate(good)", _v(s, good, lazy=rng.random() < 0.3))
    b.add(f"S.validate(bad:{how})", _v(s, bad, lazy=rng.random() < 0.5))
    if n == 3:
        good2 = good.copy()
        good2["a"] = [i + 1 for i in range(rows)]       # already typed
        b.add("S.validate(good typed)", _v(s, good2))
    return b


def pd_shared_frame_dtype(rng, n):
    """Frame-level dtype override of the columns' own dtypes."""
    import pandera as pa
    coerce = rng.random() < 0.6
    s = pa.DataFrameSchema(
        {"a": pa.Column(int, pa.Check.ge(0)), "b": pa.Column(float),
         "c": pa.Column(int, required=False)},
        dtype="float64", coerce=coerce)
    rows = rng.randint(2, 4)
    if coerce:
        good = pd.DataFrame({"a": [str(i) for i in range(rows)],
                             "b": [i for i in range(rows)]})
    else:
        good = pd.DataFrame({"a": [float(i) for i in range(rows)],
                             "b": [i + 0.5 for i in range(rows)]})
    bad = good.copy()
    bad["a"] = [-1.0] + [1.0] * (rows - 1)
    if rng.random() < 0.4:
        bad["b"] = ["q"] * rows
    b = Built()
    b.schemas["S"] = s
    b.add("S.validate(good)", _v(s, good))
    b.add("S.validate(bad)", _v(s, bad, lazy=rng.random() < 0.5))
    if n == 3:
        g2 = good.copy()
        g2["c"] = [1.0] * rows
        b.add("S.validate(good+c)", _v(s, g2, lazy=True))
    return b


def pd_shared_regex(rng, n):
    """Regex column: validation renames the shared Column per matched label."""
    import pandera as pa
    s = pa.DataFrameSchema(
        {"r_.*": pa.Column(int, pa.Check.ge(0), regex=True),
         "k": pa.Column(str)})
    rows = rng.randint(2, 4)
    good = pd.DataFrame({"r_a": list(range(rows)), "k": ["x"] * rows,
                         "r_bb": list(range(rows))})
    # the failing thread is also given a passing frame half of the time: a
    # failing validate leaves the column renamed even when run alone (that is
    # C05/C06's finding); a passing one must leave no trace.
    second_fails = rng.random() < 0.5
    other = good.copy()
    if second_fails:
        other["r_bb"] = [-1] + [1] * (rows - 1)
    else:
        other["r_c"] = list(range(rows))
    b = Built()
    b.schemas["S"] = s
    b.add("S.validate(good)", _v(s, good))
    b.add("S.validate(%s)" % ("bad r_bb" if second_fails else "good r_c"),
          _v(s, other, lazy=rng.random() < 0.5))
    if n == 3:
        g3 = good.drop(columns=["r_bb"])
        b.add("S.validate(good r_a only)", _v(s, g3))
    return b


def pd_shared_plain(rng, n):
    """Control: ONE shared pandas schema without coerce / regex / frame dtype.
    The temporary overrides are no-ops here, so nothing observable is shared:
    any disagreement in this scenario is a race of another kind."""
    import pandera as pa
    s = pa.DataFrameSchema(
        {"a": pa.Column(int, [pa.Check.gt(0), pa.Check.lt(100)]),
         "b": pa.Column(float, pa.Check.in_range(0, 10), nullable=True),
         "c": pa.Column(str, pa.Check.isin(["x", "y"]), unique=rng.random() < 0.4)},
        index=pa.Index(int) if rng.random() < 0.5 else None,
        strict=rng.choice([False, True]), ordered=rng.random() < 0.3)
    rows = rng.randint(2, 5)
    good = pd.DataFrame({"a": list(range(1, rows + 1)),
                         "b": [0.5 * i for i in range(rows)],
                         "c": ["x", "y"] + ["x"] * (rows - 2)})
    bad = good.copy()
    bad.loc[0, "a"] = -5
    bad.loc[1, "a"] = 500
    bad.loc[0, "b"] = 99.0
    bad["c"] = ["q"] * rows
    b = Built()
    b.schemas["S"] = s
    b.add("S.validate(good)", _v(s, good))
    b.add("S.validate(bad) lazy", _v(s, bad, lazy=True))
    if n == 3:
        b.add("S.validate(bad) eager", _v(s, bad))
    return b


def pd_two_schemas(rng, n):
    """Control: different schema objects, nothing shared but the process."""
    import pandera as pa
    s1 = pa.DataFrameSchema({"a": pa.Column(int, pa.Check.gt(0), coerce=True),
                             "b": pa.Column(str, pa.Check.isin(["x", "y"]))})
    s2 = pa.DataFrameSchema({"a": pa.Column(float, [pa.Check.lt(10),
                                                    pa.Check.gt(1)]),
                             "z": pa.Column(int, unique=True)},
                            index=pa.Index(int), coerce=rng.random() < 0.5)
    s3 = pa.SeriesSchema(int, pa.Check.ge(0), name="q", coerce=True)
    rows = rng.randint(2, 5)
    d1 = pd.DataFrame({"a": [str(i + 1) for i in range(rows)],
                       "b": ["x"] * rows})
    # several failures inside one component: a lazy call reports all of them
    d2 = pd.DataFrame({"a": [11.5, 0.5] + [1.5] * (rows - 2), "z": [1] * rows})
    d3 = pd.Series([str(i) for i in range(rows)], name="q")
    if rng.random() < 0.5:
        d1.loc[0, "b"] = "nope"
    b = Built()
    b.schemas.update({"S1": s1, "S2": s2, "S3": s3})
    b.add("S1.validate", _v(s1, d1))
    b.add("S2.validate", _v(s2, d2, lazy=True))
    if n == 3:
        b.add("S3.validate", _v(s3, d3))
    return b


# ------------------------------------------------------------------ polars
def pl_df_vs_lazy(rng, n):
    """polars DataFrame (data checked) ∥ LazyFrame (schema only), one schema."""
    import pandera.polars as pap
    s = pap.DataFrameSchema({"a": pap.Column(pl.Int64, pap.Check.gt(0)),
                             "b": pap.Column(pl.String,
                                             nullable=rng.random() < 0.5)},
                            coerce=rng.random() < 0.3)
    rows = rng.randint(2, 5)
    bad = pl.DataFrame({"a": [-1] + list(range(1, rows)), "b": ["x"] * rows})
    good = pl.DataFrame({"a": list(range(1, rows + 1)), "b": ["y"] * rows})
    b = Built()
    b.schemas["P"] = s
    b.add("P.validate(DataFrame bad values)", _v(s, bad,
                                                  lazy=rng.random() < 0.4))
    b.add("P.validate(LazyFrame bad values)", _v(s, bad.lazy()))
    if n == 3:
        b.add("P.validate(DataFrame good)", _v(s, good))
    return b


def pl_vs_user_ctx(rng, n):
    """A validate call ∥ a user config_context(validation_depth=...) block."""
    import pandera as pa
    import pandera.polars as pap
    from pandera.config import ValidationDepth, config_context
    rows = rng.randint(2, 4)
    ps = pap.DataFrameSchema({"a": pap.Column(pl.Int64, pap.Check.gt(0))})
    pbad = pl.DataFrame({"a": [-1] + list(range(1, rows))})
    ds = pa.DataFrameSchema({"a": pa.Column(int, pa.Check.gt(0))})
    dbad = pd.DataFrame({"a": [-1] + list(range(1, rows))})
    dwrong = pd.DataFrame({"a": [float(i) + 0.5 for i in range(rows)]})
    depth = rng.choice([ValidationDepth.SCHEMA_ONLY, ValidationDepth.DATA_ONLY])
    first_polars = rng.random() < 0.6
    b = Built()
    b.schemas.update({"P": ps, "D": ds})
    if first_polars:
        b.add("P.validate(DataFrame bad values)", _v(ps, pbad))
    else:
        b.add("D.validate(bad values)", _v(ds, dbad))

    inner_obj = dbad if depth == ValidationDepth.SCHEMA_ONLY else dwrong

    def user_block():
        with config_context(validation_depth=depth):
            return H.run_validate(ds, inner_obj, lazy=True)
    b.add(f"with config_context({depth.name}): D.validate", user_block)
    if n == 3:
        b.add("P.validate(LazyFrame bad values)", _v(ps, pbad.lazy()))
    return b



# ------------------------------------------------------------------ added in session 3
def pl_shared_coerce(rng, n):
    """ONE polars schema whose columns carry coerce=True themselves (no
    frame-level coerce): a thread inside a column's component checks must not
    change what another thread's frame-level coercion sees."""
    import pandera.polars as pap
    regex = rng.random() < 0.3
    cols = {"a": pap.Column(pl.Int64, pap.Check.gt(0), coerce=True),
            "b": pap.Column(pl.Float64, pap.Check.in_range(0, 10), coerce=True),
            "c": pap.Column(pl.String, nullable=rng.random() < 0.5)}
    if regex:
        cols["^r_.*$"] = pap.Column(pl.Int64, pap.Check.ge(0), coerce=True,
                                    regex=True, required=False)
    s = pap.DataFrameSchema(cols, strict=rng.choice([False, False, True]))
    rows = rng.randint(2, 5)
    data = {"a": [str(i + 1) for i in range(rows)],
            "b": [f"{i}.5" for i in range(rows)], "c": ["x"] * rows}
    if regex:
        data["r_1"] = [str(i) for i in range(rows)]
    good = pl.DataFrame(data)
    how = rng.choice(["check", "coerce", "typed"])
    bd = {k: list(v) for k, v in data.items()}
    if how == "check":
        bd["a"][rng.randrange(rows)] = "-4"
    elif how == "coerce":
        bd["b"][rng.randrange(rows)] = "zz"
    else:
        bd["a"] = [-(i + 1) for i in range(rows)]       # typed, failing check
    bad = pl.DataFrame(bd)
    b = Built()
    b.schemas["P"] = s
    b.add("P.validate(DataFrame good, needs casts)", _v(s, good))
    b.add(f"P.validate(DataFrame bad:{how})", _v(s, bad, lazy=rng.random() < 0.5))
    if n == 3:
        b.add("P.validate(LazyFrame good, needs casts)", _v(s, good.lazy()))
    return b


def pd_shared_multiindex(rng, n):
    """ONE pandas schema with a MultiIndex whose levels carry coerce=True and
    checks: the MultiIndex backend validates a coercion-disabled copy of the
    index schema; the levels themselves are shared by all threads."""
    import pandera as pa
    mi = pa.MultiIndex([
        pa.Index(int, pa.Check.ge(0), name="i", coerce=True),
        pa.Index(str, pa.Check.isin(["x", "y", "z"]), name="k",
                 coerce=rng.random() < 0.5)],
        coerce=rng.random() < 0.3, strict=rng.random() < 0.3)
    s = pa.DataFrameSchema({"a": pa.Column(float, pa.Check.ge(0), coerce=True)},
                           index=mi)
    rows = rng.randint(2, 4)

    def frame(i_vals, k_vals, a_vals):
        return pd.DataFrame(
            {"a": a_vals},
            index=pd.MultiIndex.from_arrays([i_vals, k_vals], names=["i", "k"]))
    good = frame([str(i) for i in range(rows)], ["x", "y", "z", "x"][:rows],
                 [str(i) for i in range(rows)])
    how = rng.choice(["level-check", "level-coerce", "column"])
    if how == "level-check":
        bad = frame([str(i) for i in range(rows)], ["q"] * rows,
                    [str(i) for i in range(rows)])
    elif how == "level-coerce":
        bad = frame(["n"] + [str(i) for i in range(1, rows)],
                    ["x"] * rows, [str(i) for i in range(rows)])
    else:
        bad = frame([str(i) for i in range(rows)], ["x"] * rows,
                    ["-1"] + [str(i) for i in range(1, rows)])
    b = Built()
    b.schemas["S"] = s
    b.add("S.validate(good, index needs casts)", _v(s, good))
    b.add(f"S.validate(bad:{how})", _v(s, bad, lazy=rng.random() < 0.5))
    if n == 3:
        typed = frame(list(range(rows)), ["x"] * rows,
                      [float(i) for i in range(rows)])
        b.add("S.validate(good typed)", _v(s, typed))
    return b


def pd_shared_series_and_component(rng, n):
    """ONE SeriesSchema with an index schema (both coercing) shared by the
    threads, and ONE stand-alone regex Column validated directly."""
    import pandera as pa
    ss = pa.SeriesSchema(int, [pa.Check.ge(0), pa.Check.lt(50)], name="q",
                         coerce=True,
                         index=pa.Index(int, pa.Check.ge(0), coerce=True))
    col = pa.Column(int, pa.Check.ge(0), name="^r_.*$", regex=True,
                    coerce=rng.random() < 0.5)
    rows = rng.randint(2, 4)
    sg = pd.Series([str(i) for i in range(rows)], name="q",
                   index=[str(i) for i in range(rows)])
    sb = sg.copy()
    if rng.random() < 0.5:
        sb.iloc[0] = "-3"
    else:
        sb.index = ["-1"] + [str(i) for i in range(1, rows)]
    dg = pd.DataFrame({"r_a": list(range(rows)), "r_b": list(range(rows)),
                       "z": ["u"] * rows})
    db = dg.copy()
    db["r_b"] = [-1] + [1] * (rows - 1)
    b = Built()
    b.schemas.update({"SS": ss, "COL": col})
    if rng.random() < 0.5:
        b.add("SS.validate(good)", _v(ss, sg))
        b.add("SS.validate(bad)", _v(ss, sb, lazy=rng.random() < 0.5))
        if n == 3:
            b.add("COL.validate(bad r_b)", _v(col, db, lazy=rng.random() < 0.5))
    else:
        b.add("COL.validate(good)", _v(col, dg))
        b.add("COL.validate(bad r_b)", _v(col, db, lazy=rng.random() < 0.5))
        if n == 3:
            b.add("SS.validate(good)", _v(ss, sg))
    return b


def pd_shared_tz_agnostic(rng, n):
    """ONE DateTime(time_zone_agnostic=True) dtype object shared by two
    schemas / threads validating data of different time zones; plus a
    drop_invalid_rows schema used lazily by several threads."""
    import pandera as pa
    from pandera.engines import pandas_engine as pe
    dt = pe.DateTime(tz="UTC", time_zone_agnostic=True)
    s = pa.DataFrameSchema(
        {"t": pa.Column(dt), "v": pa.Column(int, pa.Check.ge(0))},
        drop_invalid_rows=rng.random() < 0.5)
    rows = rng.randint(2, 4)

    def frame(tz, vals):
        t = pd.date_range("2020-01-01", periods=rows, freq="h")
        t = t.tz_localize(tz) if tz else t
        return pd.DataFrame({"t": t, "v": vals})
    tokyo = frame("Asia/Tokyo", list(range(rows)))
    utc = frame("UTC", [-1] + list(range(1, rows)))
    naive = frame(None, list(range(rows)))
    b = Built()
    b.schemas["S"] = s
    b.add("S.validate(Tokyo good) lazy", _v(s, tokyo, lazy=True))
    b.add("S.validate(UTC bad v) lazy", _v(s, utc, lazy=True))
    if n == 3:
        b.add("S.validate(naive) lazy", _v(s, naive, lazy=True))
    return b


def mixed_builtin_dispatch(rng, n):
    """The same built-in checks used on pandas and on polars data at the same
    time (the built-in check dispatchers are process-wide objects)."""
    import pandera as pa
    import pandera.polars as pap
    rows = rng.randint(2, 4)
    ps = pa.DataFrameSchema({"a": pa.Column(int, [pa.Check.gt(0), pa.Check.isin(
        list(range(1, 50)))]), "s": pa.Column(str, pa.Check.str_startswith("x"))})
    ls = pap.DataFrameSchema({"a": pap.Column(pl.Int64, [pap.Check.gt(0), pap.Check.isin(
        list(range(1, 50)))]), "s": pap.Column(pl.String, pap.Check.str_startswith("x"))})
    a_good, a_bad = list(range(1, rows + 1)), [-1] + list(range(1, rows))
    sv = ["x%d" % i for i in range(rows)]
    b = Built()
    b.schemas.update({"D": ps, "P": ls})
    b.add("D.validate(pandas good)", _v(ps, pd.DataFrame({"a": a_good, "s": sv})))
    b.add("P.validate(polars bad)", _v(ls, pl.DataFrame({"a": a_bad, "s": sv}),
                                       lazy=rng.random() < 0.5))
    if n == 3:
        b.add("D.validate(pandas bad)", _v(ps, pd.DataFrame(
            {"a": a_bad, "s": ["y"] + sv[1:]}), lazy=True))
    return b

# ------------------------------------------------------------------ registries
_MODEL_SEQ = [0]


def model_first_use(rng, n):
    """First use of a DataFrameModel (MODEL_CACHE filled by to_schema)."""
    polars = rng.random() < 0.35
    _MODEL_SEQ[0] += 1
    name = f"M{_MODEL_SEQ[0]}"
    rows = rng.randint(2, 4)
    if polars:
        import pandera.polars as pap
        M = type(name, (pap.DataFrameModel,), {
            "__annotations__": {"a": int, "b": str},
            "a": pap.Field(gt=0), "__module__": __name__})
        good = pl.DataFrame({"a": list(range(1, rows + 1)), "b": ["x"] * rows})
        bad = pl.DataFrame({"a": [0] * rows, "b": ["x"] * rows})
    else:
        import pandera as pa
        M = type(name, (pa.DataFrameModel,), {
            "__annotations__": {"a": int, "b": str},
            "a": pa.Field(gt=0), "b": pa.Field(isin=["x", "y"]),
            "__module__": __name__})
        good = pd.DataFrame({"a": list(range(1, rows + 1)), "b": ["x"] * rows})
        bad = pd.DataFrame({"a": [0] * rows, "b": ["x"] * rows})
    b = Built()
    b.uses_polars = polars
    b.add("M.validate(good)", _v(M, good))
    b.add("M.validate(bad)", _v(M, bad, lazy=rng.random() < 0.5))
    if n == 3:
        b.add("M.validate(good) #2", _v(M, good, lazy=True))
    return b


def _registries():
    from pandera.api.base.checks import BaseCheck
    from pandera.api.base.parsers import BaseParser
    from pandera.api.base.schema import BaseSchema
    return [BaseSchema.BACKEND_REGISTRY, BaseCheck.BACKEND_REGISTRY,
            BaseParser.BACKEND_REGISTRY]


def registry_first_use(rng, n):
    """First use of the lazily filled backend registry from several threads."""
    import pandera as pa
    import pandera.polars as pap
    from pandera.api.pandas import types as ptypes
    from pandera.backends.pandas.register import register_pandas_backends
    from pandera.backends.polars.register import register_polars_backends
    mode = rng.choice(["pandas", "pandas", "polars", "mixed"])
    rows = rng.randint(2, 4)
    saved = [dict(r) for r in _registries()]
    for r in _registries():
        r.clear()
    register_pandas_backends.cache_clear()
    register_polars_backends.cache_clear()
    ptypes.get_backend_types.cache_clear()

    def cleanup():
        for r, old in zip(_registries(), saved):
            for k, v in old.items():
                r.setdefault(k, v)

    ds = pa.DataFrameSchema({"a": pa.Column(int, pa.Check.gt(0))},
                            index=pa.Index(int))
    ss = pa.SeriesSchema(float, pa.Check.lt(5), name="s")
    ps = pap.DataFrameSchema({"a": pap.Column(pl.Int64, pap.Check.gt(0))})
    dgood = pd.DataFrame({"a": list(range(1, rows + 1))})
    sbad = pd.Series([9.0] * rows, name="s")
    pgood = pl.DataFrame({"a": list(range(1, rows + 1))})
    pbad = pl.DataFrame({"a": [0] * rows})
    b = Built()
    b.cleanup = cleanup
    b.uses_polars = mode != "pandas"
    b.schemas.update({"D": ds, "Se": ss, "P": ps})
    if mode == "pandas":
        b.add("D.validate(good)", _v(ds, dgood))
        b.add("Se.validate(bad)", _v(ss, sbad))
        if n == 3:
            b.add("D.validate(good) lazy", _v(ds, dgood, lazy=True))
    elif mode == "polars":
        b.add("P.validate(good)", _v(ps, pgood))
        b.add("P.validate(bad)", _v(ps, pbad))
        if n == 3:
            b.add("P.validate(good) lazy", _v(ps, pgood, lazy=True))
    else:
        b.add("D.validate(good)", _v(ds, dgood))
        b.add("P.validate(bad)", _v(ps, pbad))
        if n == 3:
            b.add("Se.validate(bad)", _v(ss, sbad))
    return b


# name -> (builder, flags)
#   config: a polars validate or a user config_context block takes part
#   pandas_shared: several threads validate with ONE pandas schema object
SCENARIOS = {
    "pd_shared_coerce": (pd_shared_coerce, {"pandas_shared": True}),
    "pd_shared_frame_dtype": (pd_shared_frame_dtype, {"pandas_shared": True}),
    "pd_shared_regex": (pd_shared_regex, {"pandas_shared": True}),
    "pd_shared_plain": (pd_shared_plain, {"pandas_shared": True}),
    "pd_two_schemas": (pd_two_schemas, {}),
    "pl_df_vs_lazy": (pl_df_vs_lazy, {"config": True}),
    "pl_vs_user_ctx": (pl_vs_user_ctx, {"config": True}),
    "model_first_use": (model_first_use, {"pandas_shared": True,
                                          "config": "if_polars"}),
    "registry_first_use": (registry_first_use, {"config": "if_polars"}),
    "pl_shared_coerce": (pl_shared_coerce, {"config": True}),
    "pd_shared_multiindex": (pd_shared_multiindex, {"pandas_shared": True}),
    "pd_shared_series_and_component": (pd_shared_series_and_component,
                                       {"pandas_shared": True}),
    "pd_shared_tz_agnostic": (pd_shared_tz_agnostic, {"pandas_shared": True}),
    "mixed_builtin_dispatch": (mixed_builtin_dispatch, {"config": True}),
}
ORDER = list(SCENARIOS)


def build(name, variant, n, seed):
    fn, flags = SCENARIOS[name]
    rng = random.Random(f"c07|{seed}|{name}|{variant}")
    b = fn(rng, n)
    fl = dict(flags)
    if fl.get("config") == "if_polars":
        fl["config"] = bool(getattr(b, "uses_polars", False))
    if name == "model_first_use" and getattr(b, "uses_polars", False):
        fl["pandas_shared"] = False
    b.flags = fl
    b.name, b.variant, b.n = name, variant, n
    return b


# ------------------------------------------------------------------ warm-up
SKIP_IMPORT = ("pyspark", "dask", "modin", "geopandas", "fastapi", "mypy",
               "ibis", "strategies", "hypotheses")


def warm_up():
    """Import every pandera module the scenarios can reach and run one
    validate of each kind, so that no scheduled thread ever parks while
    holding an import lock or inside a first-use initialisation that is not
    the subject of a scenario."""
    import importlib
    import pkgutil

    import pandera
    import pandera.polars  # noqa: F401
    n = 0
    for m in pkgutil.walk_packages(pandera.__path__, "pandera."):
        if any(k in m.name for k in SKIP_IMPORT):
            continue
        try:
            importlib.import_module(m.name)
            n += 1
        except BaseException:  # optional integration not importable
            pass
    for name in ORDER:
        for v in range(3):
            for k in (2, 3):
                b = build(name, v, k, "warm")
                try:
                    for t in b.thunks:
                        t()
                finally:
                    if b.cleanup:
                        b.cleanup()
    return n
